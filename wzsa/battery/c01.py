"""self-validation battery for C01."""
M = "sansio/multipart.py"
F = "formparser.py"

_PREAMBLE_BRANCH = '''        if self.state == State.PREAMBLE:
            match = self.preamble_re.search(self.buffer, self._search_position)
            if match is not None:
                if match.group(1).startswith(b"--"):
                    self.state = State.EPILOGUE
                else:
                    self.state = State.PART
                data = bytes(self.buffer[: match.start()])
                del self.buffer[: match.end()]
                event = Preamble(data=data)
                self._search_position = 0
            else:
                # Update the search start position to be equal to the
                # current buffer length (already searched) minus a
                # safe buffer for part of the search target.
                self._search_position = max(
                    0, len(self.buffer) - len(self.boundary) - SEARCH_EXTRA_LENGTH
                )
'''
_PREAMBLE_CALL = '''        if self.state == State.PREAMBLE:
            event = self._preamble_event()
'''
_PREAMBLE_METHOD = '''    def _preamble_event(self) -> Event:
        found = self.preamble_re.search(self.buffer, self._search_position)
        if found is None:
            keep = len(self.boundary) + SEARCH_EXTRA_LENGTH
            self._search_position = max(0, len(self.buffer) - keep)
            return NEED_DATA
        self._search_position = 0
        self.state = (
            State.EPILOGUE if found.group(1).startswith(b"--") else State.PART
        )
        head = bytes(self.buffer[: found.start()])
        del self.buffer[: found.end()]
        return Preamble(data=head)

    def _parse_headers(self, data: bytes) -> Headers:'''
_PREAMBLE_METHOD_PLAIN = '''    def _preamble_event(self) -> Event:
        found = self.preamble_re.search(self.buffer, self._search_position)
        if found is None:
            keep = len(self.boundary) + SEARCH_EXTRA_LENGTH
            self._search_position = max(0, len(self.buffer) - keep)
            return NEED_DATA
        self._search_position = 0
        if found.group(1).startswith(b"--"):
            self.state = State.EPILOGUE
        else:
            self.state = State.PART
        head = bytes(self.buffer[: found.start()])
        del self.buffer[: found.end()]
        return Preamble(data=head)

    def _parse_headers(self, data: bytes) -> Headers:'''

_FLUSH_A = '''            if (len(data) - data_end) > len(b"\\n" + boundary):
                data_end = del_index = len(data)
'''
_HOLD_B = '''            else:
                data_end = del_index = self.last_newline(data[data_start:]) + data_start
            more_data = match is None
'''

_SPLIT_TAIL = '        boundary = b"--" + self.boundary\n\n        if self.buffer.find(boundary) == -1:\n            # No complete boundary in the buffer, but there may be\n            # a partial boundary at the end. As the boundary\n            # starts with either a nl or cr find the earliest and\n            # return up to that as data.\n            data_end = del_index = self.last_newline(data[data_start:]) + data_start\n            # If amount of data after last newline is far from\n            # possible length of partial boundary, we should\n            # assume that there is no partial boundary in the buffer\n            # and return all pending data.\n            if (len(data) - data_end) > len(b"\\n" + boundary):\n                data_end = del_index = len(data)\n            more_data = True\n        else:\n            match = self.boundary_re.search(data)\n            if match is not None:\n                if match.group(1).startswith(b"--"):\n                    self.state = State.EPILOGUE\n                else:\n                    self.state = State.PART\n                data_end = match.start()\n                del_index = match.end()\n            else:\n                data_end = del_index = self.last_newline(data[data_start:]) + data_start\n            more_data = match is None\n\n        return bytes(data[data_start:data_end]), del_index, more_data\n\n\n'
_SPLIT_TAIL_EARLY_RETURNS = '        boundary = b"--" + self.boundary\n\n        if self.buffer.find(boundary) == -1:\n            hold = self.last_newline(data[data_start:]) + data_start\n            if len(data) - hold > len(b"\\n" + boundary):\n                return bytes(data[data_start:]), len(data), True\n            return bytes(data[data_start:hold]), hold, True\n        found = self.boundary_re.search(data)\n        if found is None:\n            hold = self.last_newline(data[data_start:]) + data_start\n            return bytes(data[data_start:hold]), hold, True\n        if found.group(1).startswith(b"--"):\n            self.state = State.EPILOGUE\n        else:\n            self.state = State.PART\n        return bytes(data[data_start : found.start()]), found.end(), False\n\n\n'

# a failed search stores its window through a small helper that takes the tail length
_WINDOW_PREAMBLE = """                self._search_position = max(
                    0, len(self.buffer) - len(self.boundary) - SEARCH_EXTRA_LENGTH
                )
"""
_WINDOW_PART = "                self._search_position = max(0, len(self.buffer) - SEARCH_EXTRA_LENGTH)\n"
_TAIL_HELPER = """    def _keep_tail(self, keep: int) -> None:
        self._search_position = max(0, len(self.buffer) - keep)

    def _parse_headers(self, data: bytes) -> Headers:"""
# ... or the position itself
_POS_HELPER = """    def _resume_at(self, position: int) -> None:
        self._search_position = max(0, position)

    def _parse_headers(self, data: bytes) -> Headers:"""
_ANCHOR = """        try:
            last_nl = data.rindex(b"\\n")
        except ValueError:
            last_nl = len(data)
        try:
            last_cr = data.rindex(b"\\r")
        except ValueError:
            last_cr = len(data)

        return min(last_nl, last_cr)
"""
_ANCHOR_RFIND_IFEXP = """        end = len(data)
        last_nl = at if (at := data.rfind(b"\\n")) >= 0 else end
        at = data.rfind(b"\\r")
        return min(last_nl, end if at < 0 else at)
"""
_ANCHOR_RFIND_EARLY = """        nl, cr = data.rfind(b"\\n"), data.rfind(b"\\r")
        if nl == -1:
            nl = len(data)
        if cr != -1:
            return min(cr, nl)
        return min(nl, len(data))
"""
_CHUNK_LOOP = "    while True:\n        data = read(size)\n\n        if not data:\n            break\n\n        yield data\n"
_HOLD_A = "            data_end = del_index = self.last_newline(data[data_start:]) + data_start\n            # If amount of data"

MUTANTS = [
    # R1.1 ------------------------------------------------------------------
    {"name": "search-extra-length-2", "expect": "R1.1", "edits": [(M, "SEARCH_EXTRA_LENGTH = 8", "SEARCH_EXTRA_LENGTH = 2")]},
    {"name": "preamble-window-forgets-boundary-length", "expect": "R1.1", "edits": [
        (M, "0, len(self.buffer) - len(self.boundary) - SEARCH_EXTRA_LENGTH", "0, len(self.buffer) - SEARCH_EXTRA_LENGTH")]},
    {"name": "preamble-window-parenthesis-slip", "expect": "R1.1", "edits": [
        (M, "0, len(self.buffer) - len(self.boundary) - SEARCH_EXTRA_LENGTH", "0, len(self.buffer) - (len(self.boundary) - SEARCH_EXTRA_LENGTH)")]},
    # R1.2 ------------------------------------------------------------------
    {"name": "no-reset-after-preamble", "expect": "R1.2", "edits": [
        (M, "                event = Preamble(data=data)\n                self._search_position = 0\n", "                event = Preamble(data=data)\n")]},
    {"name": "no-reset-after-headers", "expect": "R1.2", "edits": [
        (M, "                self.state = State.DATA_START\n                self._search_position = 0\n", "                self.state = State.DATA_START\n")]},
    {"name": "reset-only-when-epilogue-follows", "expect": "R1.2", "edits": [
        (M, "                    self.state = State.EPILOGUE\n                else:\n                    self.state = State.PART\n                data = bytes(self.buffer[: match.start()])",
            "                    self.state = State.EPILOGUE\n                    self._search_position = 0\n                else:\n                    self.state = State.PART\n                data = bytes(self.buffer[: match.start()])"),
        (M, "                event = Preamble(data=data)\n                self._search_position = 0\n", "                event = Preamble(data=data)\n")]},
    {"name": "data-state-records-a-window", "expect": "R1.2", "edits": [
        (M, "            del self.buffer[:del_index]\n            if data or not more_data:\n                event = Data(data=data, more_data=more_data)\n",
            "            del self.buffer[:del_index]\n            if data or not more_data:\n                event = Data(data=data, more_data=more_data)\n            else:\n                match = self.boundary_re.search(self.buffer, self._search_position)\n                self._search_position = max(0, len(self.buffer) - len(self.boundary) - SEARCH_EXTRA_LENGTH)\n")]},
    # R1.3 ------------------------------------------------------------------
    {"name": "one-event-per-chunk", "expect": "R1.3", "edits": [
        (F, "            while not isinstance(event, (Epilogue, NeedData)):", "            if not isinstance(event, (Epilogue, NeedData)):")]},
    {"name": "drain-stops-at-non-terminal-event", "expect": "R1.3", "edits": [
        (F, "            while not isinstance(event, (Epilogue, NeedData)):", "            while not isinstance(event, (Epilogue, NeedData, Preamble)):"),
        (F, "from .sansio.multipart import NeedData\n", "from .sansio.multipart import NeedData\nfrom .sansio.multipart import Preamble\n")]},
    {"name": "short-read-ends-input", "expect": "R1.3", "edits": [
        (F, "        if not data:\n            break\n\n        yield data\n", "        yield data\n\n        if len(data) < size:\n            break\n")]},
    {"name": "no-end-signal", "expect": "R1.3", "edits": [(F, "        yield data\n\n    yield None\n", "        yield data\n")]},
    {"name": "chunk-stripped-before-feeding", "expect": "R1.3", "edits": [(F, "        yield data\n\n    yield None\n", "        yield data.rstrip(b\"\\r\\n\")\n\n    yield None\n")]},
    # R1.4 ------------------------------------------------------------------
    {"name": "flush-threshold-without-line-break", "expect": "R1.4", "edits": [(M, 'if (len(data) - data_end) > len(b"\\n" + boundary):', "if (len(data) - data_end) > len(boundary):")]},
    {"name": "flush-threshold-inclusive", "expect": "R1.4", "edits": [(M, 'if (len(data) - data_end) > len(b"\\n" + boundary):', 'if (len(data) - data_end) >= len(b"\\n" + boundary):')]},
    {"name": "flush-whenever-something-is-pending", "expect": "R1.4", "edits": [(M, 'if (len(data) - data_end) > len(b"\\n" + boundary):', "if len(data) > data_end:")]},
    {"name": "flush-copied-to-lookalike-branch", "expect": "R1.4", "edits": [
        (M, _HOLD_B, '''            else:
                data_end = del_index = self.last_newline(data[data_start:]) + data_start
                if (len(data) - data_end) > len(b"\\n" + boundary):
                    data_end = del_index = len(data)
            more_data = match is None
''')]},
    {"name": "delete-whole-buffer-keep-payload-end", "expect": "R1.4", "edits": [
        (M, "            more_data = True\n", "            del_index = len(data)\n            more_data = True\n")]},
    # R1.5 ------------------------------------------------------------------
    {"name": "flush-in-lookalike-branch-wide-enough-but-same-anchor", "expect": "R1.5", "edits": [
        (M, _HOLD_B, '''            else:
                data_end = del_index = self.last_newline(data[data_start:]) + data_start
                if (len(data) - data_end) > len(b"\\r\\n" + boundary + b"--"):
                    data_end = del_index = len(data)
            more_data = match is None
''')]},
    # R1.6 ------------------------------------------------------------------
    {"name": "first-call-releases-up-to-last-line-break-without-looking", "expect": "R1.6", "edits": [
        (M, '        boundary = b"--" + self.boundary\n\n        if self.buffer.find(boundary) == -1:',
            '        if start:\n            held = self.last_newline(data[data_start:]) + data_start\n            return bytes(data[data_start:held]), held, True\n\n        boundary = b"--" + self.boundary\n\n        if self.buffer.find(boundary) == -1:')]},
    # generalised shapes still catch the defect ---------------------------------
    {"name": "window-through-helper-too-short-for-blank-line", "expect": "R1.1", "edits": [
        (M, _WINDOW_PREAMBLE, "                self._keep_tail(len(self.boundary) + SEARCH_EXTRA_LENGTH)\n"),
        (M, _WINDOW_PART, "                self._keep_tail(2)\n"),
        (M, "    def _parse_headers(self, data: bytes) -> Headers:", _TAIL_HELPER)]},
    {"name": "position-through-helper-forgets-boundary-length", "expect": "R1.1", "edits": [
        (M, _WINDOW_PREAMBLE, "                self._resume_at(len(self.buffer) - SEARCH_EXTRA_LENGTH)\n"),
        (M, _WINDOW_PART, "                self._resume_at(len(self.buffer) - SEARCH_EXTRA_LENGTH)\n"),
        (M, "    def _parse_headers(self, data: bytes) -> Headers:", _POS_HELPER)]},
    {"name": "walrus-reader-short-read-ends-input", "expect": "R1.3", "edits": [
        (F, _CHUNK_LOOP, "    while data := read(size):\n        yield data\n\n        if len(data) < size:\n            break\n")]},
    {"name": "walrus-reader-stops-on-small-chunk", "expect": "R1.3", "edits": [
        (F, _CHUNK_LOOP, "    while len(data := read(size)) > 1:\n        yield data\n")]},
    # R1.7 ------------------------------------------------------------------
    {"name": "hold-back-offset-forgotten", "expect": "R1.7", "edits": [
        (M, _HOLD_A, "            data_end = del_index = self.last_newline(data[data_start:])\n            # If amount of data")]},
    {"name": "hold-back-over-whole-buffer-in-lookalike-branch", "expect": "R1.7", "edits": [
        (M, _HOLD_B, "            else:\n                data_end = del_index = self.last_newline(data)\n            more_data = match is None\n")]},
    {"name": "hold-back-one-before-region-start", "expect": "R1.7", "edits": [
        (M, _HOLD_A, "            data_end = del_index = self.last_newline(data[data_start:]) + data_start - 1\n            # If amount of data")]},
]

TWINS = [
    {"name": "larger-search-extra-length", "edits": [(M, "SEARCH_EXTRA_LENGTH = 8", "SEARCH_EXTRA_LENGTH = 16")]},
    {"name": "tightest-sufficient-search-extra-length", "edits": [(M, "SEARCH_EXTRA_LENGTH = 8", "SEARCH_EXTRA_LENGTH = 3")]},
    {"name": "reset-before-delete", "edits": [
        (M, "                data = bytes(self.buffer[: match.start()])\n                del self.buffer[: match.end()]\n                event = Preamble(data=data)\n                self._search_position = 0\n",
            "                self._search_position = 0\n                data = bytes(self.buffer[: match.start()])\n                del self.buffer[: match.end()]\n                event = Preamble(data=data)\n")]},
    {"name": "preamble-branch-extracted-early-return-renamed", "edits": [(M, _PREAMBLE_BRANCH, _PREAMBLE_CALL), (M, "    def _parse_headers(self, data: bytes) -> Headers:", _PREAMBLE_METHOD_PLAIN)]},
    {"name": "preamble-branch-extracted-conditional-expression", "edits": [(M, _PREAMBLE_BRANCH, _PREAMBLE_CALL), (M, "    def _parse_headers(self, data: bytes) -> Headers:", _PREAMBLE_METHOD)]},
    {"name": "reset-through-helper", "edits": [
        (M, "                self.state = State.DATA_START\n                self._search_position = 0\n", "                self.state = State.DATA_START\n                self._restart_search()\n"),
        (M, "    def _parse_headers(self, data: bytes) -> Headers:", "    def _restart_search(self) -> None:\n        self._search_position = 0\n\n    def _parse_headers(self, data: bytes) -> Headers:")]},
    {"name": "anchor-locals-renamed", "edits": [
        (M, '            last_nl = data.rindex(b"\\n")', '            nl_at = data.rindex(b"\\n")'),
        (M, "            last_nl = len(data)", "            nl_at = len(data)"),
        (M, "        return min(last_nl, last_cr)", "        return min(last_cr, nl_at)")]},
    {"name": "stricter-flush-threshold", "edits": [(M, 'if (len(data) - data_end) > len(b"\\n" + boundary):', 'if (len(data) - data_end) > len(b"\\r\\n" + boundary):')]},
    {"name": "flush-threshold-through-locals", "edits": [(M, _FLUSH_A, '''            pending = len(data) - data_end
            limit = 1 + len(boundary)
            if pending >= limit + 1:
                data_end = del_index = len(data)
''')]},
    {"name": "splitter-early-return-style-renamed", "edits": [(M, _SPLIT_TAIL, _SPLIT_TAIL_EARLY_RETURNS)]},
    {"name": "presence-test-with-not-in", "edits": [
        (M, "        if self.buffer.find(boundary) == -1:", "        if boundary not in self.buffer:")]},
    {"name": "drain-loop-while-true-break", "edits": [
        (F, "            event = parser.next_event()\n            while not isinstance(event, (Epilogue, NeedData)):\n", "            while True:\n                event = parser.next_event()\n                if isinstance(event, (Epilogue, NeedData)):\n                    break\n"),
        (F, "\n                event = parser.next_event()\n\n        return self.cls(fields), self.cls(files)", "\n        return self.cls(fields), self.cls(files)")]},
    {"name": "chunk-reader-len-test", "edits": [(F, "        if not data:\n            break\n", "        if len(data) == 0:\n            break\n")]},
    {"name": "window-through-helper-taking-the-tail-length", "edits": [
        (M, _WINDOW_PREAMBLE, "                self._keep_tail(len(self.boundary) + SEARCH_EXTRA_LENGTH)\n"),
        (M, _WINDOW_PART, "                self._keep_tail(keep=SEARCH_EXTRA_LENGTH)\n"),
        (M, "    def _parse_headers(self, data: bytes) -> Headers:", _TAIL_HELPER)]},
    {"name": "window-through-helper-taking-the-position", "edits": [
        (M, _WINDOW_PREAMBLE, "                self._resume_at(len(self.buffer) - (SEARCH_EXTRA_LENGTH + len(self.boundary)))\n"),
        (M, _WINDOW_PART, "                self._resume_at(len(self.buffer) - SEARCH_EXTRA_LENGTH)\n"),
        (M, "    def _parse_headers(self, data: bytes) -> Headers:", _POS_HELPER)]},
    {"name": "anchor-rfind-conditional-expressions-walrus", "edits": [(M, _ANCHOR, _ANCHOR_RFIND_IFEXP)]},
    {"name": "anchor-rfind-tuple-assignment-early-return", "edits": [(M, _ANCHOR, _ANCHOR_RFIND_EARLY)]},
    {"name": "anchor-compares-the-two-positions-by-hand", "edits": [
        (M, "        return min(last_nl, last_cr)\n", "        if last_cr > last_nl:\n            return last_nl\n        return last_cr\n")]},
    {"name": "window-through-helper-that-clamps-with-an-if", "edits": [
        (M, _WINDOW_PREAMBLE, "                self._keep_tail(len(self.boundary) + SEARCH_EXTRA_LENGTH)\n"),
        (M, _WINDOW_PART, "                self._keep_tail(SEARCH_EXTRA_LENGTH)\n"),
        (M, "    def _parse_headers(self, data: bytes) -> Headers:",
            "    def _keep_tail(self, keep: int) -> None:\n        position = len(self.buffer) - keep\n        if position < 0:\n            position = 0\n        self._search_position = position\n\n    def _parse_headers(self, data: bytes) -> Headers:")]},
    {"name": "chunk-reader-walrus-loop", "edits": [(F, _CHUNK_LOOP, "    while data := read(size):\n        yield data\n")]},
    {"name": "chunk-reader-walrus-compare", "edits": [(F, _CHUNK_LOOP, "    while (data := read(size)) != b\"\":\n        yield data\n")]},
    {"name": "payload-start-default-then-overwritten-and-region-alias", "edits": [
        (M, "        if start:\n            match = LINE_BREAK_RE.match(data)\n            data_start = t.cast(t.Match[bytes], match).end()\n        else:\n            data_start = 0\n",
            "        data_start = 0\n        if start:\n            match = LINE_BREAK_RE.match(data)\n            data_start = t.cast(t.Match[bytes], match).end()\n"),
        (M, _HOLD_A, "            tail = data[data_start:]\n            data_end = del_index = data_start + self.last_newline(tail)\n            # If amount of data")]},
]

# ---------------------------------------------------------------------------
# round 2: further spellings of the same meaning (each neutral one confirmed by a differential run over chunk schedules),
# and for every newly accepted shape a defect written in that shape

MUTANTS += [
    {"name": 'flag-drain-stops-at-data-events', "expect": 'R1.3', "edits": [
        (F, '            event = parser.next_event()\n            while not isinstance(event, (Epilogue, NeedData)):\n',
            '            event = parser.next_event()\n            more = not isinstance(event, (Epilogue, NeedData))\n            while more:\n'),
        (F, '\n                event = parser.next_event()\n\n        return self.cls(fields), self.cls(files)',
            '\n                event = parser.next_event()\n                more = not isinstance(event, (Epilogue, NeedData, Data))\n\n        return self.cls(fields), self.cls(files)'),
        (F, 'from .sansio.multipart import Data\n',
            'from .sansio.multipart import Data\n'),
    ]},
    {"name": 'predicate-helper-treats-data-as-terminal', "expect": 'R1.3', "edits": [
        (F, '            event = parser.next_event()\n            while not isinstance(event, (Epilogue, NeedData)):\n',
            '            event = parser.next_event()\n            while not _is_terminal(event):\n'),
        (F, 'def _chunk_iter(read: t.Callable[[int], bytes], size: int) -> t.Iterator[bytes | None]:',
            'def _is_terminal(event: Event) -> bool:\n    if isinstance(event, NeedData):\n        return True\n    return isinstance(event, (Epilogue, Data))\n\n\ndef _chunk_iter(read: t.Callable[[int], bytes], size: int) -> t.Iterator[bytes | None]:'),
    ]},
    {"name": 'walrus-drain-is-an-if', "expect": 'R1.3', "edits": [
        (F, '            event = parser.next_event()\n            while not isinstance(event, (Epilogue, NeedData)):\n',
            '            if not isinstance(event := parser.next_event(), (Epilogue, NeedData)):\n'),
        (F, '\n                event = parser.next_event()\n\n        return self.cls(fields), self.cls(files)',
            '\n        return self.cls(fields), self.cls(files)'),
    ]},
    {"name": 'generator-drain-stops-at-data-events', "expect": 'R1.3', "edits": [
        (F, '            event = parser.next_event()\n            while not isinstance(event, (Epilogue, NeedData)):\n',
            '            for event in _events(parser):\n'),
        (F, 'from .sansio.multipart import NeedData\n',
            'from .sansio.multipart import NeedData\n'),
        (F, '\n                event = parser.next_event()\n\n        return self.cls(fields), self.cls(files)',
            '\n        return self.cls(fields), self.cls(files)'),
        (F, 'def _chunk_iter(read: t.Callable[[int], bytes], size: int) -> t.Iterator[bytes | None]:',
            'def _events(decoder: MultipartDecoder) -> t.Iterator[Event]:\n    while True:\n        event = decoder.next_event()\n        if isinstance(event, (Epilogue, NeedData, Data)):\n            return\n        yield event\n\n\ndef _chunk_iter(read: t.Callable[[int], bytes], size: int) -> t.Iterator[bytes | None]:'),
    ]},
    {"name": 'exact-type-drain-stops-at-data-events', "expect": 'R1.3', "edits": [
        (F, '            event = parser.next_event()\n            while not isinstance(event, (Epilogue, NeedData)):\n',
            '            event = parser.next_event()\n            while type(event) not in (Epilogue, NeedData, Data):\n'),
    ]},
    {"name": 'cached-methods-one-event-per-chunk', "expect": 'R1.3', "edits": [
        (F, '        for data in _chunk_iter(stream.read, self.buffer_size):\n            parser.receive_data(data)\n',
            '        feed = parser.receive_data\n        next_event = parser.next_event\n        for data in _chunk_iter(stream.read, self.buffer_size):\n            feed(data)\n'),
        (F, '            event = parser.next_event()\n            while not isinstance(event, (Epilogue, NeedData)):\n',
            '            event = next_event()\n            if not isinstance(event, (Epilogue, NeedData)):\n'),
        (F, '\n                event = parser.next_event()\n\n        return self.cls(fields), self.cls(files)',
            '\n                event = next_event()\n\n        return self.cls(fields), self.cls(files)'),
    ]},
    {"name": 'feed-helper-strips-the-chunk', "expect": 'R1.3', "edits": [
        (F, '            parser.receive_data(data)\n',
            '            self._feed(parser, data)\n'),
        (F, '    def parse(\n        self, stream: t.IO[bytes], boundary: bytes, content_length: int | None\n',
            '    def _feed(self, decoder: MultipartDecoder, chunk: bytes | None) -> None:\n        if chunk is not None:\n            chunk = chunk.lstrip()\n        decoder.receive_data(chunk)\n\n    def parse(\n        self, stream: t.IO[bytes], boundary: bytes, content_length: int | None\n'),
    ]},
    {"name": 'prime-and-refetch-reader-stops-on-short-read', "expect": 'R1.3', "edits": [
        (F, '    while True:\n        data = read(size)\n\n        if not data:\n            break\n\n        yield data\n',
            '    data = read(size)\n\n    while len(data) == size:\n        yield data\n        data = read(size)\n'),
    ]},
    {"name": 'sentinel-reader-drops-short-reads', "expect": 'R1.3', "edits": [
        (F, '    while True:\n        data = read(size)\n\n        if not data:\n            break\n\n        yield data\n',
            '    for data in iter(lambda: read(size), b""):\n        if len(data) < size:\n            break\n\n        yield data\n'),
    ]},
    {"name": 'chunk-stripped-through-a-local', "expect": 'R1.3', "edits": [
        (F, '    while True:\n        data = read(size)\n\n        if not data:\n            break\n\n        yield data\n',
            '    while True:\n        data = read(size)\n\n        if not data:\n            break\n\n        data = data.rstrip()\n        yield data\n'),
    ]},
    {"name": 'state-copy-shape-no-reset-after-headers', "expect": 'R1.2', "edits": [
        (M, '        event: Event = NEED_DATA\n\n        if self.state == State.PREAMBLE:',
            '        event: Event = NEED_DATA\n        state = self.state\n\n        if state == State.PREAMBLE:'),
        (M, '        elif self.state == State.PART:',
            '        elif state == State.PART:'),
        (M, '                self.state = State.DATA_START\n                self._search_position = 0\n',
            '                self.state = State.DATA_START\n'),
    ]},
    {"name": 'setter-shape-no-reset-after-headers', "expect": 'R1.2', "edits": [
        (M, '                self.state = State.DATA_START\n                self._search_position = 0\n',
            '                self._enter(State.DATA_START)\n'),
        (M, '    def _parse_headers(self, data: bytes) -> Headers:',
            '    def _enter(self, state: State) -> None:\n        self.state = state\n\n    def _parse_headers(self, data: bytes) -> Headers:'),
    ]},
    {"name": 'module-function-state-no-reset-after-preamble', "expect": 'R1.2', "edits": [
        (M, '                if match.group(1).startswith(b"--"):\n                    self.state = State.EPILOGUE\n                else:\n                    self.state = State.PART\n                data = bytes(self.buffer[: match.start()])',
            '                self.state = _after_boundary(match.group(1))\n                data = bytes(self.buffer[: match.start()])'),
        (M, 'class MultipartDecoder:\n',
            'def _after_boundary(tail: bytes) -> State:\n    return State.EPILOGUE if tail.startswith(b"--") else State.PART\n\n\nclass MultipartDecoder:\n'),
        (M, '                event = Preamble(data=data)\n                self._search_position = 0\n',
            '                event = Preamble(data=data)\n'),
    ]},
    {"name": 'static-helper-state-no-reset-after-preamble', "expect": 'R1.2', "edits": [
        (M, '                if match.group(1).startswith(b"--"):\n                    self.state = State.EPILOGUE\n                else:\n                    self.state = State.PART\n                data = bytes(self.buffer[: match.start()])',
            '                self.state = self._after_boundary(match)\n                data = bytes(self.buffer[: match.start()])'),
        (M, '                event = Preamble(data=data)\n                self._search_position = 0\n',
            '                event = Preamble(data=data)\n'),
        (M, '    def _parse_headers(self, data: bytes) -> Headers:',
            '    @staticmethod\n    def _after_boundary(match: t.Match[bytes]) -> State:\n        if match.group(1).startswith(b"--"):\n            return State.EPILOGUE\n\n        return State.PART\n\n    def _parse_headers(self, data: bytes) -> Headers:'),
    ]},
    {"name": 'buffer-copy-shape-no-reset-after-preamble', "expect": 'R1.2', "edits": [
        (M, '                event = Preamble(data=data)\n                self._search_position = 0\n',
            '                event = Preamble(data=data)\n'),
        (M, '        event: Event = NEED_DATA\n\n        if self.state == State.PREAMBLE:\n            match = self.preamble_re.search(self.buffer, self._search_position)\n',
            '        event: Event = NEED_DATA\n        buffer = self.buffer\n\n        if self.state == State.PREAMBLE:\n            match = self.preamble_re.search(buffer, self._search_position)\n'),
        (M, '                data = bytes(self.buffer[: match.start()])\n                del self.buffer[: match.end()]\n',
            '                data = bytes(buffer[: match.start()])\n                del buffer[: match.end()]\n'),
        (M, '                    0, len(self.buffer) - len(self.boundary) - SEARCH_EXTRA_LENGTH\n',
            '                    0, len(buffer) - len(self.boundary) - SEARCH_EXTRA_LENGTH\n'),
        (M, '            match = BLANK_LINE_RE.search(self.buffer, self._search_position)\n',
            '            match = BLANK_LINE_RE.search(buffer, self._search_position)\n'),
        (M, '                headers = self._parse_headers(self.buffer[: match.start()])',
            '                headers = self._parse_headers(buffer[: match.start()])'),
        (M, '                del self.buffer[:headers_end]\n',
            '                del buffer[:headers_end]\n'),
        (M, '                self._search_position = max(0, len(self.buffer) - SEARCH_EXTRA_LENGTH)\n',
            '                self._search_position = max(0, len(buffer) - SEARCH_EXTRA_LENGTH)\n'),
        (M, '            data, del_index, more_data = self._parse_data(self.buffer, start=True)\n            del self.buffer[:del_index]\n',
            '            data, del_index, more_data = self._parse_data(buffer, start=True)\n            del buffer[:del_index]\n'),
        (M, '            data, del_index, more_data = self._parse_data(self.buffer, start=False)\n            del self.buffer[:del_index]\n',
            '            data, del_index, more_data = self._parse_data(buffer, start=False)\n            del buffer[:del_index]\n'),
        (M, '            event = Epilogue(data=bytes(self.buffer))\n            del self.buffer[:]\n',
            '            event = Epilogue(data=bytes(buffer))\n            del buffer[:]\n'),
    ]},
    {"name": 'offset-copy-shape-no-reset-after-headers', "expect": 'R1.2', "edits": [
        (M, '                self.state = State.DATA_START\n                self._search_position = 0\n',
            '                self.state = State.DATA_START\n'),
        (M, '        event: Event = NEED_DATA\n\n        if self.state == State.PREAMBLE:\n            match = self.preamble_re.search(self.buffer, self._search_position)\n',
            '        event: Event = NEED_DATA\n        position = self._search_position\n\n        if self.state == State.PREAMBLE:\n            match = self.preamble_re.search(self.buffer, position)\n'),
        (M, '            match = BLANK_LINE_RE.search(self.buffer, self._search_position)\n',
            '            match = BLANK_LINE_RE.search(self.buffer, position)\n'),
    ]},
    {"name": 'conditional-expression-release-threshold-without-line-break', "expect": 'R1.4', "edits": [
        (M, '            data_end = del_index = self.last_newline(data[data_start:]) + data_start\n            # If amount of data after last newline is far from\n            # possible length of partial boundary, we should\n            # assume that there is no partial boundary in the buffer\n            # and return all pending data.\n            if (len(data) - data_end) > len(b"\\n" + boundary):\n                data_end = del_index = len(data)\n',
            '            hold = self.last_newline(data[data_start:]) + data_start\n            data_end = del_index = len(data) if (len(data) - hold) > len(boundary) else hold\n'),
    ]},
    {"name": 'span-shape-threshold-without-line-break', "expect": 'R1.4', "edits": [
        (M, '                data_end = match.start()\n                del_index = match.end()\n',
            '                data_end, del_index = match.span()\n'),
        (M, '            if (len(data) - data_end) > len(b"\\n" + boundary):',
            '            if (len(data) - data_end) > len(boundary):'),
    ]},
    {"name": 'static-anchor-offset-forgotten', "expect": 'R1.7', "edits": [
        (M, '    def last_newline(self, data: bytes) -> int:',
            '    @staticmethod\n    def last_newline(data: bytes) -> int:'),
        (M, '            data_end = del_index = self.last_newline(data[data_start:]) + data_start\n            # If',
            '            data_end = del_index = MultipartDecoder.last_newline(data[data_start:])\n            # If'),
    ]},
    {"name": 'conditional-clamp-window-forgets-boundary-length', "expect": 'R1.1', "edits": [
        (M, '                self._search_position = max(\n                    0, len(self.buffer) - len(self.boundary) - SEARCH_EXTRA_LENGTH\n                )\n',
            '                position = len(self.buffer) - SEARCH_EXTRA_LENGTH\n                self._search_position = position if position > 0 else 0\n'),
    ]},
]

TWINS += [
    {"name": 'drain-loop-continues-on-a-flag', "edits": [
        (F, '            event = parser.next_event()\n            while not isinstance(event, (Epilogue, NeedData)):\n',
            '            event = parser.next_event()\n            more = not isinstance(event, (Epilogue, NeedData))\n            while more:\n'),
        (F, '\n                event = parser.next_event()\n\n        return self.cls(fields), self.cls(files)',
            '\n                event = parser.next_event()\n                more = not isinstance(event, (Epilogue, NeedData))\n\n        return self.cls(fields), self.cls(files)'),
    ]},
    {"name": 'drain-loop-flag-set-from-two-isinstance-calls', "edits": [
        (F, '            event = parser.next_event()\n            while not isinstance(event, (Epilogue, NeedData)):\n',
            '            done = False\n            while not done:\n                event = parser.next_event()\n                done = isinstance(event, Epilogue) or isinstance(event, NeedData)\n'),
        (F, '\n                event = parser.next_event()\n\n        return self.cls(fields), self.cls(files)',
            '\n        return self.cls(fields), self.cls(files)'),
    ]},
    {"name": 'drain-test-in-a-predicate-helper', "edits": [
        (F, '            event = parser.next_event()\n            while not isinstance(event, (Epilogue, NeedData)):\n',
            '            event = parser.next_event()\n            while not _is_terminal(event):\n'),
        (F, 'def _chunk_iter(read: t.Callable[[int], bytes], size: int) -> t.Iterator[bytes | None]:',
            'def _is_terminal(event: Event) -> bool:\n    if isinstance(event, NeedData):\n        return True\n    return isinstance(event, Epilogue)\n\n\ndef _chunk_iter(read: t.Callable[[int], bytes], size: int) -> t.Iterator[bytes | None]:'),
    ]},
    {"name": 'drain-test-on-exact-type', "edits": [
        (F, '            event = parser.next_event()\n            while not isinstance(event, (Epilogue, NeedData)):\n',
            '            event = parser.next_event()\n            while type(event) not in (Epilogue, NeedData):\n'),
    ]},
    {"name": 'drain-test-against-the-need-data-constant', "edits": [
        (F, '            event = parser.next_event()\n            while not isinstance(event, (Epilogue, NeedData)):\n',
            '            event = parser.next_event()\n            while event is not NEED_DATA and not isinstance(event, Epilogue):\n'),
        (F, 'from .sansio.multipart import NeedData\n',
            'from .sansio.multipart import NEED_DATA\nfrom .sansio.multipart import NeedData\n'),
    ]},
    {"name": 'drain-loop-walrus-in-the-header', "edits": [
        (F, '            event = parser.next_event()\n            while not isinstance(event, (Epilogue, NeedData)):\n',
            '            while not isinstance(event := parser.next_event(), (Epilogue, NeedData)):\n'),
        (F, '\n                event = parser.next_event()\n\n        return self.cls(fields), self.cls(files)',
            '\n        return self.cls(fields), self.cls(files)'),
    ]},
    {"name": 'decoder-methods-cached-in-locals', "edits": [
        (F, '        for data in _chunk_iter(stream.read, self.buffer_size):\n            parser.receive_data(data)\n',
            '        feed = parser.receive_data\n        next_event = parser.next_event\n        for data in _chunk_iter(stream.read, self.buffer_size):\n            feed(data)\n'),
        (F, '            event = parser.next_event()\n            while not isinstance(event, (Epilogue, NeedData)):\n',
            '            event = next_event()\n            while not isinstance(event, (Epilogue, NeedData)):\n'),
        (F, '\n                event = parser.next_event()\n\n        return self.cls(fields), self.cls(files)',
            '\n                event = next_event()\n\n        return self.cls(fields), self.cls(files)'),
    ]},
    {"name": 'drain-loop-as-generator-helper', "edits": [
        (F, '            event = parser.next_event()\n            while not isinstance(event, (Epilogue, NeedData)):\n',
            '            for event in _events(parser):\n'),
        (F, '\n                event = parser.next_event()\n\n        return self.cls(fields), self.cls(files)',
            '\n        return self.cls(fields), self.cls(files)'),
        (F, 'def _chunk_iter(read: t.Callable[[int], bytes], size: int) -> t.Iterator[bytes | None]:',
            'def _events(decoder: MultipartDecoder) -> t.Iterator[Event]:\n    while True:\n        event = decoder.next_event()\n        if isinstance(event, (Epilogue, NeedData)):\n            return\n        yield event\n\n\ndef _chunk_iter(read: t.Callable[[int], bytes], size: int) -> t.Iterator[bytes | None]:'),
    ]},
    {"name": 'chunk-fed-through-a-helper', "edits": [
        (F, '            parser.receive_data(data)\n',
            '            self._feed(parser, data)\n'),
        (F, '    def parse(\n        self, stream: t.IO[bytes], boundary: bytes, content_length: int | None\n',
            '    def _feed(self, decoder: MultipartDecoder, chunk: bytes | None) -> None:\n        decoder.receive_data(chunk)\n\n    def parse(\n        self, stream: t.IO[bytes], boundary: bytes, content_length: int | None\n'),
    ]},
    {"name": 'chunk-generator-held-in-a-local', "edits": [
        (F, '        for data in _chunk_iter(stream.read, self.buffer_size):\n',
            '        chunks = _chunk_iter(stream.read, self.buffer_size)\n\n        for data in chunks:\n'),
    ]},
    {"name": 'decoder-also-kept-on-self', "edits": [
        (F, '        parser = MultipartDecoder(\n',
            '        self._decoder = parser = MultipartDecoder(\n'),
    ]},
    {"name": 'drain-loop-iter-with-sentinel', "edits": [
        (F, '            event = parser.next_event()\n            while not isinstance(event, (Epilogue, NeedData)):\n',
            '            for event in iter(parser.next_event, NEED_DATA):\n                if isinstance(event, Epilogue):\n                    break\n'),
        (F, '\n                event = parser.next_event()\n\n        return self.cls(fields), self.cls(files)',
            '\n        return self.cls(fields), self.cls(files)'),
        (F, 'from .sansio.multipart import NeedData\n',
            'from .sansio.multipart import NEED_DATA\nfrom .sansio.multipart import NeedData\n'),
    ]},
    {"name": 'next-event-through-a-module-helper', "edits": [
        (F, '            event = parser.next_event()\n            while not isinstance(event, (Epilogue, NeedData)):\n',
            '            event = _next(parser)\n            while not isinstance(event, (Epilogue, NeedData)):\n'),
        (F, '\n                event = parser.next_event()\n\n        return self.cls(fields), self.cls(files)',
            '\n                event = _next(parser)\n\n        return self.cls(fields), self.cls(files)'),
        (F, 'def _chunk_iter(read: t.Callable[[int], bytes], size: int) -> t.Iterator[bytes | None]:',
            'def _next(decoder: MultipartDecoder) -> Event:\n    return decoder.next_event()\n\n\ndef _chunk_iter(read: t.Callable[[int], bytes], size: int) -> t.Iterator[bytes | None]:'),
    ]},
    {"name": 'decoder-built-by-a-helper', "edits": [
        (F, '        parser = MultipartDecoder(\n            boundary,\n            max_form_memory_size=self.max_form_memory_size,\n            max_parts=self.max_form_parts,\n        )\n',
            '        parser = self._decoder_for(boundary)\n'),
        (F, '    def parse(\n        self, stream: t.IO[bytes], boundary: bytes, content_length: int | None\n',
            '    def _decoder_for(self, boundary: bytes) -> MultipartDecoder:\n        return MultipartDecoder(\n            boundary,\n            max_form_memory_size=self.max_form_memory_size,\n            max_parts=self.max_form_parts,\n        )\n\n    def parse(\n        self, stream: t.IO[bytes], boundary: bytes, content_length: int | None\n'),
    ]},
    {"name": 'chunk-reader-prime-and-refetch', "edits": [
        (F, '    while True:\n        data = read(size)\n\n        if not data:\n            break\n\n        yield data\n',
            '    data = read(size)\n\n    while data:\n        yield data\n        data = read(size)\n'),
    ]},
    {"name": 'chunk-reader-iter-with-empty-sentinel', "edits": [
        (F, '    while True:\n        data = read(size)\n\n        if not data:\n            break\n\n        yield data\n',
            '    for data in iter(lambda: read(size), b""):\n        yield data\n'),
    ]},
    {"name": 'chunk-reader-yield-from-partial', "edits": [
        (F, '    while True:\n        data = read(size)\n\n        if not data:\n            break\n\n        yield data\n',
            '    yield from iter(partial(read, size), b"")\n'),
        (F, 'import typing as t\n',
            'import typing as t\nfrom functools import partial\n'),
    ]},
    {"name": 'chunk-reader-if-else', "edits": [
        (F, '    while True:\n        data = read(size)\n\n        if not data:\n            break\n\n        yield data\n',
            '    while True:\n        data = read(size)\n\n        if data:\n            yield data\n        else:\n            break\n'),
    ]},
    {"name": 'chunk-reader-end-signal-before-return', "edits": [
        (F, '    while True:\n        data = read(size)\n\n        if not data:\n            break\n\n        yield data\n',
            '    while True:\n        data = read(size)\n\n        if len(data) < 1:\n            yield None\n            return\n\n        yield data\n'),
        (F, '        yield data\n\n    yield None\n',
            '        yield data\n'),
    ]},
    {"name": 'chunk-reader-eof-flag', "edits": [
        (F, '    while True:\n        data = read(size)\n\n        if not data:\n            break\n\n        yield data\n',
            '    eof = False\n\n    while not eof:\n        data = read(size)\n        eof = not data\n\n        if not eof:\n            yield data\n'),
    ]},
    {"name": 'chunk-reader-read-through-local-alias', "edits": [
        (F, '    while True:\n        data = read(size)\n\n        if not data:\n            break\n\n        yield data\n',
            '    fetch = read\n\n    while True:\n        data = fetch(size)\n\n        if data == b"":\n            break\n\n        yield data\n'),
    ]},
    {"name": 'state-tested-through-a-local-copy-and-flipped-sides', "edits": [
        (M, '        event: Event = NEED_DATA\n\n        if self.state == State.PREAMBLE:',
            '        event: Event = NEED_DATA\n        state = self.state\n\n        if state == State.PREAMBLE:'),
        (M, '        elif self.state == State.PART:',
            '        elif state == State.PART:'),
        (M, '        elif self.state == State.DATA_START:',
            '        elif state is State.DATA_START:'),
        (M, '        elif self.state == State.DATA:',
            '        elif State.DATA == state:'),
        (M, '        elif self.state == State.EPILOGUE and self.complete:',
            '        elif state == State.EPILOGUE and self.complete:'),
    ]},
    {"name": 'state-set-through-a-setter-helper', "edits": [
        (M, '                self.state = State.DATA_START\n',
            '                self._enter(State.DATA_START)\n'),
        (M, '                self.state = State.DATA\n',
            '                self._enter(State.DATA)\n'),
        (M, '            del self.buffer[:]\n            self.state = State.COMPLETE\n',
            '            del self.buffer[:]\n            self._enter(State.COMPLETE)\n'),
        (M, '                if match.group(1).startswith(b"--"):\n                    self.state = State.EPILOGUE\n                else:\n                    self.state = State.PART\n                data = bytes(self.buffer[: match.start()])',
            '                self._enter(State.EPILOGUE if match.group(1).startswith(b"--") else State.PART)\n                data = bytes(self.buffer[: match.start()])'),
        (M, '                if match.group(1).startswith(b"--"):\n                    self.state = State.EPILOGUE\n                else:\n                    self.state = State.PART\n                data_end = match.start()',
            '                self._enter(State.EPILOGUE if match.group(1).startswith(b"--") else State.PART)\n                data_end = match.start()'),
        (M, '    def _parse_headers(self, data: bytes) -> Headers:',
            '    def _enter(self, state: State) -> None:\n        self.state = state\n\n    def _parse_headers(self, data: bytes) -> Headers:'),
    ]},
    {"name": 'state-chosen-into-a-local-first', "edits": [
        (M, '                if match.group(1).startswith(b"--"):\n                    self.state = State.EPILOGUE\n                else:\n                    self.state = State.PART\n                data = bytes(self.buffer[: match.start()])',
            '                if match.group(1).startswith(b"--"):\n                    following = State.EPILOGUE\n                else:\n                    following = State.PART\n                self.state = following\n                data = bytes(self.buffer[: match.start()])'),
    ]},
    {"name": 'state-looked-up-in-a-tuple', "edits": [
        (M, '                if match.group(1).startswith(b"--"):\n                    self.state = State.EPILOGUE\n                else:\n                    self.state = State.PART\n                data = bytes(self.buffer[: match.start()])',
            '                closing = match.group(1).startswith(b"--")\n                self.state = (State.PART, State.EPILOGUE)[closing]\n                data = bytes(self.buffer[: match.start()])'),
    ]},
    {"name": 'state-returned-by-a-module-function', "edits": [
        (M, '                if match.group(1).startswith(b"--"):\n                    self.state = State.EPILOGUE\n                else:\n                    self.state = State.PART\n                data = bytes(self.buffer[: match.start()])',
            '                self.state = _after_boundary(match.group(1))\n                data = bytes(self.buffer[: match.start()])'),
        (M, 'class MultipartDecoder:\n',
            'def _after_boundary(tail: bytes) -> State:\n    return State.EPILOGUE if tail.startswith(b"--") else State.PART\n\n\nclass MultipartDecoder:\n'),
    ]},
    {"name": 'state-membership-tests', "edits": [
        (M, '        if self.state == State.PREAMBLE:\n            match = self.preamble_re',
            '        if self.state in {State.PREAMBLE}:\n            match = self.preamble_re'),
        (M, '        elif self.state == State.PART:',
            '        elif self.state not in (State.DATA_START, State.DATA, State.EPILOGUE, State.COMPLETE, State.PREAMBLE):'),
    ]},
    {"name": 'state-returned-by-a-static-helper-on-the-match', "edits": [
        (M, '                if match.group(1).startswith(b"--"):\n                    self.state = State.EPILOGUE\n                else:\n                    self.state = State.PART\n                data = bytes(self.buffer[: match.start()])',
            '                self.state = self._after_boundary(match)\n                data = bytes(self.buffer[: match.start()])'),
        (M, '                if match.group(1).startswith(b"--"):\n                    self.state = State.EPILOGUE\n                else:\n                    self.state = State.PART\n                data_end = match.start()',
            '                self.state = self._after_boundary(match)\n                data_end = match.start()'),
        (M, '    def _parse_headers(self, data: bytes) -> Headers:',
            '    @staticmethod\n    def _after_boundary(match: t.Match[bytes]) -> State:\n        if match.group(1).startswith(b"--"):\n            return State.EPILOGUE\n\n        return State.PART\n\n    def _parse_headers(self, data: bytes) -> Headers:'),
    ]},
    {"name": 'release-chosen-by-a-conditional-expression-on-a-flag', "edits": [
        (M, '            data_end = del_index = self.last_newline(data[data_start:]) + data_start\n            # If amount of data after last newline is far from\n            # possible length of partial boundary, we should\n            # assume that there is no partial boundary in the buffer\n            # and return all pending data.\n            if (len(data) - data_end) > len(b"\\n" + boundary):\n                data_end = del_index = len(data)\n',
            '            hold = self.last_newline(data[data_start:]) + data_start\n            far = (len(data) - hold) > len(b"\\n" + boundary)\n            data_end = del_index = len(data) if far else hold\n'),
    ]},
    {"name": 'release-chosen-by-a-conditional-expression', "edits": [
        (M, '            data_end = del_index = self.last_newline(data[data_start:]) + data_start\n            # If amount of data after last newline is far from\n            # possible length of partial boundary, we should\n            # assume that there is no partial boundary in the buffer\n            # and return all pending data.\n            if (len(data) - data_end) > len(b"\\n" + boundary):\n                data_end = del_index = len(data)\n',
            '            hold = self.last_newline(data[data_start:]) + data_start\n            data_end = del_index = len(data) if (len(data) - hold) > len(b"\\n" + boundary) else hold\n'),
    ]},
    {"name": 'presence-test-through-a-local', "edits": [
        (M, '        if self.buffer.find(boundary) == -1:',
            '        index = data.find(boundary)\n\n        if index < 0:'),
    ]},
    {"name": 'flush-test-flipped-with-pass-branch', "edits": [
        (M, '            if (len(data) - data_end) > len(b"\\n" + boundary):\n                data_end = del_index = len(data)\n',
            '            if len(b"\\n" + boundary) >= (len(data) - data_end):\n                pass\n            else:\n                data_end = del_index = len(data)\n'),
    ]},
    {"name": 'anchor-as-staticmethod-called-on-the-class', "edits": [
        (M, '    def last_newline(self, data: bytes) -> int:',
            '    @staticmethod\n    def last_newline(data: bytes) -> int:'),
        (M, '            data_end = del_index = self.last_newline(data[data_start:]) + data_start\n            # If',
            '            data_end = del_index = MultipartDecoder.last_newline(data[data_start:]) + data_start\n            # If'),
    ]},
    {"name": 'anchor-as-module-function', "edits": [
        (M, '    def last_newline(self, data: bytes) -> int:\n        try:\n            last_nl = data.rindex(b"\\n")\n        except ValueError:\n            last_nl = len(data)\n        try:\n            last_cr = data.rindex(b"\\r")\n        except ValueError:\n            last_cr = len(data)\n\n        return min(last_nl, last_cr)\n\n',
            ''),
        (M, 'class MultipartDecoder:\n',
            'def _last_newline(data: bytes) -> int:\n    try:\n        last_nl = data.rindex(b"\\n")\n    except ValueError:\n        last_nl = len(data)\n    try:\n        last_cr = data.rindex(b"\\r")\n    except ValueError:\n        last_cr = len(data)\n\n    return min(last_nl, last_cr)\n\n\nclass MultipartDecoder:\n'),
        (M, '            data_end = del_index = self.last_newline(data[data_start:]) + data_start\n            # If',
            '            data_end = del_index = _last_newline(data[data_start:]) + data_start\n            # If'),
        (M, '                data_end = del_index = self.last_newline(data[data_start:]) + data_start\n            more_data',
            '                data_end = del_index = _last_newline(data[data_start:]) + data_start\n            more_data'),
    ]},
    {"name": 'match-positions-by-tuple-assignment', "edits": [
        (M, '                data_end = match.start()\n                del_index = match.end()\n',
            '                data_end, del_index = match.start(), match.end()\n'),
    ]},
    {"name": 'match-positions-from-span', "edits": [
        (M, '                data_end = match.start()\n                del_index = match.end()\n',
            '                data_end, del_index = match.span()\n'),
    ]},
    {"name": 'window-clamped-by-a-conditional-expression', "edits": [
        (M, '                self._search_position = max(\n                    0, len(self.buffer) - len(self.boundary) - SEARCH_EXTRA_LENGTH\n                )\n',
            '                position = len(self.buffer) - len(self.boundary) - SEARCH_EXTRA_LENGTH\n                self._search_position = position if position > 0 else 0\n'),
    ]},
    {"name": 'window-clamped-by-a-flipped-conditional-expression', "edits": [
        (M, '                self._search_position = max(\n                    0, len(self.buffer) - len(self.boundary) - SEARCH_EXTRA_LENGTH\n                )\n',
            '                position = len(self.buffer) - len(self.boundary) - SEARCH_EXTRA_LENGTH\n                self._search_position = 0 if position < 0 else position\n'),
    ]},
    {"name": 'buffer-read-through-a-local-copy-of-the-reference', "edits": [
        (M, '        event: Event = NEED_DATA\n\n        if self.state == State.PREAMBLE:\n            match = self.preamble_re.search(self.buffer, self._search_position)\n',
            '        event: Event = NEED_DATA\n        buffer = self.buffer\n\n        if self.state == State.PREAMBLE:\n            match = self.preamble_re.search(buffer, self._search_position)\n'),
        (M, '                data = bytes(self.buffer[: match.start()])\n                del self.buffer[: match.end()]\n',
            '                data = bytes(buffer[: match.start()])\n                del buffer[: match.end()]\n'),
        (M, '                    0, len(self.buffer) - len(self.boundary) - SEARCH_EXTRA_LENGTH\n',
            '                    0, len(buffer) - len(self.boundary) - SEARCH_EXTRA_LENGTH\n'),
        (M, '            match = BLANK_LINE_RE.search(self.buffer, self._search_position)\n',
            '            match = BLANK_LINE_RE.search(buffer, self._search_position)\n'),
        (M, '                headers = self._parse_headers(self.buffer[: match.start()])',
            '                headers = self._parse_headers(buffer[: match.start()])'),
        (M, '                del self.buffer[:headers_end]\n',
            '                del buffer[:headers_end]\n'),
        (M, '                self._search_position = max(0, len(self.buffer) - SEARCH_EXTRA_LENGTH)\n',
            '                self._search_position = max(0, len(buffer) - SEARCH_EXTRA_LENGTH)\n'),
        (M, '            data, del_index, more_data = self._parse_data(self.buffer, start=True)\n            del self.buffer[:del_index]\n',
            '            data, del_index, more_data = self._parse_data(buffer, start=True)\n            del buffer[:del_index]\n'),
        (M, '            data, del_index, more_data = self._parse_data(self.buffer, start=False)\n            del self.buffer[:del_index]\n',
            '            data, del_index, more_data = self._parse_data(buffer, start=False)\n            del buffer[:del_index]\n'),
        (M, '            event = Epilogue(data=bytes(self.buffer))\n            del self.buffer[:]\n',
            '            event = Epilogue(data=bytes(buffer))\n            del buffer[:]\n'),
    ]},
    {"name": 'offset-read-through-a-local-copy', "edits": [
        (M, '        event: Event = NEED_DATA\n\n        if self.state == State.PREAMBLE:\n            match = self.preamble_re.search(self.buffer, self._search_position)\n',
            '        event: Event = NEED_DATA\n        position = self._search_position\n\n        if self.state == State.PREAMBLE:\n            match = self.preamble_re.search(self.buffer, position)\n'),
        (M, '            match = BLANK_LINE_RE.search(self.buffer, self._search_position)\n',
            '            match = BLANK_LINE_RE.search(self.buffer, position)\n'),
    ]},
]

# ---------------------------------------------------------------------------
# round 2 (continued): values hoisted into __init__, anchor written with a loop / comprehension, nested function

MUTANTS += [
    {"name": 'hoisted-search-tail-too-short', "expect": 'R1.1', "edits": [
        (M, '        self._search_position = 0\n        self._parts_decoded = 0\n',
            '        self._search_position = 0\n        self._parts_decoded = 0\n        self._preamble_tail = len(boundary) + 2\n'),
        (M, '                self._search_position = max(\n                    0, len(self.buffer) - len(self.boundary) - SEARCH_EXTRA_LENGTH\n                )\n',
            '                self._search_position = max(0, len(self.buffer) - self._preamble_tail)\n'),
    ]},
    {"name": 'hoisted-delimiter-threshold-without-line-break', "expect": 'R1.4', "edits": [
        (M, '        self._search_position = 0\n        self._parts_decoded = 0\n',
            '        self._search_position = 0\n        self._parts_decoded = 0\n        self._delimiter = b"--" + boundary\n'),
        (M, '        boundary = b"--" + self.boundary\n\n        if self.buffer.find(boundary) == -1:',
            '        if self.buffer.find(self._delimiter) == -1:'),
        (M, '            if (len(data) - data_end) > len(b"\\n" + boundary):',
            '            if (len(data) - data_end) > len(self._delimiter):'),
    ]},
    {"name": 'anchor-loop-shape-flush-in-lookalike-branch', "expect": 'R1.5', "edits": [
        (M, '            else:\n                data_end = del_index = self.last_newline(data[data_start:]) + data_start\n            more_data = match is None\n',
            '            else:\n                data_end = del_index = self.last_newline(data[data_start:]) + data_start\n                if (len(data) - data_end) > len(b"\\r\\n" + boundary + b"--"):\n                    data_end = del_index = len(data)\n            more_data = match is None\n'),
        (M, '        try:\n            last_nl = data.rindex(b"\\n")\n        except ValueError:\n            last_nl = len(data)\n        try:\n            last_cr = data.rindex(b"\\r")\n        except ValueError:\n            last_cr = len(data)\n\n        return min(last_nl, last_cr)\n',
            '        positions = []\n\n        for line_break in (b"\\n", b"\\r"):\n            try:\n                positions.append(data.rindex(line_break))\n            except ValueError:\n                positions.append(len(data))\n\n        return min(positions)\n'),
    ]},
    {"name": 'nested-fetch-one-event-per-chunk', "expect": 'R1.3', "edits": [
        (F, '            while not isinstance(event, (Epilogue, NeedData)):\n',
            '            if not isinstance(event, (Epilogue, NeedData)):\n'),
        (F, '        for data in _chunk_iter(stream.read, self.buffer_size):\n            parser.receive_data(data)\n            event = parser.next_event()\n',
            '        def fetch() -> Event:\n            return parser.next_event()\n\n        for data in _chunk_iter(stream.read, self.buffer_size):\n            parser.receive_data(data)\n            event = fetch()\n'),
        (F, '\n                event = parser.next_event()\n\n        return self.cls(fields), self.cls(files)',
            '\n                event = fetch()\n\n        return self.cls(fields), self.cls(files)'),
    ]},
]

TWINS += [
    {"name": 'search-tail-length-computed-once-in-init', "edits": [
        (M, '        self._search_position = 0\n        self._parts_decoded = 0\n',
            '        self._search_position = 0\n        self._parts_decoded = 0\n        self._preamble_tail = len(boundary) + SEARCH_EXTRA_LENGTH\n'),
        (M, '                self._search_position = max(\n                    0, len(self.buffer) - len(self.boundary) - SEARCH_EXTRA_LENGTH\n                )\n',
            '                self._search_position = max(0, len(self.buffer) - self._preamble_tail)\n'),
    ]},
    {"name": 'delimiter-text-computed-once-in-init', "edits": [
        (M, '        self._search_position = 0\n        self._parts_decoded = 0\n',
            '        self._search_position = 0\n        self._parts_decoded = 0\n        self._delimiter = b"--" + boundary\n'),
        (M, '        boundary = b"--" + self.boundary\n\n        if self.buffer.find(boundary) == -1:',
            '        if self.buffer.find(self._delimiter) == -1:'),
        (M, '            if (len(data) - data_end) > len(b"\\n" + boundary):',
            '            if (len(data) - data_end) > len(self._delimiter) + 1:'),
    ]},
    {"name": 'anchor-loop-over-the-line-break-bytes', "edits": [
        (M, '        try:\n            last_nl = data.rindex(b"\\n")\n        except ValueError:\n            last_nl = len(data)\n        try:\n            last_cr = data.rindex(b"\\r")\n        except ValueError:\n            last_cr = len(data)\n\n        return min(last_nl, last_cr)\n',
            '        positions = []\n\n        for line_break in (b"\\n", b"\\r"):\n            try:\n                positions.append(data.rindex(line_break))\n            except ValueError:\n                positions.append(len(data))\n\n        return min(positions)\n'),
    ]},
    {"name": 'anchor-min-over-a-generator-expression', "edits": [
        (M, '        try:\n            last_nl = data.rindex(b"\\n")\n        except ValueError:\n            last_nl = len(data)\n        try:\n            last_cr = data.rindex(b"\\r")\n        except ValueError:\n            last_cr = len(data)\n\n        return min(last_nl, last_cr)\n',
            '        return min(\n            data.rindex(c) if c in data else len(data) for c in (b"\\n", b"\\r")\n        )\n'),
    ]},
    {"name": 'anchor-running-minimum-in-a-loop', "edits": [
        (M, '        try:\n            last_nl = data.rindex(b"\\n")\n        except ValueError:\n            last_nl = len(data)\n        try:\n            last_cr = data.rindex(b"\\r")\n        except ValueError:\n            last_cr = len(data)\n\n        return min(last_nl, last_cr)\n',
            '        last = len(data)\n\n        for line_break in (b"\\n", b"\\r"):\n            index = data.rfind(line_break)\n\n            if index != -1 and index < last:\n                last = index\n\n        return last\n'),
    ]},
    {"name": 'next-event-through-a-nested-function', "edits": [
        (F, '        for data in _chunk_iter(stream.read, self.buffer_size):\n            parser.receive_data(data)\n            event = parser.next_event()\n',
            '        def fetch() -> Event:\n            return parser.next_event()\n\n        for data in _chunk_iter(stream.read, self.buffer_size):\n            parser.receive_data(data)\n            event = fetch()\n'),
        (F, '\n                event = parser.next_event()\n\n        return self.cls(fields), self.cls(files)',
            '\n                event = fetch()\n\n        return self.cls(fields), self.cls(files)'),
    ]},
]

# ---------------------------------------------------------------------------
# round 2 (continued): one-expression helpers read at the call site; next_event split into per-state helpers

MUTANTS += [
    {"name": 'hold-back-helper-forgets-the-offset', "expect": 'R1.7', "edits": [
        (M, '            data_end = del_index = self.last_newline(data[data_start:]) + data_start\n            # If',
            '            data_end = del_index = self._hold_back(data, data_start)\n            # If'),
        (M, '                data_end = del_index = self.last_newline(data[data_start:]) + data_start\n            more_data',
            '                data_end = del_index = self._hold_back(data, data_start)\n            more_data'),
        (M, '    def receive_data(self, data: bytes | None) -> None:',
            '    def _hold_back(self, data: bytes, start: int) -> int:\n        """Position of a possible partial boundary at the end of the data."""\n        return self.last_newline(data[start:])\n\n    def receive_data(self, data: bytes | None) -> None:'),
    ]},
    {"name": 'flush-test-helper-without-line-break', "expect": 'R1.4', "edits": [
        (M, '            if (len(data) - data_end) > len(b"\\n" + boundary):\n',
            '            if self._far_from_end(data, data_end, boundary):\n'),
        (M, '    def receive_data(self, data: bytes | None) -> None:',
            '    @staticmethod\n    def _far_from_end(data: bytes, position: int, delimiter: bytes) -> bool:\n        return (len(data) - position) > len(delimiter)\n\n    def receive_data(self, data: bytes | None) -> None:'),
    ]},
]

TWINS += [
    {"name": 'hold-back-position-in-a-one-expression-helper', "edits": [
        (M, '            data_end = del_index = self.last_newline(data[data_start:]) + data_start\n            # If',
            '            data_end = del_index = self._hold_back(data, data_start)\n            # If'),
        (M, '                data_end = del_index = self.last_newline(data[data_start:]) + data_start\n            more_data',
            '                data_end = del_index = self._hold_back(data, data_start)\n            more_data'),
        (M, '    def receive_data(self, data: bytes | None) -> None:',
            '    def _hold_back(self, data: bytes, start: int) -> int:\n        """Position of a possible partial boundary at the end of the data."""\n        return start + self.last_newline(data[start:])\n\n    def receive_data(self, data: bytes | None) -> None:'),
    ]},
    {"name": 'flush-test-in-a-one-expression-helper', "edits": [
        (M, '            if (len(data) - data_end) > len(b"\\n" + boundary):\n',
            '            if self._far_from_end(data, data_end, boundary):\n'),
        (M, '    def receive_data(self, data: bytes | None) -> None:',
            '    @staticmethod\n    def _far_from_end(data: bytes, position: int, delimiter: bytes) -> bool:\n        return (len(data) - position) > len(b"\\n" + delimiter)\n\n    def receive_data(self, data: bytes | None) -> None:'),
    ]},
    {"name": 'next-event-split-into-per-state-helpers', "edits": [
        (M, '    def next_event(self) -> Event:\n        event: Event = NEED_DATA\n\n        if self.state == State.PREAMBLE:\n            match = self.preamble_re.search(self.buffer, self._search_position)\n            if match is not None:\n                if match.group(1).startswith(b"--"):\n                    self.state = State.EPILOGUE\n                else:\n                    self.state = State.PART\n                data = bytes(self.buffer[: match.start()])\n                del self.buffer[: match.end()]\n                event = Preamble(data=data)\n                self._search_position = 0\n            else:\n                # Update the search start position to be equal to the\n                # current buffer length (already searched) minus a\n                # safe buffer for part of the search target.\n                self._search_position = max(\n                    0, len(self.buffer) - len(self.boundary) - SEARCH_EXTRA_LENGTH\n                )\n\n        elif self.state == State.PART:\n            match = BLANK_LINE_RE.search(self.buffer, self._search_position)\n            if match is not None:\n                headers = self._parse_headers(self.buffer[: match.start()])\n                # The final header ends with a single CRLF, however a\n                # blank line indicates the start of the\n                # body. Therefore the end is after the first CRLF.\n                headers_end = (match.start() + match.end()) // 2\n                del self.buffer[:headers_end]\n\n                if "content-disposition" not in headers:\n                    raise ValueError("Missing Content-Disposition header")\n\n                disposition, extra = parse_options_header(\n                    headers["content-disposition"]\n                )\n                name = t.cast(str, extra.get("name"))\n                filename = extra.get("filename")\n                if filename is not None:\n                    event = File(\n                        filename=filename,\n                        headers=headers,\n                        name=name,\n                    )\n                else:\n                    event = Field(\n                        headers=headers,\n                        name=name,\n                    )\n                self.state = State.DATA_START\n                self._search_position = 0\n                self._parts_decoded += 1\n\n                if self.max_parts is not None and self._parts_decoded > self.max_parts:\n                    raise RequestEntityTooLarge()\n            else:\n                # Update the search start position to be equal to the\n                # current buffer length (already searched) minus a\n                # safe buffer for part of the search target.\n                self._search_position = max(0, len(self.buffer) - SEARCH_EXTRA_LENGTH)\n\n        elif self.state == State.DATA_START:\n            data, del_index, more_data = self._parse_data(self.buffer, start=True)\n            del self.buffer[:del_index]\n            event = Data(data=data, more_data=more_data)\n            if more_data:\n                self.state = State.DATA\n\n        elif self.state == State.DATA:\n            data, del_index, more_data = self._parse_data(self.buffer, start=False)\n            del self.buffer[:del_index]\n            if data or not more_data:\n                event = Data(data=data, more_data=more_data)\n\n        elif self.state == State.EPILOGUE and self.complete:\n            event = Epilogue(data=bytes(self.buffer))\n            del self.buffer[:]\n            self.state = State.COMPLETE\n\n        if self.complete and isinstance(event, NeedData):\n            raise ValueError(f"Invalid form-data cannot parse beyond {self.state}")\n\n        return event\n\n',
            '    def next_event(self) -> Event:\n        state = self.state\n\n        if state is State.PREAMBLE:\n            event = self._preamble_event()\n        elif state is State.PART:\n            event = self._part_event()\n        elif state in (State.DATA_START, State.DATA):\n            event = self._data_event(first=state is State.DATA_START)\n        elif state is State.EPILOGUE and self.complete:\n            event = Epilogue(data=bytes(self.buffer))\n            self.buffer.clear()\n            self.state = State.COMPLETE\n        else:\n            event = NEED_DATA\n\n        if self.complete and isinstance(event, NeedData):\n            raise ValueError(f"Invalid form-data cannot parse beyond {self.state}")\n\n        return event\n\n    def _remember_searched(self, tail: int) -> Event:\n        # Everything but the last ``tail`` bytes has been searched already.\n        self._search_position = max(len(self.buffer) - tail, 0)\n        return NEED_DATA\n\n    def _preamble_event(self) -> Event:\n        found = self.preamble_re.search(self.buffer, self._search_position)\n\n        if found is None:\n            return self._remember_searched(len(self.boundary) + SEARCH_EXTRA_LENGTH)\n\n        self._search_position = 0\n        self.state = State.EPILOGUE if found.group(1).startswith(b"--") else State.PART\n        preamble = bytes(self.buffer[: found.start()])\n        del self.buffer[: found.end()]\n        return Preamble(data=preamble)\n\n    def _part_event(self) -> Event:\n        found = BLANK_LINE_RE.search(self.buffer, self._search_position)\n\n        if found is None:\n            return self._remember_searched(SEARCH_EXTRA_LENGTH)\n\n        headers = self._parse_headers(self.buffer[: found.start()])\n        # The final header ends with a single CRLF, however a\n        # blank line indicates the start of the\n        # body. Therefore the end is after the first CRLF.\n        del self.buffer[: (found.start() + found.end()) // 2]\n        self._search_position = 0\n\n        if "content-disposition" not in headers:\n            raise ValueError("Missing Content-Disposition header")\n\n        _, extra = parse_options_header(headers["content-disposition"])\n        name = t.cast(str, extra.get("name"))\n        filename = extra.get("filename")\n        self.state = State.DATA_START\n        self._parts_decoded += 1\n\n        if self.max_parts is not None and self._parts_decoded > self.max_parts:\n            raise RequestEntityTooLarge()\n\n        if filename is None:\n            return Field(headers=headers, name=name)\n\n        return File(filename=filename, headers=headers, name=name)\n\n    def _data_event(self, *, first: bool) -> Event:\n        payload, consumed, more_data = self._parse_data(self.buffer, start=first)\n        del self.buffer[:consumed]\n\n        if first and more_data:\n            self.state = State.DATA\n\n        if first or payload or not more_data:\n            return Data(data=payload, more_data=more_data)\n\n        return NEED_DATA\n\n'),
    ]},
]

# ---------------------------------------------------------------------------
# round 2 (continued): classes / states named by constants

MUTANTS += [
    {"name": 'terminal-classes-constant-includes-data', "expect": 'R1.3', "edits": [
        (F, '            event = parser.next_event()\n            while not isinstance(event, (Epilogue, NeedData)):\n',
            '            event = parser.next_event()\n            while not isinstance(event, _TERMINAL_EVENTS):\n'),
        (F, 'class FormDataParser:\n',
            '_TERMINAL_EVENTS = (Epilogue, NeedData, Data)\n\n\nclass FormDataParser:\n'),
    ]},
]

TWINS += [
    {"name": 'terminal-event-classes-named-by-a-module-constant', "edits": [
        (F, '            event = parser.next_event()\n            while not isinstance(event, (Epilogue, NeedData)):\n',
            '            event = parser.next_event()\n            while not isinstance(event, _TERMINAL_EVENTS):\n'),
        (F, 'class FormDataParser:\n',
            '_TERMINAL_EVENTS = (Epilogue, NeedData)\n\n\nclass FormDataParser:\n'),
    ]},
    {"name": 'drain-test-on-a-union-type', "edits": [
        (F, '            event = parser.next_event()\n            while not isinstance(event, (Epilogue, NeedData)):\n',
            '            event = parser.next_event()\n            while not isinstance(event, Epilogue | NeedData):\n'),
    ]},
    {"name": 'state-set-named-by-a-module-constant', "edits": [
        (M, '        elif self.state == State.PART:',
            '        elif self.state in _HEADER_STATES:'),
        (M, 'class MultipartDecoder:\n',
            '_HEADER_STATES = frozenset({State.PART})\n\n\nclass MultipartDecoder:\n'),
    ]},
    {"name": 'state-set-named-by-a-class-constant', "edits": [
        (M, '        elif self.state == State.PART:',
            '        elif self.state in self._HEADER_STATES:'),
        (M, '    def last_newline(self, data: bytes) -> int:',
            '    _HEADER_STATES = (State.PART,)\n\n    def last_newline(self, data: bytes) -> int:'),
    ]},
]

# ---------------------------------------------------------------------------
# round 4: R1.8 (the opening line break of a part body is consumed exactly once) and R1.9 (payloads are collected as
# received and joined with nothing in between)

_DS_BRANCH = '''        elif self.state == State.DATA_START:
            data, del_index, more_data = self._parse_data(self.buffer, start=True)
            del self.buffer[:del_index]
            event = Data(data=data, more_data=more_data)
            if more_data:
                self.state = State.DATA
'''
_D_BRANCH = '''
        elif self.state == State.DATA:
            data, del_index, more_data = self._parse_data(self.buffer, start=False)
            del self.buffer[:del_index]
            if data or not more_data:
                event = Data(data=data, more_data=more_data)
'''
_DS_TAIL = '''            event = Data(data=data, more_data=more_data)
            if more_data:
                self.state = State.DATA

        elif self.state == State.DATA:'''
_MERGED = '''        elif self.state in (State.DATA_START, State.DATA):
            first = self.state is State.DATA_START
            data, del_index, more_data = self._parse_data(self.buffer, start=first)
            del self.buffer[:del_index]
            if first:
                event = Data(data=data, more_data=more_data)
                if %s:
                    self.state = State.DATA
            elif data or not more_data:
                event = Data(data=data, more_data=more_data)
'''
_FIRST_CHUNK_CALL = '''        elif self.state == State.DATA_START:
            event = self._first_chunk()
'''
_FIRST_CHUNK_METHOD = '''    def _enter(self, state: State) -> None:
        self.state = state

    def _first_chunk(self) -> Event:
        payload, used, unfinished = self._parse_data(self.buffer, start=True)
        del self.buffer[:used]
        if %s:
            self._enter(State.DATA)
        return Data(data=payload, more_data=unfinished)

    def _parse_headers(self, data: bytes) -> Headers:'''
_WRITE_AND_JOIN = '''                    _write(event.data)
                    if not event.more_data:
                        if isinstance(current_part, Field):
                            value = b"".join(container).decode(
                                self.get_part_charset(current_part.headers), "replace"
                            )
'''
_JOIN = '''                            value = b"".join(container).decode(
                                self.get_part_charset(current_part.headers), "replace"
                            )
'''

MUTANTS += [
    {"name": 'first-chunk-leaves-the-start-state-only-with-payload', "expect": 'R1.8', "edits": [
        (M, _DS_TAIL, _DS_TAIL.replace("            if more_data:\n", "            if more_data and data:\n")),
    ]},
    {"name": 'empty-first-event-suppressed-by-an-early-return', "expect": 'R1.8', "edits": [
        (M, _DS_TAIL, "            if more_data and not data:\n                return NEED_DATA\n" + _DS_TAIL),
    ]},
    {"name": 'line-break-kept-in-the-buffer-but-state-moves-on', "expect": 'R1.8', "edits": [
        (M, _DS_BRANCH, _DS_BRANCH.replace("            del self.buffer[:del_index]\n", "            if data or not more_data:\n                del self.buffer[:del_index]\n")),
    ]},
    {"name": 'merged-data-branch-leaves-the-start-state-only-with-payload', "expect": 'R1.8', "edits": [
        (M, _DS_BRANCH + _D_BRANCH, _MERGED % "more_data and data"),
    ]},
    {"name": 'first-chunk-helper-enters-data-only-with-payload', "expect": 'R1.8', "edits": [
        (M, _DS_BRANCH, _FIRST_CHUNK_CALL),
        (M, "    def _parse_headers(self, data: bytes) -> Headers:", _FIRST_CHUNK_METHOD % "unfinished and len(payload) > 0"),
    ]},
    {"name": 'transition-read-back-from-the-event-and-its-payload', "expect": 'R1.8', "edits": [
        (M, _DS_TAIL, _DS_TAIL.replace("            if more_data:\n", "            if event.more_data and event.data:\n")),
    ]},
    {"name": 'field-pieces-decoded-as-they-arrive', "expect": 'R1.9', "edits": [
        (F, _WRITE_AND_JOIN, '''                    if isinstance(current_part, Field):
                        text = event.data.decode(
                            self.get_part_charset(current_part.headers), "replace"
                        )
                        _write(text)
                    else:
                        _write(event.data)
                    if not event.more_data:
                        if isinstance(current_part, Field):
                            value = "".join(container)
'''),
    ]},
    {"name": 'line-ends-normalised-piece-by-piece', "expect": 'R1.9', "edits": [
        (F, "                    _write(event.data)\n", '                    _write(event.data.replace(b"\\r\\n", b"\\n") if field_size is not None else event.data)\n'),
    ]},
    {"name": 'pieces-decoded-one-by-one-when-joined', "expect": 'R1.9', "edits": [
        (F, _JOIN, '''                            charset = self.get_part_charset(current_part.headers)
                            value = "".join(
                                piece.decode(charset, "replace") for piece in container
                            )
'''),
    ]},
    {"name": 'pieces-joined-with-a-separator', "expect": 'R1.9', "edits": [
        (F, '                            value = b"".join(container).decode(', '                            value = b" ".join(container).decode('),
    ]},
    {"name": 'field-text-grown-piece-by-piece', "expect": 'R1.9', "edits": [
        (F, "                    container = []\n", "                    container = []\n                    text = \"\"\n"),
        (F, "                    _write(event.data)\n", "                    _write(event.data)\n                    if isinstance(current_part, Field):\n                        text += event.data.decode(\n                            self.get_part_charset(current_part.headers), \"replace\"\n                        )\n"),
        (F, _JOIN, "                            value = text\n"),
    ]},
    {"name": 'collect-helper-strips-each-piece', "expect": 'R1.9', "edits": [
        (F, "                    _write(event.data)\n", "                    self._collect(_write, event.data)\n"),
        (F, "    def fail(self, message: str) -> te.NoReturn:", "    def _collect(self, put: t.Callable[[bytes], t.Any], piece: bytes) -> None:\n        put(piece.rstrip(b\"\\r\\n\"))\n\n    def fail(self, message: str) -> te.NoReturn:"),
    ]},
]

TWINS += [
    {"name": 'data-branches-merged-on-a-first-flag', "edits": [
        (M, _DS_BRANCH + _D_BRANCH, _MERGED % "more_data"),
    ]},
    {"name": 'nothing-consumed-while-nothing-to-emit', "edits": [
        (M, _DS_BRANCH, '''        elif self.state == State.DATA_START:
            data, del_index, more_data = self._parse_data(self.buffer, start=True)
            if data or not more_data:
                del self.buffer[:del_index]
                event = Data(data=data, more_data=more_data)
                if more_data:
                    self.state = State.DATA
'''),
    ]},
    {"name": 'first-chunk-in-a-helper-with-a-state-setter', "edits": [
        (M, _DS_BRANCH, _FIRST_CHUNK_CALL),
        (M, "    def _parse_headers(self, data: bytes) -> Headers:", _FIRST_CHUNK_METHOD % "unfinished"),
    ]},
    {"name": 'finished-part-returns-early-before-the-transition', "edits": [
        (M, _DS_TAIL, '''            event = Data(data=data, more_data=more_data)
            if not more_data:
                return event
            self.state = State.DATA

        elif self.state == State.DATA:'''),
    ]},
    {"name": 'transition-on-a-flag-spelled-with-bool-and-is-true', "edits": [
        (M, _DS_TAIL, _DS_TAIL.replace("            if more_data:\n", "            unfinished = bool(more_data)\n            if unfinished is True:\n")),
    ]},
    {"name": 'splitter-result-kept-as-a-tuple', "edits": [
        (M, _DS_BRANCH, '''        elif self.state == State.DATA_START:
            split = self._parse_data(self.buffer, start=True)
            del self.buffer[: split[1]]
            event = Data(data=split[0], more_data=split[2])
            if split[2]:
                self.state = State.DATA
'''),
    ]},
    {"name": 'transition-read-back-from-the-event', "edits": [
        (M, _DS_TAIL, _DS_TAIL.replace("            if more_data:\n", "            if event.more_data:\n")),
    ]},
    {"name": 'payload-through-a-local-and-a-bytes-copy', "edits": [
        (F, "                        field_size += len(event.data)\n", "                        field_size += len(bytes(event.data))\n"),
        (F, "                    _write(event.data)\n", "                    piece = event.data\n                    _write(bytes(piece))\n"),
    ]},
    {"name": 'collected-by-the-container-method-per-kind', "edits": [
        (F, "                    _write(event.data)\n", "                    if isinstance(current_part, Field):\n                        t.cast(\"list[bytes]\", container).append(event.data)\n                    else:\n                        t.cast(t.IO[bytes], container).write(event.data)\n"),
    ]},
    {"name": 'pieces-joined-through-a-generator-and-a-named-empty-separator', "edits": [
        (F, '                            value = b"".join(container).decode(', '                            value = _NOTHING.join(bytes(piece) for piece in container).decode('),
        (F, "class MultiPartParser:\n", "_NOTHING = b\"\"\n\n\nclass MultiPartParser:\n"),
    ]},
    {"name": 'collected-through-a-helper-that-appends', "edits": [
        (F, "                    _write(event.data)\n", "                    self._collect(_write, event.data)\n"),
        (F, "    def fail(self, message: str) -> te.NoReturn:", "    def _collect(self, put: t.Callable[[bytes], t.Any], piece: bytes) -> None:\n        put(piece)\n\n    def fail(self, message: str) -> te.NoReturn:"),
    ]},
    {"name": 'data-event-handled-in-a-helper-given-the-event', "edits": [
        (F, "                    _write(event.data)\n", "                    self._take(_write, event)\n"),
        (F, "    def fail(self, message: str) -> te.NoReturn:", "    def _take(self, put: t.Callable[[bytes], t.Any], ev: Data) -> None:\n        put(ev.data)\n\n    def fail(self, message: str) -> te.NoReturn:"),
    ]},
]

# ---------------------------------------------------------------------------------------------------------------------
# round 3: the delimiter search hoisted in front of the branch (its result is None when the boundary text is absent), one
# hold-back computation reached in both states of the buffer

_HOISTED = '''        boundary = b"--" + self.boundary
        seen = self.buffer.find(boundary) >= 0
        found = self.boundary_re.search(data) if seen else None
        if found is not None:
            self.state = State.EPILOGUE if found.group(1).startswith(b"--") else State.PART
            return bytes(data[data_start : found.start()]), found.end(), False
        hold = self.last_newline(data[data_start:]) + data_start
        if %s:
            hold = len(data)
        return bytes(data[data_start:hold]), hold, True


'''
_NONE_DEFAULT = '''        boundary = b"--" + self.boundary
        match = None
        if self.buffer.find(boundary) != -1:
            match = self.boundary_re.search(data)

        if match is None:
            data_end = del_index = %s
            if boundary not in self.buffer and (len(data) - data_end) > len(b"\\n" + boundary):
                data_end = del_index = len(data)
            more_data = True
        else:
            if match.group(1).startswith(b"--"):
                self.state = State.EPILOGUE
            else:
                self.state = State.PART
            data_end, del_index = match.span()
            more_data = False

        return bytes(data[data_start:data_end]), del_index, more_data


'''
_WALRUS_HOIST = '''        boundary = b"--" + self.boundary
        absent = boundary not in self.buffer

        if (match := None if absent else self.boundary_re.search(data)) is not None:
            self.state = State.EPILOGUE if match.group(1).startswith(b"--") else State.PART
            data_end = match.start()
            del_index = match.end()
        else:
            data_end = del_index = self.last_newline(data[data_start:]) + data_start
            if absent and %s:
                data_end = del_index = len(data)

        return bytes(data[data_start:data_end]), del_index, match is None


'''

TWINS += [
    {"name": 'search-hoisted-conditional-expression-early-return-one-hold-back', "edits": [
        (M, _SPLIT_TAIL, _HOISTED % "not seen and len(data) - hold > len(boundary) + 1"),
    ]},
    {"name": 'search-result-defaults-to-none-and-is-overwritten-when-the-boundary-is-there', "edits": [
        (M, _SPLIT_TAIL, _NONE_DEFAULT % "self.last_newline(data[data_start:]) + data_start"),
    ]},
    {"name": 'search-hoisted-into-a-walrus-test-on-an-absent-flag', "edits": [
        (M, _SPLIT_TAIL, _WALRUS_HOIST % "(len(data) - data_end) > len(boundary) + 1"),
    ]},
]

MUTANTS += [
    {"name": 'hoisted-search-early-release-also-when-the-boundary-text-is-there', "expect": 'R1.4', "edits": [
        (M, _SPLIT_TAIL, _HOISTED % "len(data) - hold > len(boundary) + 1"),
    ]},
    {"name": 'hoisted-search-threshold-without-line-break', "expect": 'R1.4', "edits": [
        (M, _SPLIT_TAIL, _HOISTED % "not seen and len(data) - hold > len(boundary)"),
    ]},
    {"name": 'none-default-shape-hold-back-offset-forgotten', "expect": 'R1.7', "edits": [
        (M, _SPLIT_TAIL, _NONE_DEFAULT % "self.last_newline(data[data_start:])"),
    ]},
    {"name": 'walrus-hoist-threshold-inclusive', "expect": 'R1.4', "edits": [
        (M, _SPLIT_TAIL, _WALRUS_HOIST % "(len(data) - data_end) >= len(boundary) + 1"),
    ]},
]

_HOIST_HEAD = '        boundary = b"--" + self.boundary\n'
_COUNT_SHAPE = _HOIST_HEAD + '''        seen = self.buffer.count(boundary) %s
        match = self.boundary_re.search(data) if seen else None
        if match is None:
            data_end = del_index = self.last_newline(data[data_start:]) + data_start
            if not seen and (len(data) - data_end) > %s:
                data_end = del_index = len(data)
        else:
            self.state = State.EPILOGUE if match.group(1).startswith(b"--") else State.PART
            data_end = match.start()
            del_index = match.end()
        return bytes(data[data_start:data_end]), del_index, match is None


'''
_RESULT_LOCAL_SHAPE = _HOIST_HEAD + '''        seen = boundary in self.buffer
        match = self.boundary_re.search(data) if seen else None
        if not match:
            data_end = del_index = %s
            if not seen and (len(data) - data_end) > len(boundary) + 1:
                data_end = del_index = len(data)
        else:
            self.state = State.EPILOGUE if match.group(1).startswith(b"--") else State.PART
            data_end = match.start()
            del_index = match.end()
        result = (bytes(data[data_start:data_end]), del_index, not match)
        return result


'''
_HELPER_SEARCH_SHAPE = _HOIST_HEAD + '''        match = self._find_delimiter(data, boundary)
        if match is None:
            data_end = del_index = self.last_newline(data[data_start:]) + data_start
            if %s(len(data) - data_end) %s len(boundary) + 1:
                data_end = del_index = len(data)
        else:
            self.state = State.EPILOGUE if match.group(1).startswith(b"--") else State.PART
            data_end = match.start()
            del_index = match.end()
        return bytes(data[data_start:data_end]), del_index, match is None

    def _find_delimiter(self, data: bytes, boundary: bytes) -> t.Match[bytes] | None:
        return self.boundary_re.search(data) if boundary in self.buffer else None


'''

TWINS += [
    {"name": 'presence-by-count-held-in-a-flag-search-hoisted', "edits": [(M, _SPLIT_TAIL, _COUNT_SHAPE % ("> 0", 'len(boundary) + len(b"\\n")'))]},
    {"name": 'presence-by-count-as-a-truth-value', "edits": [(M, _SPLIT_TAIL, _COUNT_SHAPE % ("", "1 + len(boundary)"))]},
    {"name": 'match-tested-by-truth-value-result-tuple-in-a-local', "edits": [(M, _SPLIT_TAIL, _RESULT_LOCAL_SHAPE % "self.last_newline(data[data_start:]) + data_start")]},
    {"name": 'guarded-search-in-a-one-expression-helper', "edits": [(M, _SPLIT_TAIL, _HELPER_SEARCH_SHAPE % ("boundary not in self.buffer and ", ">"))]},
]

MUTANTS += [
    {"name": 'count-shape-threshold-without-line-break', "expect": 'R1.4', "edits": [(M, _SPLIT_TAIL, _COUNT_SHAPE % ("> 0", "len(boundary)"))]},
    {"name": 'count-shape-presence-test-inverted', "expect": 'R1.4', "edits": [(M, _SPLIT_TAIL, _COUNT_SHAPE % ("== 0", "len(boundary) + 1"))]},
    {"name": 'result-local-shape-hold-back-offset-forgotten', "expect": 'R1.7', "edits": [(M, _SPLIT_TAIL, _RESULT_LOCAL_SHAPE % "self.last_newline(data[data_start:])")]},
    {"name": 'helper-search-shape-threshold-inclusive', "expect": 'R1.4', "edits": [(M, _SPLIT_TAIL, _HELPER_SEARCH_SHAPE % ("boundary not in self.buffer and ", ">="))]},
    {"name": 'helper-search-shape-early-release-also-when-the-boundary-text-is-there', "expect": 'R1.4', "edits": [(M, _SPLIT_TAIL, _HELPER_SEARCH_SHAPE % ("", ">"))]},
]

# ---------------------------------------------------------------------------
# round 4: the window position comes back from a helper that *returns* it (method / static method / function of the module,
# one or two levels; the clamp at 0 written as max(), as a conditional expression or as an early `return 0`)

_PH = "    def _parse_headers(self, data: bytes) -> Headers:"
_CLS = "class MultipartDecoder:\n"


def _returned(pre: str, part: str, helper: str, anchor: str = _PH) -> list:
    return [(M, _WINDOW_PREAMBLE, pre), (M, _WINDOW_PART, part), (M, anchor, helper + anchor)]


_RET_EARLY0 = """    def _resume_from(self, keep: int) -> int:
        position = len(self.buffer) - keep
        if position < 0:
            return 0
        return position

"""
_RET_STATIC = """    @staticmethod
    def _resume_from(size: int, keep: int) -> int:
        return max(size - keep, 0)

"""
_RET_FUNCTION = """def _resume_from(buffer: bytearray, keep: int) -> int:
    return max(0, len(buffer) - %s)


"""
_RET_TWO_LEVELS = """    def _resume_from(self, keep: int) -> int:
        return self._not_negative(len(self.buffer) - %s)

    @staticmethod
    def _not_negative(position: int) -> int:
        return position if position > 0 else 0

"""
_RET_NO_PARAMS = """    def _resume_after_preamble_miss(self) -> int:
        keep = len(self.boundary) + SEARCH_EXTRA_LENGTH
        return 0 if len(self.buffer) < keep else len(self.buffer) - keep

    def _resume_after_blank_line_miss(self) -> int:
        return max(0, len(self.buffer) - %s)

"""
_RET_BUFFERED = """    def _buffered(self) -> int:
        return len(self.buffer)

"""
_RET_THROUGH_SETTER = """    def _keep_tail(self, keep: int) -> None:
        self._search_position = self._resume_from(keep)

    def _resume_from(self, keep: int) -> int:
        return max(0, len(self.buffer) - keep)

"""
_RET_DROPS_FIRST = """    def _resume_from(self, keep: int) -> int:
        size = len(self.buffer)
        return max(0, size - keep - %s)

"""
_CALL_PRE = "                self._search_position = self._resume_from(len(self.boundary) + SEARCH_EXTRA_LENGTH)\n"
_CALL_PART = "                self._search_position = self._resume_from(SEARCH_EXTRA_LENGTH)\n"

TWINS += [
    {"name": "position-returned-by-method-clamped-with-early-return-0", "edits": _returned(_CALL_PRE, _CALL_PART, _RET_EARLY0)},
    {"name": "position-returned-by-static-method-given-the-buffer-length", "edits": _returned(
        "                self._search_position = self._resume_from(len(self.buffer), len(self.boundary) + SEARCH_EXTRA_LENGTH)\n",
        "                self._search_position = MultipartDecoder._resume_from(keep=SEARCH_EXTRA_LENGTH, size=len(self.buffer))\n", _RET_STATIC)},
    {"name": "position-returned-by-module-function-given-the-buffer", "edits": _returned(
        "                self._search_position = _resume_from(self.buffer, len(self.boundary) + SEARCH_EXTRA_LENGTH)\n",
        "                self._search_position = _resume_from(self.buffer, SEARCH_EXTRA_LENGTH)\n", _RET_FUNCTION % "keep", _CLS)},
    {"name": "position-returned-through-two-helpers-conditional-clamp", "edits": _returned(_CALL_PRE, _CALL_PART, _RET_TWO_LEVELS % "keep")},
    {"name": "position-returned-by-parameterless-helpers-held-in-a-local", "edits": _returned(
        "                resume = self._resume_after_preamble_miss()\n                self._search_position = resume\n",
        "                self._search_position = self._resume_after_blank_line_miss()\n", _RET_NO_PARAMS % "SEARCH_EXTRA_LENGTH")},
    {"name": "buffer-length-returned-by-helper", "edits": _returned(
        "                self._search_position = max(0, self._buffered() - len(self.boundary) - SEARCH_EXTRA_LENGTH)\n",
        "                self._search_position = max(0, self._buffered() - SEARCH_EXTRA_LENGTH)\n", _RET_BUFFERED)},
    {"name": "setter-helper-stores-what-a-returning-helper-computes", "edits": _returned(
        "                self._keep_tail(len(self.boundary) + SEARCH_EXTRA_LENGTH)\n", "                self._keep_tail(SEARCH_EXTRA_LENGTH)\n", _RET_THROUGH_SETTER)},
    {"name": "position-returned-by-helper-that-keeps-more-than-asked", "edits": _returned(_CALL_PRE, _CALL_PART, _RET_DROPS_FIRST % "2")},
]

MUTANTS += [
    {"name": "returned-position-too-short-for-blank-line", "expect": "R1.1", "edits": _returned(
        _CALL_PRE, "                self._search_position = self._resume_from(2)\n", _RET_EARLY0)},
    {"name": "returned-position-static-forgets-boundary-length", "expect": "R1.1", "edits": _returned(
        "                self._search_position = self._resume_from(len(self.buffer), SEARCH_EXTRA_LENGTH)\n",
        "                self._search_position = MultipartDecoder._resume_from(keep=SEARCH_EXTRA_LENGTH, size=len(self.buffer))\n", _RET_STATIC)},
    {"name": "returned-position-module-function-keeps-less-than-asked", "expect": "R1.1", "edits": _returned(
        "                self._search_position = _resume_from(self.buffer, len(self.boundary) + SEARCH_EXTRA_LENGTH)\n",
        "                self._search_position = _resume_from(self.buffer, SEARCH_EXTRA_LENGTH)\n", _RET_FUNCTION % "(keep - 6)", _CLS)},
    {"name": "returned-position-two-helpers-inner-keeps-less", "expect": "R1.1", "edits": _returned(_CALL_PRE, _CALL_PART, _RET_TWO_LEVELS % "keep + 7")},
    {"name": "returned-position-parameterless-helper-too-short", "expect": "R1.1", "edits": _returned(
        "                resume = self._resume_after_preamble_miss()\n                self._search_position = resume\n",
        "                self._search_position = self._resume_after_blank_line_miss()\n", _RET_NO_PARAMS % "2")},
    {"name": "buffer-length-helper-window-too-short", "expect": "R1.1", "edits": _returned(
        "                self._search_position = max(0, self._buffered() - SEARCH_EXTRA_LENGTH)\n",
        "                self._search_position = max(0, self._buffered() - SEARCH_EXTRA_LENGTH)\n", _RET_BUFFERED)},
    {"name": "setter-through-returning-helper-too-short", "expect": "R1.1", "edits": _returned(
        "                self._keep_tail(len(self.boundary) + SEARCH_EXTRA_LENGTH)\n", "                self._keep_tail(1)\n", _RET_THROUGH_SETTER)},
    {"name": "returned-position-helper-keeps-less-than-asked", "expect": "R1.1", "edits": _returned(_CALL_PRE, _CALL_PART, _RET_DROPS_FIRST % "(-6)")},
    # the returned window is still a window: it goes stale like one stored directly
    {"name": "returned-position-not-reset-after-headers", "expect": "R1.2", "edits": _returned(_CALL_PRE, _CALL_PART, _RET_EARLY0) + [
        (M, "                self.state = State.DATA_START\n                self._search_position = 0\n", "                self.state = State.DATA_START\n")]},
]


# ---------------------------------------------------------------------------
# detection round 4: where the hold-back anchor cuts (R1.10) and what the header stage does with the rest of a
# line break that a delimiter match left in the buffer (R1.11)

_HEADER_LOOP = '''        for line in data.splitlines():
            line = line.strip()

            if line != b"":
                name, _, value = line.decode().partition(":")
                headers.append((name.strip(), value.strip()))
        return Headers(headers)
'''
_STAGE_CALL = "                headers = self._parse_headers(self.buffer[: match.start()])\n"
_HOLD_BOTH = "self.last_newline(data[data_start:]) + data_start"

MUTANTS += [
    # R1.10: the anchor is later than the start of the last line break for some order / adjacency of the last CR and LF
    {"name": "anchor-last-lf-stepping-back-over-cr", "expect": "R1.10", "edits": [(M, _ANCHOR, '''        last_nl = data.rfind(b"\\n")

        if last_nl == -1:
            return len(data)

        if data[:last_nl].endswith(b"\\r"):
            return last_nl - 1

        return last_nl
''')]},
    {"name": "anchor-index-arithmetic-on-the-byte-before-the-lf", "expect": "R1.10", "edits": [(M, _ANCHOR, '''        i = data.rfind(b"\\n")
        if i < 0:
            return len(data)
        if i > 0 and data[i - 1 : i] == b"\\r":
            i -= 1
        return i
''')]},
    {"name": "anchor-latest-line-break-byte", "expect": "R1.10", "edits": [(M, _ANCHOR, '''        last = max(data.rfind(b"\\n"), data.rfind(b"\\r"))
        return len(data) if last < 0 else last
''')]},
    {"name": "anchor-backward-scan-stops-at-lf-only", "expect": "R1.10", "edits": [(M, _ANCHOR, '''        i = len(data)
        while i > 0:
            i -= 1
            if data[i : i + 1] == b"\\n":
                return i
        return len(data)
''')]},
    {"name": "anchor-rpartition-on-lf-only", "expect": "R1.10", "edits": [(M, _ANCHOR, '''        head, sep, _ = data.rpartition(b"\\n")
        return len(head) if sep else len(data)
''')]},
    {"name": "anchor-through-a-lookup-helper-asked-for-the-lf-twice", "expect": "R1.10", "edits": [(M, _ANCHOR, '''        nl = self._last(data, b"\\n")
        cr = self._last(data, b"\\n")
        return nl if cr > nl else cr

    def _last(self, data: bytes, c: bytes) -> int:
        i = data.rfind(c)
        return len(data) if i == -1 else i
''')]},
    {"name": "hold-back-one-byte-after-the-anchor", "expect": "R1.10", "edits": [(M, _HOLD_B, _HOLD_B.replace(_HOLD_BOTH, _HOLD_BOTH + " + 1"))]},
    # R1.11: the rest of a line break in front of the header block becomes a header
    {"name": "header-lines-neither-stripped-nor-skipped-when-empty", "expect": "R1.11", "edits": [(M, _HEADER_LOOP, '''        for line in data.splitlines():
            name, _, value = line.decode().partition(":")
            headers.append((name.strip(), value.strip()))
        return Headers(headers)
''')]},
    {"name": "header-pairs-by-comprehension-without-a-filter", "expect": "R1.11", "edits": [(M, _HEADER_LOOP, '''        pairs = [line.decode().partition(":") for line in data.splitlines()]
        return Headers([(name.strip(), value.strip()) for name, _, value in pairs])
''')]},
    {"name": "header-line-guard-tests-for-none", "expect": "R1.11", "edits": [(M, _HEADER_LOOP, '''        for line in data.splitlines():
            line = line.strip()

            if line is not None:
                name, _, value = line.decode().partition(":")
                headers.append((name.strip(), value.strip()))
        return Headers(headers)
''')]},
    {"name": "header-lines-from-a-generator-helper-that-keeps-empty-lines", "expect": "R1.11", "edits": [(M, _HEADER_LOOP, '''        for line in self._header_lines(data):
            name, _, value = line.partition(":")
            headers.append((name.strip(), value.strip()))
        return Headers(headers)

    @staticmethod
    def _header_lines(block: bytes) -> t.Iterator[str]:
        for raw in block.splitlines():
            yield raw.strip().decode()
''')]},
    {"name": "headers-added-one-by-one-without-skipping-empty-lines", "expect": "R1.11", "edits": [(M, _HEADER_LOOP, '''        result = Headers()
        for line in data.splitlines():
            name, _, value = line.decode().partition(":")
            result.add(name.strip(), value.strip())
        return result
''')]},
    {"name": "header-block-through-a-local-copy-lines-not-skipped", "expect": "R1.11", "edits": [
        (M, _STAGE_CALL, "                block = bytes(self.buffer[: match.start()])\n                headers = self._parse_headers(block)\n"),
        (M, _HEADER_LOOP, '''        for line in data.splitlines():
            name, _, value = line.decode().partition(":")
            headers.append((name.strip(), value.strip()))
        return Headers(headers)
''')]},
]

TWINS += [
    # the same anchor (earliest of the last LF and the last CR, the length when one is absent), spelled differently
    {"name": "anchor-as-a-backward-scan-for-either-byte", "edits": [(M, _ANCHOR, '''        nl = cr = end = len(data)
        for i in range(end - 1, -1, -1):
            c = data[i : i + 1]
            if c == b"\\n" and nl == end:
                nl = i
            elif c == b"\\r" and cr == end:
                cr = i
            if nl != end and cr != end:
                break
        return cr if cr < nl else nl
''')]},
    {"name": "anchor-by-rpartition", "edits": [(M, _ANCHOR, '''        head, sep, _ = data.rpartition(b"\\n")
        nl = len(head) if sep else len(data)
        head, sep, _ = data.rpartition(b"\\r")
        cr = len(head) if sep else len(data)
        return nl if nl <= cr else cr
''')]},
    {"name": "anchor-while-loops-per-byte-collected-in-a-list", "edits": [(M, _ANCHOR, '''        found = []
        for c in (b"\\n", b"\\r"):
            i = len(data) - 1
            while i >= 0 and data[i : i + 1] != c:
                i -= 1
            found.append(i if i >= 0 else len(data))
        return min(found)
''')]},
    {"name": "anchor-through-a-two-argument-lookup-helper", "edits": [(M, _ANCHOR, '''        return min(self._last(data, b"\\n"), self._last(data, b"\\r"))

    def _last(self, data: bytes, c: bytes) -> int:
        i = data.rfind(c)
        return len(data) if i == -1 else i
''')]},
    {"name": "anchor-scan-over-byte-codes", "edits": [(M, _ANCHOR, '''        nl = cr = len(data)
        i = len(data)
        while i > 0 and (nl == len(data) or cr == len(data)):
            i -= 1
            if data[i] == 10 and nl == len(data):
                nl = i
            if data[i] == 13 and cr == len(data):
                cr = i
        return min(nl, cr)
''')]},
    # the header stage skips empty lines, spelled differently
    {"name": "header-loop-continue-on-empty-line", "edits": [(M, _HEADER_LOOP, '''        for raw in data.splitlines():
            text = raw.strip()
            if not text:
                continue
            key, _, val = text.decode().partition(":")
            headers.append((key.strip(), val.strip()))
        return Headers(headers)
''')]},
    {"name": "header-lines-filtered-in-a-comprehension", "edits": [(M, _HEADER_LOOP, '''        lines = [line.strip() for line in data.splitlines() if line.strip()]
        for line in lines:
            name, _, value = line.decode().partition(":")
            headers.append((name.strip(), value.strip()))
        return Headers(headers)
''')]},
    {"name": "header-lines-from-a-generator-helper-that-skips-empty-lines", "edits": [(M, _HEADER_LOOP, '''        for line in self._header_lines(data):
            name, _, value = line.partition(":")
            headers.append((name.strip(), value.strip()))
        return Headers(headers)

    @staticmethod
    def _header_lines(block: bytes) -> t.Iterator[str]:
        for raw in block.splitlines():
            raw = raw.strip()
            if raw:
                yield raw.decode()
''')]},
    {"name": "header-line-tested-by-the-truth-of-its-stripped-copy", "edits": [(M, _HEADER_LOOP, '''        for line in data.splitlines():
            if line.strip():
                name, _, value = line.decode().partition(":")
                headers.append((name.strip(), value.strip()))
        return Headers(headers)
''')]},
    {"name": "headers-added-one-by-one-empty-lines-skipped", "edits": [(M, _HEADER_LOOP, '''        result = Headers()
        for line in data.splitlines():
            line = line.strip()
            if len(line) > 0:
                name, _, value = line.decode().partition(":")
                result.add(name.strip(), value.strip())
        return result
''')]},
    {"name": "header-block-through-a-local-bytes-copy", "edits": [
        (M, _STAGE_CALL, "                block = bytes(self.buffer[: match.start()])\n                headers = self._parse_headers(block)\n")]},
    {"name": "header-pairs-by-filtered-comprehension-into-the-constructor", "edits": [(M, _HEADER_LOOP, '''        pairs = (line.strip().decode().partition(":") for line in data.splitlines() if line.strip() != b"")
        return Headers([(name.strip(), value.strip()) for name, _, value in pairs])
''')]},
]

_EVENT_CHOICE = '''                if filename is not None:
                    event = File(
                        filename=filename,
                        headers=headers,
                        name=name,
                    )
                else:
                    event = Field(
                        headers=headers,
                        name=name,
                    )
'''
_EVENT_HELPER_CALL = "                event = self._opening_event(headers, name, filename)\n"
_EVENT_HELPER = '''    def _opening_event(self, part_headers: Headers, name: str, filename: str | None) -> Event:
        if filename is None:
            return Field(headers=part_headers, name=name)
        return File(filename=filename, headers=part_headers, name=name)

    def _parse_headers(self, data: bytes) -> Headers:'''
_PARSE_HEADERS_DEF = "    def _parse_headers(self, data: bytes) -> Headers:"

TWINS += [
    {"name": "part-opening-event-built-by-a-helper-given-the-headers", "edits": [
        (M, _EVENT_CHOICE, _EVENT_HELPER_CALL), (M, _PARSE_HEADERS_DEF, _EVENT_HELPER)]},
]
MUTANTS += [
    {"name": "event-helper-shape-header-lines-not-skipped", "expect": "R1.11", "edits": [
        (M, _EVENT_CHOICE, _EVENT_HELPER_CALL), (M, _PARSE_HEADERS_DEF, _EVENT_HELPER),
        (M, _HEADER_LOOP, '''        for line in data.splitlines():
            name, _, value = line.decode().partition(":")
            headers.append((name.strip(), value.strip()))
        return Headers(headers)
''')]},
]

_EVENT_BY_CLASS_IN_A_LOCAL = '''                make = File if filename is not None else Field
                fields: dict[str, t.Any] = {"headers": headers, "name": name}
                if filename is not None:
                    fields["filename"] = filename
                event = make(**fields)
'''
TWINS += [
    {"name": "part-opening-event-class-chosen-into-a-local", "edits": [(M, _EVENT_CHOICE, _EVENT_BY_CLASS_IN_A_LOCAL)]},
]
MUTANTS += [
    {"name": "event-class-in-a-local-shape-header-lines-not-skipped", "expect": "R1.11", "edits": [
        (M, _EVENT_CHOICE, _EVENT_BY_CLASS_IN_A_LOCAL),
        (M, _HEADER_LOOP, '''        for line in data.splitlines():
            name, _, value = line.decode().partition(":")
            headers.append((name.strip(), value.strip()))
        return Headers(headers)
''')]},
]


# ---------------------------------------------------------------------------------------------------------------------
# round 5 (held-out ordinary-style refactorings): R1.11 does not depend on how the Content-Disposition options are obtained
# (what is compared is the value computed from the header block; arguments derived from it are functions of it), the header
# stage may sit in a helper that reads the buffer itself; R1.9 follows the collecting list to the join wherever it travels
# (local copy, helper parameter by position or keyword, module function, nested function, two levels); R1.8 / R1.2 read
# `self.state = X if c else self.state` and a table indexed by the state; min(..., default=) in the anchor.

_POH = '''                disposition, extra = parse_options_header(
                    headers["content-disposition"]
                )
'''
_NAMES = '''                name = t.cast(str, extra.get("name"))
                filename = extra.get("filename")
'''
_BAD_HEADER_LOOP = '''        for line in data.splitlines():
            name, _, value = line.decode().partition(":")
            headers.append((name.strip(), value.strip()))
        return Headers(headers)
'''
_BAD11 = [(M, _HEADER_LOOP, _BAD_HEADER_LOOP)]
_FAIL = "    def fail(self, message: str) -> te.NoReturn:"
_DECODE_HELPER = '''    def _decode_field(self, part: Field, chunks: list[bytes]) -> str:
        value = b"".join(chunks)
        return value.decode(self.get_part_charset(part.headers), "replace")

'''
_BAD9 = [(F, 'b"".join(chunks)', 'b" ".join(chunks)')]
_MORE = "            if more_data:\n                self.state = State.DATA\n"


def _pair(name: str, edits: list, rule: str, bad: list, bad_name: str) -> None:
    TWINS.append({"name": name, "edits": edits})
    MUTANTS.append({"name": bad_name, "expect": rule, "edits": edits + bad})


_pair("disposition-options-by-index-from-get", [
    (M, _POH, '                options = parse_options_header(headers.get("content-disposition"))[1]\n'),
    (M, _NAMES, '                name = t.cast(str, options.get("name"))\n                filename = options.get("filename")\n')],
    "R1.11", _BAD11, "options-by-index-shape-header-lines-not-skipped")
_pair("disposition-options-from-a-static-helper-given-the-headers", [
    (M, _POH, '                extra = self._disposition_options(headers)\n'),
    (M, _PH, '''    @staticmethod
    def _disposition_options(headers: Headers) -> dict[str, str]:
        _, options = parse_options_header(headers["content-disposition"])
        return options

''' + _PH)], "R1.11", _BAD11, "options-helper-shape-header-lines-not-skipped")
_pair("header-stage-in-a-helper-that-reads-the-buffer-itself", [
    (M, _STAGE_CALL, "                headers = self._headers_up_to(match)\n"),
    (M, _PH, '''    def _headers_up_to(self, found: t.Match[bytes]) -> Headers:
        raw = self.buffer[: found.start()]
        return self._parse_headers(bytes(raw))

''' + _PH)], "R1.11", _BAD11, "stage-helper-reads-the-buffer-header-lines-not-skipped")
_pair("headers-and-their-end-returned-as-a-pair", [
    (M, '''                headers = self._parse_headers(self.buffer[: match.start()])
                # The final header ends with a single CRLF, however a
                # blank line indicates the start of the
                # body. Therefore the end is after the first CRLF.
                headers_end = (match.start() + match.end()) // 2
''', "                headers, headers_end = self._split_headers(match)\n"),
    (M, _PH, '''    def _split_headers(self, found: t.Match[bytes]) -> tuple[Headers, int]:
        headers = self._parse_headers(self.buffer[: found.start()])
        return headers, (found.start() + found.end()) // 2

''' + _PH)], "R1.11", _BAD11, "headers-pair-helper-header-lines-not-skipped")
_pair("event-arguments-in-a-dict-with-a-derived-name", [
    (M, _POH, '                extra = parse_options_header(headers["content-disposition"])[-1]\n'),
    (M, _EVENT_CHOICE, '''                common = {"headers": headers, "name": name}
                if filename is not None:
                    event = File(filename=filename, **common)
                else:
                    event = Field(**common)
''')], "R1.11", _BAD11, "arguments-dict-shape-header-lines-not-skipped")
_pair("header-parser-as-a-module-function", [
    (M, _STAGE_CALL, "                headers = _parse_part_headers(bytes(self.buffer[: match.start()]))\n"),
    (M, "class MultipartDecoder:\n", '''def _parse_part_headers(block: bytes) -> Headers:
    pairs: list[tuple[str, str]] = []
    for line in HEADER_CONTINUATION_RE.sub(b" ", block).splitlines():
        line = line.strip()
        if not line:
            continue
        name, _, value = line.decode().partition(":")
        pairs.append((name.strip(), value.strip()))
    return Headers(pairs)


class MultipartDecoder:
''')], "R1.11", [(M, "        if not line:\n            continue\n", "")], "module-function-parser-keeps-empty-lines")

_pair("field-joined-in-a-helper-given-the-list-by-keyword", [
    (F, _JOIN, "                            value = self._decode_field(part=current_part, chunks=container)\n"),
    (F, _FAIL, _DECODE_HELPER + _FAIL)], "R1.9", _BAD9, "join-helper-puts-a-blank-between-the-pieces")
_pair("field-joined-through-a-local-copy-of-the-list", [(F, _JOIN, '''                            chunks = t.cast("list[bytes]", container)
                            value = b"".join(chunks).decode(
                                self.get_part_charset(current_part.headers), "replace"
                            )
''')], "R1.9", _BAD9, "local-copy-joined-with-a-blank")
_pair("field-joined-in-a-module-function", [
    (F, _JOIN, "                            value = _join_field(container, self.get_part_charset(current_part.headers))\n"),
    (F, "class MultiPartParser:\n", '''def _join_field(chunks: "list[bytes]", charset: str) -> str:
    return b"".join(chunks).decode(charset, "replace")


class MultiPartParser:
''')], "R1.9", [(F, 'b"".join(chunks)', 'b"".join(c.rstrip() for c in chunks)')], "module-function-strips-each-piece-when-joining")
_pair("field-joined-two-helpers-down", [
    (F, _JOIN, "                            value = self._field_value(current_part, container)\n"),
    (F, _FAIL, '''    def _field_value(self, part: Field, pieces: t.Any) -> str:
        return self._decode_field(part, t.cast("list[bytes]", pieces))

''' + _DECODE_HELPER + _FAIL)], "R1.9", _BAD9, "two-helpers-down-joined-with-a-blank")
_pair("field-joined-in-a-nested-function", [
    (F, "        fields = []\n        files = []\n", '''        fields = []
        files = []

        def field_text(part: Field, chunks: "list[bytes]") -> str:
            return b"".join(chunks).decode(self.get_part_charset(part.headers), "replace")
'''), (F, _JOIN, "                            value = field_text(current_part, t.cast(\"list[bytes]\", container))\n")],
    "R1.9", _BAD9, "nested-function-joins-with-a-blank")
_pair("end-of-field-in-a-helper-given-both-lists", [(F, '''                        if isinstance(current_part, Field):
''' + _JOIN + '''                            fields.append((current_part.name, value))
''', '''                        if isinstance(current_part, Field):
                            self._finish_field(current_part, container, fields)
'''), (F, _FAIL, '''    def _finish_field(self, part: Field, chunks: t.Any, fields: list) -> None:
        value = b"".join(chunks).decode(self.get_part_charset(part.headers), "replace")
        fields.append((part.name, value))

''' + _FAIL)], "R1.9", _BAD9, "end-of-field-helper-joins-with-a-blank")
MUTANTS.append({"name": "join-helper-decodes-the-pieces-one-by-one", "expect": "R1.9", "edits": [
    (F, _JOIN, "                            value = self._decode_field(current_part, container)\n"),
    (F, _FAIL, '''    def _decode_field(self, part: Field, chunks: list[bytes]) -> str:
        charset = self.get_part_charset(part.headers)
        return "".join(c.decode(charset, "replace") for c in chunks)

''' + _FAIL)]})

_pair("state-kept-by-a-conditional-expression", [(M, _MORE, "            self.state = State.DATA if more_data else self.state\n")],
      "R1.8", [(M, "State.DATA if more_data else self.state", "State.DATA if more_data and data else self.state")], "conditional-state-leaves-the-start-state-only-with-payload")
_pair("start-flag-from-a-table-indexed-by-the-state", [(M, _DS_BRANCH + _D_BRANCH, '''        elif self.state in _DATA_STATES:
            start = _DATA_STATES[self.state]
            data, del_index, more_data = self._parse_data(self.buffer, start=start)
            del self.buffer[:del_index]
            if start:
                event = Data(data=data, more_data=more_data)
                if more_data:
                    self.state = State.DATA
            elif data or not more_data:
                event = Data(data=data, more_data=more_data)
'''), (M, "class MultipartDecoder:\n", "_DATA_STATES = {State.DATA_START: True, State.DATA: False}\n\n\nclass MultipartDecoder:\n")],
      "R1.8", [(M, "                if more_data:\n                    self.state = State.DATA\n", "                if more_data and data:\n                    self.state = State.DATA\n")],
      "table-shape-leaves-the-start-state-only-with-payload")
_pair("both-data-states-handled-by-one-helper", [(M, _DS_BRANCH + _D_BRANCH, '''        elif self.state in (State.DATA_START, State.DATA):
            event = self._next_data()
'''), (M, _PH, '''    def _next_data(self) -> Event:
        start = self.state == State.DATA_START
        data, del_index, more_data = self._parse_data(self.buffer, start=start)
        del self.buffer[:del_index]
        if start and more_data:
            self.state = State.DATA
        if start or data or not more_data:
            return Data(data=data, more_data=more_data)
        return NEED_DATA

''' + _PH)], "R1.8", [(M, "        if start and more_data:\n", "        if start and more_data and data:\n")], "data-helper-leaves-the-start-state-only-with-payload")
_pair("deletion-through-a-consume-helper", [
    (M, "            del self.buffer[:del_index]\n            event = Data(data=data, more_data=more_data)\n            if more_data:", "            self._consume(del_index)\n            event = Data(data=data, more_data=more_data)\n            if more_data:"),
    (M, _PH, "    def _consume(self, count: int) -> None:\n        del self.buffer[:count]\n\n" + _PH)],
    "R1.8", [(M, _MORE, "            if more_data and len(data) > 0:\n                self.state = State.DATA\n")], "consume-helper-shape-leaves-the-start-state-only-with-payload")

_pair("anchor-min-of-the-found-positions-with-a-default", [(M, _ANCHOR, '''        found = [i for i in (data.rfind(b"\\n"), data.rfind(b"\\r")) if i != -1]
        return min(found, default=len(data))
''')], "R1.10", [(M, "min(found, default=len(data))", "max(found, default=len(data))")], "anchor-max-of-the-found-positions-with-a-default")

# the anchor is told where the region starts instead of being handed a copy of it
_ANCHOR_DEF = "    def last_newline(self, data: bytes) -> int:\n" + _ANCHOR
_HOLD_B_LINE = "            else:\n                data_end = del_index = self.last_newline(data[data_start:]) + data_start\n"
_HOLD_A_LINE = "            data_end = del_index = self.last_newline(data[data_start:]) + data_start\n            # If amount"
_pair("anchor-given-the-buffer-and-the-start-of-the-region", [
    (M, _ANCHOR_DEF, '''    def last_newline(self, data: bytes, start: int = 0) -> int:
        nl = data.rfind(b"\\n", start)
        cr = data.rfind(b"\\r", start)
        end = len(data)
        return min(end if nl < 0 else nl, end if cr < 0 else cr)
'''), (M, _HOLD_A_LINE, "            data_end = del_index = self.last_newline(data, data_start)\n            # If amount"),
    (M, _HOLD_B_LINE, "            else:\n                data_end = del_index = self.last_newline(data, data_start)\n")],
    "R1.10", [(M, "        return min(end if nl < 0 else nl, end if cr < 0 else cr)\n", "        return nl if nl >= 0 else end\n")], "anchor-with-a-start-looks-for-the-lf-only")
_pair("anchor-with-a-keyword-only-start", [
    (M, _ANCHOR_DEF, '''    def last_newline(self, data: bytes, *, since: int) -> int:
        found = [i for i in (data.rfind(b"\\n", since), data.rfind(b"\\r", since)) if i >= 0]
        return min(found) if found else len(data)
'''), (M, _HOLD_A_LINE, "            data_end = del_index = self.last_newline(data, since=data_start)\n            # If amount"),
    (M, _HOLD_B_LINE, "            else:\n                data_end = del_index = self.last_newline(data, since=data_start)\n")],
    "R1.10", [(M, "        return min(found) if found else len(data)\n", "        return max(found) if found else len(data)\n")], "anchor-with-a-keyword-only-start-takes-the-later-byte")
# the joined pieces: copies of the list and of its elements, empty pieces dropped
TWINS += [
    {"name": "pieces-joined-from-a-tuple-copy-through-map-bytes", "edits": [(F, '                            value = b"".join(container).decode(', '                            value = b"".join(map(bytes, tuple(container))).decode(')]},
    {"name": "empty-pieces-dropped-when-joining", "edits": [(F, '                            value = b"".join(container).decode(', '                            value = b"".join(piece for piece in container if piece).decode(')]},
    {"name": "payload-written-as-a-memoryview-copy", "edits": [(F, "                    _write(event.data)\n", "                    _write(memoryview(event.data).tobytes())\n")]},
]
MUTANTS += [
    {"name": "pieces-stripped-by-map-when-joined", "expect": "R1.9", "edits": [(F, '                            value = b"".join(container).decode(', '                            value = b"".join(map(bytes.strip, container)).decode(')]},
    {"name": "last-byte-of-each-piece-dropped-when-joined", "expect": "R1.9", "edits": [(F, '                            value = b"".join(container).decode(', '                            value = b"".join(piece[:-1] for piece in container if piece).decode(')]},
]
