"""self-validation battery for C18."""
L = "local.py"

_TOP_BODY = "        stack = self._storage.get([])\n\n        if len(stack) == 0:\n            return None\n\n        return stack[-1]"
_STACK_RESOLVER = "            def _get_current_object() -> T:\n                obj = local.top\n\n                if obj is None:\n                    raise RuntimeError(unbound_message)\n\n                return get_name(obj)\n"
_CALLABLE_RESOLVER = "            def _get_current_object() -> T:\n                return get_name(local())\n"

MUTANTS = [
    # ---- R18.1 copy-on-write -------------------------------------------------------
    {"name": "setattr-writes-shared-dict", "expect": "R18.1", "edits": [(L, "        values = self.__storage.get({}).copy()\n", "        values = self.__storage.get({})\n")]},
    {"name": "push-appends-to-shared-list", "expect": "R18.1", "edits": [(L, "        stack = self._storage.get([]).copy()\n", "        stack = self._storage.get([])\n")]},
    {"name": "delattr-deletes-from-shared-dict", "expect": "R18.1", "edits": [(L, "            values = values.copy()\n            del values[name]", "            del values[name]")]},
    {"name": "push-copies-on-one-path-only", "expect": "R18.1", "edits": [(L, "        stack = self._storage.get([]).copy()\n        stack.append(obj)", "        stack = self._storage.get([])\n\n        if len(stack) > 1:\n            stack = stack.copy()\n\n        stack.append(obj)")]},
    {"name": "pop-removes-in-place", "expect": "R18.1", "edits": [(L, "        rv = stack[-1]\n        self._storage.set(stack[:-1])", "        rv = stack.pop()\n        self._storage.set(stack)")]},
    {"name": "push-augmented-assignment", "expect": "R18.1", "edits": [(L, "        stack = self._storage.get([]).copy()\n        stack.append(obj)", "        stack = self._storage.get([])\n        stack += [obj]")]},
    {"name": "setattr-operator-setitem", "expect": "R18.1", "edits": [(L, "        values = self.__storage.get({}).copy()\n        values[name] = value", "        values = self.__storage.get({})\n        operator.setitem(values, name, value)")]},
    {"name": "setattr-shared-dict-through-helper", "expect": "R18.1", "edits": [(L, "        values = self.__storage.get({}).copy()\n        values[name] = value\n        self.__storage.set(values)\n", "        self._assign(self.__storage.get({}), name, value)\n\n    def _assign(self, values: dict[str, t.Any], name: str, value: t.Any) -> None:\n        values[name] = value\n        self.__storage.set(values.copy())\n")]},
    {"name": "pop-rebinds-the-shared-list", "expect": "R18.1", "edits": [(L, "        self._storage.set(stack[:-1])", "        del stack[-1:]\n        self._storage.set(stack)")]},
    # ---- R18.2 release --------------------------------------------------------------
    {"name": "local-release-clears-in-place", "expect": "R18.2", "edits": [(L, "        self.__storage.set({})", "        self.__storage.get({}).clear()")]},
    {"name": "stack-release-binds-none", "expect": "R18.2", "edits": [(L, "        self._storage.set([])", "        self._storage.set(None)  # type: ignore[arg-type]")]},
    {"name": "local-release-binds-a-list", "expect": "R18.2", "edits": [(L, "        self.__storage.set({})", "        self.__storage.set([])  # type: ignore[arg-type]")]},
    {"name": "cleanup-skips-stacks", "expect": "R18.2", "edits": [(L, "        for local in self.locals:\n            release_local(local)", "        for local in self.locals:\n            if isinstance(local, Local):\n                release_local(local)")]},
    {"name": "cleanup-stops-after-first", "expect": "R18.2", "edits": [(L, "        for local in self.locals:\n            release_local(local)", "        for local in self.locals[:1]:\n            release_local(local)")]},
    {"name": "manager-forgets-single-local", "expect": "R18.2", "edits": [(L, "            self.locals = [locals]", "            self.locals = []")]},
    {"name": "release-local-conditional", "expect": "R18.2", "edits": [(L, "    local.__release_local__()", "    if isinstance(local, Local):\n        local.__release_local__()")]},
    # ---- R18.3 late binding ---------------------------------------------------------------------
    {"name": "stack-top-read-at-proxy-creation", "expect": "R18.3", "edits": [(L, "            def _get_current_object() -> T:\n                obj = local.top\n\n", "            obj = local.top\n\n            def _get_current_object() -> T:\n")]},
    {"name": "callable-called-at-proxy-creation", "expect": "R18.3", "edits": [(L, _CALLABLE_RESOLVER, "            current = local()\n\n            def _get_current_object() -> T:\n                return get_name(current)\n")]},
    {"name": "callable-result-cached", "expect": "R18.3", "edits": [(L, _CALLABLE_RESOLVER, "            cache: list[T] = []\n\n            def _get_current_object() -> T:\n                if not cache:\n                    cache.append(get_name(local()))\n\n                return cache[0]\n")]},
    {"name": "contextvar-read-as-default-argument", "expect": "R18.3", "edits": [(L, "            def _get_current_object() -> T:\n                try:\n                    obj = local.get()\n                except LookupError:\n                    raise RuntimeError(unbound_message) from None\n\n                return get_name(obj)", "            def _get_current_object(obj: t.Any = local.get(None)) -> T:\n                if obj is None:\n                    raise RuntimeError(unbound_message)\n\n                return get_name(obj)")]},
    {"name": "lookup-answers-attrs-without-resolving", "expect": "R18.3", "edits": [(L, "        if instance is None:\n            if self.class_value is not None:", "        if instance is None or self.is_attr:\n            if self.class_value is not None:")]},
    # ---- R18.4 unbound behaviour -----------------------------------------------------------------
    {"name": "local-resolver-catches-keyerror", "expect": "R18.4", "edits": [(L, "                except AttributeError:\n                    raise RuntimeError(unbound_message) from None", "                except KeyError:\n                    raise RuntimeError(unbound_message) from None")]},
    {"name": "stack-resolver-drops-none-check", "expect": "R18.4", "edits": [(L, "                if obj is None:\n                    raise RuntimeError(unbound_message)\n\n                return get_name(obj)\n\n        elif isinstance(local, ContextVar):", "                return get_name(obj)\n\n        elif isinstance(local, ContextVar):")]},
    {"name": "stack-resolver-truthiness", "expect": "R18.4", "edits": [(L, "                obj = local.top\n\n                if obj is None:", "                obj = local.top\n\n                if not obj:")]},
    {"name": "contextvar-resolver-reads-with-default", "expect": "R18.4", "edits": [(L, "                    obj = local.get()\n", "                    obj = local.get(None)\n")]},
    {"name": "contextvar-resolver-raises-lookuperror", "expect": "R18.4", "edits": [(L, "                except LookupError:\n                    raise RuntimeError(unbound_message) from None", "                except LookupError:\n                    raise LookupError(unbound_message) from None")]},
    {"name": "top-indexes-empty-stack", "expect": "R18.4", "edits": [(L, _TOP_BODY, "        stack = self._storage.get([])\n        return stack[-1]")]},
    {"name": "top-guard-inverted", "expect": "R18.4", "edits": [(L, _TOP_BODY, "        stack = self._storage.get([])\n\n        if len(stack) != 0:\n            return None\n\n        return stack[-1]")]},
    {"name": "top-reads-without-default", "expect": "R18.4", "edits": [(L, _TOP_BODY, "        stack = self._storage.get()\n\n        if len(stack) == 0:\n            return None\n\n        return stack[-1]")]},
    {"name": "getattr-raises-keyerror", "expect": "R18.4", "edits": [(L, "        raise AttributeError(name)\n\n    def __setattr__", "        raise KeyError(name)\n\n    def __setattr__")]},
    {"name": "lookup-no-reraise-without-fallback", "expect": "R18.4", "edits": [(L, "            if self.fallback is None:\n                raise\n\n", "")]},
    {"name": "lookup-handler-too-narrow", "expect": "R18.4", "edits": [(L, "        except RuntimeError:\n            if self.fallback is None:", "        except LookupError:\n            if self.fallback is None:")]},
    {"name": "bool-fallback-removed", "expect": "R18.4", "edits": [(L, "    __bool__ = _ProxyLookup(bool, fallback=lambda self: False)", "    __bool__ = _ProxyLookup(bool)")]},
    {"name": "bool-fallback-true", "expect": "R18.4", "edits": [(L, "    __bool__ = _ProxyLookup(bool, fallback=lambda self: False)", "    __bool__ = _ProxyLookup(bool, fallback=lambda self: True)")]},
    {"name": "repr-fallback-through-bound-object", "expect": "R18.4", "edits": [(L, "        repr, fallback=lambda self: f\"<{type(self).__name__} unbound>\"", "        repr, fallback=lambda self: f\"<{type(self).__name__} {self.__name__}>\"")]},
    # ---- R18.5 no other storage --------------------------------------------------------------------
    {"name": "stack-gains-a-cache-slot", "expect": "R18.5", "edits": [(L, "    __slots__ = (\"_storage\",)", "    __slots__ = (\"_storage\", \"_top\")")]},
    {"name": "local-loses-slots", "expect": "R18.5", "edits": [(L, "    __slots__ = (\"__storage\",)\n\n", "")]},
    {"name": "module-level-registry", "expect": "R18.5", "edits": [(L, "F = t.TypeVar(\"F\", bound=t.Callable[..., t.Any])\n", "F = t.TypeVar(\"F\", bound=t.Callable[..., t.Any])\n_all_locals: list[t.Any] = []\n")]},
    {"name": "class-level-stack-cache", "expect": "R18.5", "edits": [(L, "    __slots__ = (\"_storage\",)\n", "    __slots__ = (\"_storage\",)\n    _tops: dict[int, t.Any] = {}\n")]},
    {"name": "release-replaces-the-contextvar", "expect": "R18.5", "edits": [(L, "        self._storage.set([])", "        self._storage.set([])\n        self._storage = ContextVar(f\"werkzeug.LocalStack<{id(self)}>.storage\")")]},
]

TWINS = [
    {"name": "setattr-copy-in-two-steps", "edits": [(L, "        values = self.__storage.get({}).copy()\n", "        current = self.__storage.get({})\n        values = current.copy()\n")]},
    {"name": "setattr-copy-with-dict-call", "edits": [(L, "        values = self.__storage.get({}).copy()\n", "        values = dict(self.__storage.get({}))\n")]},
    {"name": "push-binds-before-appending", "edits": [(L, "        stack.append(obj)\n        self._storage.set(stack)", "        self._storage.set(stack)\n        stack.append(obj)")]},
    {"name": "push-builds-a-new-list", "edits": [(L, "        stack = self._storage.get([]).copy()\n        stack.append(obj)", "        stack = [*self._storage.get([])]\n        stack.append(obj)")]},
    {"name": "delattr-early-raise", "edits": [(L, "        if name in values:\n            values = values.copy()\n            del values[name]\n            self.__storage.set(values)\n        else:\n            raise AttributeError(name)", "        if name not in values:\n            raise AttributeError(name)\n\n        remaining = values.copy()\n        del remaining[name]\n        self.__storage.set(remaining)")]},
    {"name": "pop-copies-then-pops", "edits": [(L, "        rv = stack[-1]\n        self._storage.set(stack[:-1])\n        return rv", "        rest = stack.copy()\n        rv = rest.pop()\n        self._storage.set(rest)\n        return rv")]},
    {"name": "top-truthiness-guard", "edits": [(L, _TOP_BODY, "        stack = self._storage.get([])\n\n        if not stack:\n            return None\n\n        return stack[-1]")]},
    {"name": "top-try-except", "edits": [(L, _TOP_BODY, "        stack = self._storage.get([])\n\n        try:\n            return stack[-1]\n        except IndexError:\n            return None")]},
    {"name": "top-conditional-expression", "edits": [(L, _TOP_BODY, "        stack = self._storage.get([])\n        return stack[-1] if stack else None")]},
    {"name": "getattr-try-except", "edits": [(L, "        if name in values:\n            return values[name]\n\n        raise AttributeError(name)", "        try:\n            return values[name]\n        except KeyError:\n            raise AttributeError(name) from None")]},
    {"name": "getattr-reads-through-helper", "edits": [(L, "    def __getattr__(self, name: str) -> t.Any:\n        values = self.__storage.get({})\n", "    def _values(self) -> dict[str, t.Any]:\n        return self.__storage.get({})\n\n    def __getattr__(self, name: str) -> t.Any:\n        values = self._values()\n")]},
    {"name": "setattr-binds-through-helper", "edits": [(L, "        values[name] = value\n        self.__storage.set(values)\n", "        values[name] = value\n        self._bind(values)\n\n    def _bind(self, values: dict[str, t.Any]) -> None:\n        self.__storage.set(values)\n")]},
    {"name": "stack-resolver-flipped", "edits": [(L, _STACK_RESOLVER, "            def _get_current_object() -> T:\n                top = local.top\n\n                if top is not None:\n                    return get_name(top)\n\n                raise RuntimeError(unbound_message)\n")]},
    {"name": "local-resolver-wider-except", "edits": [(L, "                except AttributeError:\n                    raise RuntimeError(unbound_message) from None", "                except (AttributeError, KeyError):\n                    raise RuntimeError(unbound_message) from None")]},
    {"name": "lookup-fallback-test-flipped", "edits": [(L, "            if self.fallback is None:\n                raise\n\n            fallback = self.fallback.__get__(instance, owner)\n\n            if self.is_attr:\n                # __class__ and __doc__ are attributes, not methods.\n                # Call the fallback to get the value.\n                return fallback()\n\n            return fallback\n", "            if self.fallback is not None:\n                fallback = self.fallback.__get__(instance, owner)\n                return fallback() if self.is_attr else fallback\n\n            raise\n")]},
    {"name": "cleanup-over-a-copy-with-method-call", "edits": [(L, "        for local in self.locals:\n            release_local(local)", "        for item in list(self.locals):\n            item.__release_local__()")]},
    {"name": "release-with-constructor-call", "edits": [(L, "        self._storage.set([])", "        self._storage.set(list())")]},
    {"name": "repr-fallback-via-class-attribute", "edits": [(L, "        repr, fallback=lambda self: f\"<{type(self).__name__} unbound>\"", "        repr, fallback=lambda self: f\"<{self.__class__.__name__} unbound>\"")]},
    {"name": "storage-alias-local-name", "edits": [(L, "        stack = self._storage.get([]).copy()\n        stack.append(obj)\n        self._storage.set(stack)", "        var = self._storage\n        stack = var.get([]).copy()\n        stack.append(obj)\n        var.set(stack)")]},
]
