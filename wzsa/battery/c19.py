"""self-validation battery for C19."""
S = "serving.py"

_COPY = (
    "                if read + n > len(buf):\n"
    "                    n = len(buf) - read\n"
    "\n"
    "                data = self._rfile.read(n)\n"
    "\n"
    "                # A short read means the stream ended inside the chunk. Don't\n"
    "                # splice it into buf, that would resize the caller's buffer.\n"
    "                if len(data) != n:\n"
    "                    raise OSError(\"Unexpected end of chunked data\")\n"
    "\n"
    "                buf[read : read + n] = data\n"
    "                self._len -= n\n"
    "                read += n\n"
)
_DONE = (
    "            if self._len == 0:\n"
    "                # Found the final chunk of size 0. The stream is now exhausted,\n"
    "                # but there is still a final newline that should be consumed\n"
    "                self._done = True\n"
    "\n"
)
_TERM = (
    "            if self._len == 0:\n"
    "                # Skip the terminating newline of a chunk that has been fully\n"
    "                # consumed. This also applies to the 0-sized final chunk\n"
    "                terminator = self._rfile.readline()\n"
    '                if terminator not in (b"\\n", b"\\r\\n", b"\\r"):\n'
    '                    raise OSError("Missing chunk terminating newline")\n'
)
_WRITE = (
    "            if data:\n"
    "                if chunk_response:\n"
    "                    self.wfile.write(hex(len(data))[2:].encode())\n"
    '                    self.wfile.write(b"\\r\\n")\n'
    "\n"
    "                self.wfile.write(data)\n"
    "\n"
    "                if chunk_response:\n"
    '                    self.wfile.write(b"\\r\\n")\n'
)
_DECISION = (
    "                if (\n"
    "                    not (\n"
    '                        "content-length" in header_keys\n'
    '                        or environ["REQUEST_METHOD"] == "HEAD"\n'
    "                        or (100 <= code < 200)\n"
    "                        or code in {204, 304}\n"
    "                    )\n"
    '                    and self.protocol_version >= "HTTP/1.1"\n'
    "                ):\n"
)
_AFTER_LOOP = (
    "                if not headers_sent:\n"
    '                    write(b"")\n'
    "                if chunk_response:\n"
    '                    self.wfile.write(b"0\\r\\n\\r\\n")\n'
)

_HDR_LOOP = (
    "        for key, value in self.headers.items():\n"
    '            if "_" in key:\n'
    "                continue\n"
    "\n"
    '            key = key.upper().replace("-", "_")\n'
    '            value = value.replace("\\r\\n", "")\n'
    '            if key not in ("CONTENT_TYPE", "CONTENT_LENGTH"):\n'
    '                key = f"HTTP_{key}"\n'
    "                if key in environ:\n"
    '                    value = f"{environ[key]},{value}"\n'
    "            environ[key] = value\n"
)
_HDOC = '    """A request handler that implements WSGI dispatching."""\n'
_HCLS = "class WSGIRequestHandler(BaseHTTPRequestHandler):\n"
_HANDLE = '    def handle(self) -> None:\n        """Handles a request ignoring dropped connections."""\n'
_SUPER_HANDLE = "        try:\n            super().handle()\n"
_SRV_PROTO = '            handler.protocol_version = "HTTP/1.1"\n'


_WRITE_DEF = "        def write(data: bytes) -> None:\n"
_SPLIT = '                try:\n                    code_str, msg = status_sent.split(None, 1)\n                except ValueError:\n                    code_str, msg = status_sent, ""\n'


def _should_chunk(bodyless: str = "(100 <= code < 200) or code in {204, 304}", head: bool = True) -> str:
    return (
        "        def should_chunk(code: int, names: set[str]) -> bool:\n"
        '            if "content-length" in names:\n'
        "                return False\n"
        + ('            if environ["REQUEST_METHOD"] == "HEAD":\n                return False\n' if head else "")
        + f"            if {bodyless}:\n"
        "                return False\n"
        '            return self.protocol_version >= "HTTP/1.1"\n'
        "\n" + _WRITE_DEF
    )


_DECISION_CALL = "                if should_chunk(code, header_keys):\n"


def _setup(*lines: str) -> tuple:
    return (S, _HANDLE, "    def setup(self) -> None:\n" + "".join(f"        {l}\n" for l in lines) + "\n" + _HANDLE)


_TE_TEST = '        if environ.get("HTTP_TRANSFER_ENCODING", "").strip().lower() == "chunked":\n'
_READINTO = "    def readinto(self, buf: bytearray) -> int:  # type: ignore\n"
_TERM_CALL = "            if self._len == 0:\n                self._skip_terminator()\n"


def _term_helper(accepted: str) -> str:
    return (
        "    def _skip_terminator(self) -> None:\n"
        "        line = self._rfile.readline()\n"
        "        if line in " + accepted + ":\n"
        "            return\n"
        '        raise OSError("Missing chunk terminating newline")\n'
        "\n" + _READINTO
    )


MUTANTS = [
    # ---- R19.1 ------------------------------------------------------------
    {"name": "chunks-304", "expect": "R19.1", "edits": [(S, "or code in {204, 304}", "or code in {204}")]},
    {"name": "chunks-status-100", "expect": "R19.1", "edits": [(S, "or (100 <= code < 200)", "or (100 < code < 200)")]},
    {"name": "chunks-on-http-1-0", "expect": "R19.1", "edits": [(S, 'and self.protocol_version >= "HTTP/1.1"', 'and self.protocol_version >= "HTTP/1.0"')]},
    {"name": "chunks-head", "expect": "R19.1", "edits": [(S, '                        or environ["REQUEST_METHOD"] == "HEAD"\n', "")]},
    {"name": "chunks-with-content-length", "expect": "R19.1", "edits": [(S, '                        "content-length" in header_keys\n                        or environ', "                        environ")]},
    {"name": "header-names-not-lowered", "expect": "R19.1", "edits": [(S, "header_keys.add(key.lower())", "header_keys.add(key)")]},
    {"name": "transfer-encoding-always", "expect": "R19.1", "edits": [(S, '                    chunk_response = True\n                    self.send_header("Transfer-Encoding", "chunked")\n', '                    chunk_response = True\n\n                self.send_header("Transfer-Encoding", "chunked")\n')]},
    {"name": "flag-starts-true", "expect": "R19.1", "edits": [(S, "chunk_response: bool = False", "chunk_response: bool = True")]},
    {"name": "content-length-search-case-sensitive", "expect": "R19.1", "edits": [(S, '                        "content-length" in header_keys\n', '                        any(name == "content-length" for name, _ in headers_sent)\n')]},
    {"name": "status-class-local-off-by-one", "expect": "R19.1", "edits": [(S, "                        or (100 <= code < 200)\n", "                        or status_class == 1\n"), (S, "                header_keys = set()\n", "                header_keys = set()\n                status_class = (code - 1) // 100\n")]},
    {"name": "predicate-helper-forgets-304", "expect": "R19.1", "edits": [(S, _DECISION, _DECISION_CALL), (S, _WRITE_DEF, _should_chunk("(100 <= code < 200) or code == 204"))]},
    {"name": "predicate-helper-forgets-head", "expect": "R19.1", "edits": [(S, _DECISION, _DECISION_CALL), (S, _WRITE_DEF, _should_chunk(head=False))]},
    {"name": "predicate-helper-result-negated", "expect": "R19.1", "edits": [(S, _DECISION, "                if not should_chunk(code, header_keys):\n"), (S, _WRITE_DEF, _should_chunk())]},
    # ---- R19.2 ------------------------------------------------------------
    {"name": "status-local-second-token", "expect": "R19.2", "edits": [(S, _SPLIT, '                status_parts = status_sent.split(None, 1)\n                if len(status_parts) == 2:\n                    msg, code_str = status_parts\n                else:\n                    code_str, msg = status_sent, ""\n')]},
    {"name": "status-local-from-headers", "expect": "R19.2", "edits": [(S, _SPLIT, '                status_parts = status_sent.split(None, 1)\n                code_str, msg = status_parts[0], ""\n                if len(status_parts) == 2:\n                    code_str, msg = status_parts[1], status_parts[0]\n')]},
    {"name": "size-line-before-empty-test", "expect": "R19.2", "edits": [(S, _WRITE,
        "            if chunk_response:\n"
        "                self.wfile.write(hex(len(data))[2:].encode())\n"
        '                self.wfile.write(b"\\r\\n")\n'
        "\n"
        "            if data:\n"
        "                self.wfile.write(data)\n"
        "\n"
        "                if chunk_response:\n"
        '                    self.wfile.write(b"\\r\\n")\n')]},
    {"name": "decimal-chunk-size", "expect": "R19.2", "edits": [(S, "self.wfile.write(hex(len(data))[2:].encode())", "self.wfile.write(str(len(data)).encode())")]},
    {"name": "hex-prefix-kept", "expect": "R19.2", "edits": [(S, "self.wfile.write(hex(len(data))[2:].encode())", "self.wfile.write(hex(len(data)).encode())")]},
    {"name": "no-crlf-after-chunk-data", "expect": "R19.2", "edits": [(S, '                self.wfile.write(data)\n\n                if chunk_response:\n                    self.wfile.write(b"\\r\\n")\n', "                self.wfile.write(data)\n")]},
    {"name": "terminator-without-chunking", "expect": "R19.2", "edits": [(S, '                if chunk_response:\n                    self.wfile.write(b"0\\r\\n\\r\\n")\n', '                self.wfile.write(b"0\\r\\n\\r\\n")\n')]},
    {"name": "terminator-short", "expect": "R19.2", "edits": [(S, 'self.wfile.write(b"0\\r\\n\\r\\n")', 'self.wfile.write(b"0\\r\\n")')]},
    {"name": "terminator-before-forced-headers", "expect": "R19.2", "edits": [(S, _AFTER_LOOP,
        "                if chunk_response:\n"
        '                    self.wfile.write(b"0\\r\\n\\r\\n")\n'
        "                if not headers_sent:\n"
        '                    write(b"")\n')]},
    {"name": "terminator-per-item", "expect": "R19.2", "edits": [(S, "                for data in application_iter:\n                    write(data)\n" + _AFTER_LOOP,
        "                for data in application_iter:\n                    write(data)\n                    if chunk_response:\n"
        '                        self.wfile.write(b"0\\r\\n\\r\\n")\n'
        "                if not headers_sent:\n"
        '                    write(b"")\n')]},
    {"name": "empty-header-values-dropped", "expect": "R19.2", "edits": [(S, "                    self.send_header(key, value)\n", "                    if value:\n                        self.send_header(key, value)\n")]},
    {"name": "header-latch-on-application-list", "expect": "R19.2", "edits": [(S, "            if status_sent is None:\n                status_sent = status_set", "            if not headers_sent:\n                status_sent = status_set")]},
    {"name": "header-latch-never-closed", "expect": "R19.2", "edits": [
        (S, "                status_sent = status_set\n                headers_sent = headers_set\n", "                headers_sent = headers_set\n"),
        (S, "code_str, msg = status_sent.split(None, 1)", "code_str, msg = status_set.split(None, 1)"),
        (S, 'code_str, msg = status_sent, ""', 'code_str, msg = status_set, ""')]},
    # ---- R19.3 ------------------------------------------------------------
    {"name": "size-handler-too-narrow", "expect": "R19.3", "edits": [(S, "        except ValueError as e:\n            raise OSError(\"Invalid chunk header\") from e", "        except UnicodeDecodeError as e:\n            raise OSError(\"Invalid chunk header\") from e")]},
    {"name": "size-parsed-decimal", "expect": "R19.3", "edits": [(S, "_len = int(line.strip(), 16)", "_len = int(line.strip())")]},
    {"name": "negative-size-accepted", "expect": "R19.3", "edits": [(S, '        if _len < 0:\n            raise OSError("Negative chunk length not allowed")\n', "")]},
    {"name": "negative-test-off-by-one", "expect": "R19.3", "edits": [(S, "        if _len < 0:\n", "        if _len < -1:\n")]},
    {"name": "eof-accepted-as-terminator", "expect": "R19.3", "edits": [(S, 'if terminator not in (b"\\n", b"\\r\\n", b"\\r"):', 'if terminator not in (b"\\n", b"\\r\\n", b"\\r", b""):')]},
    {"name": "bad-terminator-ends-read", "expect": "R19.3", "edits": [(S, '                    raise OSError("Missing chunk terminating newline")', "                    break")]},
    {"name": "bad-terminator-valueerror", "expect": "R19.3", "edits": [(S, '                    raise OSError("Missing chunk terminating newline")', '                    raise ValueError("Missing chunk terminating newline")')]},
    {"name": "read-not-capped-by-chunk", "expect": "R19.3", "edits": [(S, "n = min(len(buf), self._len)", "n = len(buf)")]},
    {"name": "residual-decrement-by-full-n", "expect": "R19.3", "edits": [(S, "                if read + n > len(buf):\n                    n = len(buf) - read\n\n                data = self._rfile.read(n)\n", "                k = min(n, len(buf) - read)\n                data = self._rfile.read(k)\n"), (S, "                if len(data) != n:\n", "                if len(data) != k:\n"), (S, "                buf[read : read + n] = data\n                self._len -= n\n                read += n\n", "                buf[read : read + k] = data\n                self._len -= n\n                read += k\n")]},
    {"name": "count-advances-by-n-on-partial", "expect": "R19.3", "edits": [(S, "                if read + n > len(buf):\n                    n = len(buf) - read\n\n                data = self._rfile.read(n)\n", "                k = min(n, len(buf) - read)\n                data = self._rfile.read(k)\n"), (S, "                if len(data) != n:\n", "                if len(data) != k:\n"), (S, "                buf[read : read + n] = data\n                self._len -= n\n                read += n\n", "                buf[read : read + k] = data\n                self._len -= k\n                read += n\n")]},
    {"name": "store-at-buffer-start", "expect": "R19.3", "edits": [(S, "buf[read : read + n] = data", "buf[:n] = data")]},
    {"name": "short-read-spliced-unchecked", "expect": "R19.3", "edits": [(S, "                if len(data) != n:\n                    raise OSError(\"Unexpected end of chunked data\")\n\n", "")]},
    {"name": "short-read-spliced-old-shape", "expect": "R19.3", "edits": [(S, _COPY, "                if read + n > len(buf):\n                    buf[read:] = self._rfile.read(len(buf) - read)\n                    self._len -= len(buf) - read\n                    read = len(buf)\n                else:\n                    buf[read : read + n] = self._rfile.read(n)\n                    self._len -= n\n                    read += n\n")]},
    {"name": "header-read-every-iteration", "expect": "R19.3", "edits": [(S,
        "            if self._len == 0:\n"
        "                # This is the first chunk or we fully consumed the previous\n"
        "                # one. Read the next length of the next chunk\n"
        "                self._len = self.read_chunk_len()\n",
        "            self._len = self.read_chunk_len()\n")]},
    {"name": "terminator-read-before-copy", "expect": "R19.3", "edits": [(S, _TERM, ""), (S, "            if self._len > 0:\n", _TERM + "\n            if self._len > 0:\n")]},
    {"name": "end-flag-when-chunk-consumed", "expect": "R19.3", "edits": [(S, _DONE, ""), (S, _COPY, _COPY + "\n" + _DONE)]},
    {"name": "terminator-never-read", "expect": "R19.3", "edits": [(S, "                terminator = self._rfile.readline()\n", '                terminator = b"\\n"\n')]},
    {"name": "terminator-helper-accepts-eof", "expect": "R19.3", "edits": [(S, _TERM, _TERM_CALL), (S, _READINTO, _term_helper('(b"\\n", b"\\r\\n", b"\\r", b"")'))]},
    {"name": "terminator-helper-called-while-chunk-remains", "expect": "R19.3", "edits": [(S, _TERM, "            self._skip_terminator()\n"), (S, _READINTO, _term_helper('(b"\\n", b"\\r\\n", b"\\r")'))]},
    # ---- R19.4 ------------------------------------------------------------
    {"name": "terminated-flag-unconditional", "expect": "R19.4", "edits": [(S, '            environ["wsgi.input_terminated"] = True\n            environ["wsgi.input"]', '            environ["wsgi.input"]'), (S, "        # Per RFC 2616, if the URL is absolute, use that as the host.", '        environ["wsgi.input_terminated"] = True\n\n        # Per RFC 2616, if the URL is absolute, use that as the host.')]},
    {"name": "terminated-flag-forgotten", "expect": "R19.4", "edits": [(S, '            environ["wsgi.input_terminated"] = True\n', "")]},
    {"name": "underscore-test-after-canonicalisation", "expect": "R19.4", "edits": [(S, '            if "_" in key:\n                continue\n\n            key = key.upper().replace("-", "_")\n', '            key = key.upper().replace("-", "_")\n\n            if "_" in key:\n                continue\n\n')]},
    {"name": "underscore-names-kept", "expect": "R19.4", "edits": [(S, '            if "_" in key:\n                continue\n\n', "")]},
    {"name": "content-length-prefixed", "expect": "R19.4", "edits": [(S, 'if key not in ("CONTENT_TYPE", "CONTENT_LENGTH"):', 'if key not in ("CONTENT_TYPE",):')]},
    {"name": "query-unquoted", "expect": "R19.4", "edits": [(S, '"QUERY_STRING": _wsgi_encoding_dance(request_url.query),', '"QUERY_STRING": _wsgi_encoding_dance(unquote(request_url.query)),')]},
    {"name": "path-not-unquoted", "expect": "R19.4", "edits": [(S, "        path_info = unquote(path_info)\n", "")]},
    {"name": "double-slash-segment-lost", "expect": "R19.4", "edits": [(S, '            path_info = f"/{request_url.netloc}{request_url.path}"', "            path_info = request_url.path")]},
    {"name": "repeated-header-order-reversed", "expect": "R19.4", "edits": [(S, 'value = f"{environ[key]},{value}"', 'value = f"{value},{environ[key]}"')]},
    {"name": "method-from-environ-default", "expect": "R19.4", "edits": [(S, '"REQUEST_METHOD": self.command,', '"REQUEST_METHOD": self.command or "GET",')]},
    {"name": "transfer-encoding-looked-up-before-headers", "expect": "R19.4", "edits": [
        (S, '        for key, value in self.headers.items():\n            if "_" in key:\n', '        te = environ.get("HTTP_TRANSFER_ENCODING", "")\n\n        for key, value in self.headers.items():\n            if "_" in key:\n'),
        (S, _TE_TEST, '        if te.strip().lower() == "chunked":\n')]},
    {"name": "transfer-encoding-case-sensitive", "expect": "R19.4", "edits": [(S, _TE_TEST, '        if environ.get("HTTP_TRANSFER_ENCODING", "").strip() == "chunked":\n')]},
    {"name": "underscore-name-ends-header-copy", "expect": "R19.4", "edits": [(S, '            if "_" in key:\n                continue\n', '            if "_" in key:\n                break\n')]},
    {"name": "repeated-header-overwritten", "expect": "R19.4", "edits": [(S, '                if key in environ:\n                    value = f"{environ[key]},{value}"\n', "")]},
    {"name": "one-header-name-dropped", "expect": "R19.4", "edits": [(S, "            environ[key] = value\n", '            if key != "HTTP_PROXY":\n                environ[key] = value\n')]},
    {"name": "join-tests-unprefixed-name", "expect": "R19.4", "edits": [(S, '                key = f"HTTP_{key}"\n                if key in environ:\n', '                if key in environ:\n                    pass\n                key = f"HTTP_{key}"\n                if key[5:] in environ:\n')]},
    # ---- R19.5 ------------------------------------------------------------
    {"name": "unbuffered-class-attribute", "expect": "R19.5", "edits": [(S, _HDOC, _HDOC + "\n    rbufsize = 0\n")]},
    {"name": "unbuffered-through-module-constant", "expect": "R19.5", "edits": [(S, _HCLS, "_NO_BUFFER = 0\n\n\n" + _HCLS), (S, _HDOC, _HDOC + "\n    rbufsize: int = _NO_BUFFER\n")]},
    {"name": "unbuffered-mixin-base", "expect": "R19.5", "edits": [(S, _HCLS, "class _RawRequestStream:\n    wbufsize = 0\n    rbufsize = wbufsize\n\n\nclass WSGIRequestHandler(_RawRequestStream, BaseHTTPRequestHandler):\n")]},
    {"name": "unbuffered-on-one-platform", "expect": "R19.5", "edits": [(S, _HDOC, _HDOC + '\n    rbufsize = 0 if sys.platform == "win32" else -1\n')]},
    {"name": "unbuffered-set-in-setup", "expect": "R19.5", "edits": [_setup("self.rbufsize = False", "super().setup()")]},
    {"name": "unbuffered-set-by-server", "expect": "R19.5", "edits": [(S, _SRV_PROTO, _SRV_PROTO + "\n        handler.rbufsize = 0\n")]},
    {"name": "unbuffered-setattr-by-server", "expect": "R19.5", "edits": [(S, _SRV_PROTO, _SRV_PROTO + '\n        setattr(handler, "rbufsize", 0)\n')]},
    {"name": "unbuffered-derived-handler-namespace", "expect": "R19.5", "edits": [(S, _SRV_PROTO, _SRV_PROTO + '\n        handler = type("Handler", (handler,), {"rbufsize": 0})\n')]},
    {"name": "rfile-remade-unbuffered", "expect": "R19.5", "edits": [_setup("super().setup()", 'self.rfile = self.connection.makefile("rb", buffering=0)')]},
    {"name": "rfile-remade-unbuffered-local-size", "expect": "R19.5", "edits": [_setup("super().setup()", "size = 0", 'self.rfile = self.connection.makefile("rb", size)')]},
    {"name": "rfile-raw-socketio", "expect": "R19.5", "edits": [(S, _SUPER_HANDLE, '        self.rfile = socket.SocketIO(self.connection, "rb")\n' + _SUPER_HANDLE)]},
    {"name": "rfile-detached", "expect": "R19.5", "edits": [_setup("super().setup()", "self.rfile = self.rfile.detach()")]},
    {"name": "rfile-raw-attribute", "expect": "R19.5", "edits": [_setup("super().setup()", "buffered = self.rfile", "self.rfile = buffered.raw")]},
    {"name": "nonblocking-timeout-zero", "expect": "R19.5", "edits": [(S, _HDOC, _HDOC + "\n    timeout = 0\n")]},
    {"name": "nonblocking-set-in-handle", "expect": "R19.5", "edits": [(S, _SUPER_HANDLE, "        self.connection.setblocking(False)\n" + _SUPER_HANDLE)]},
    {"name": "nonblocking-settimeout-zero", "expect": "R19.5", "edits": [_setup("super().setup()", "self.request.settimeout(0.0)")]},
    {"name": "raw-stream-handed-to-application", "expect": "R19.4", "edits": [(S, '"wsgi.input": self.rfile,', '"wsgi.input": self.rfile.raw,')]},
]

TWINS = [
    {"name": "decision-in-predicate-helper", "edits": [(S, _DECISION, _DECISION_CALL), (S, _WRITE_DEF, _should_chunk())]},
    {"name": "decision-in-predicate-helper-respelled", "edits": [(S, _DECISION, _DECISION_CALL), (S, _WRITE_DEF, _should_chunk("code // 100 == 1 or code in (204, 304)"))]},
    {"name": "status-split-into-local", "edits": [(S, _SPLIT, '                status_parts = status_sent.split(None, 1)\n                if len(status_parts) == 2:\n                    code_str, msg = status_parts\n                else:\n                    code_str, msg = status_sent, ""\n')]},
    {"name": "status-first-element-of-local", "edits": [(S, _SPLIT, '                status_parts = status_sent.split(None, 1)\n                code_str = status_parts[0]\n                msg = status_parts[1] if len(status_parts) == 2 else ""\n')]},
    {"name": "default-buffering-restated", "edits": [(S, _HDOC, _HDOC + "\n    rbufsize = -1\n    wbufsize = 0\n")]},
    {"name": "buffer-size-named-from-io", "edits": [(S, _HDOC, _HDOC + "\n    rbufsize = io.DEFAULT_BUFFER_SIZE\n")]},
    {"name": "buffer-size-larger", "edits": [(S, _HCLS, "_READ_BUFFER = 64 * 1024\n\n\n" + _HCLS), (S, _HDOC, _HDOC + "\n    rbufsize = _READ_BUFFER\n")]},
    {"name": "setup-override-keeps-stream", "edits": [_setup("super().setup()", "self._t0 = None")]},
    {"name": "setup-override-explicit-base", "edits": [_setup("BaseHTTPRequestHandler.setup(self)", "self.connection.setblocking(True)")]},
    {"name": "rfile-remade-with-own-buffering", "edits": [_setup("super().setup()", 'self.rfile = self.connection.makefile("rb", self.rbufsize)')]},
    {"name": "rfile-rebuffered-explicitly", "edits": [_setup("super().setup()", "self.rfile = io.BufferedReader(self.rfile.detach())")]},
    {"name": "timeout-none-restated", "edits": [(S, _HDOC, _HDOC + "\n    timeout = None\n")]},
    {"name": "dechunker-attribute-named-rfile", "edits": [
        (S, "        self._rfile = rfile\n", "        self.rfile = rfile\n"),
        (S, 'line = self._rfile.readline().decode("latin1")', 'line = self.rfile.readline().decode("latin1")'),
        (S, "data = self._rfile.read(n)", "data = self.rfile.read(n)"),
        (S, "terminator = self._rfile.readline()", "terminator = self.rfile.readline()")]},
    {"name": "status-guard-respelled", "edits": [(S, _DECISION,
        "                if (\n"
        '                    "content-length" not in header_keys\n'
        '                    and not environ["REQUEST_METHOD"] == "HEAD"\n'
        "                    and code // 100 != 1\n"
        "                    and code != 204\n"
        "                    and not code == 304\n"
        '                    and self.protocol_version == "HTTP/1.1"\n'
        "                ):\n")]},
    {"name": "header-names-by-comprehension", "edits": [(S, "                header_keys = set()\n", "                header_keys = {name.lower() for name, _ in headers_sent}\n"), (S, "                    header_keys.add(key.lower())\n", "")]},
    {"name": "chunk-written-in-one-piece", "edits": [(S, _WRITE,
        "            if data:\n"
        "                if chunk_response:\n"
        '                    data = b"%x\\r\\n%b\\r\\n" % (len(data), data)\n'
        "\n"
        "                self.wfile.write(data)\n")]},
    {"name": "write-branches-split", "edits": [(S, _WRITE,
        "            if not data:\n"
        "                pass\n"
        "            elif chunk_response:\n"
        '                self.wfile.write(f"{len(data):x}\\r\\n".encode())\n'
        "                self.wfile.write(data)\n"
        '                self.wfile.write(b"\\r\\n")\n'
        "            else:\n"
        "                self.wfile.write(data)\n")]},
    {"name": "copy-branches-merged-correctly", "edits": [(S, _COPY,
        "                end = min(read + n, len(buf))\n"
        "                data = self._rfile.read(end - read)\n"
        "                if len(data) != end - read:\n"
        "                    raise OSError(\"Unexpected end of chunked data\")\n"
        "                buf[read:end] = data\n"
        "                self._len -= end - read\n"
        "                read = end\n")]},
    {"name": "copy-size-computed-first", "edits": [(S, _COPY,
        "                n = min(n, len(buf) - read)\n"
        "                data = self._rfile.read(n)\n"
        "                if len(data) < n:\n"
        "                    raise OSError(\"Unexpected end of chunked data\")\n"
        "                buf[read : read + n] = data\n"
        "                read += n\n"
        "                self._len -= n\n")]},
    {"name": "size-reader-early-return", "edits": [(S, '        if _len < 0:\n            raise OSError("Negative chunk length not allowed")\n        return _len\n', '        if _len >= 0:\n            return _len\n\n        raise OSError("Negative chunk length not allowed")\n')]},
    {"name": "size-handler-wider", "edits": [(S, "        except ValueError as e:\n            raise OSError(\"Invalid chunk header\") from e", "        except (ValueError, TypeError) as e:\n            raise OSError(\"Invalid chunk header\") from e")]},
    {"name": "terminators-as-set-flipped", "edits": [(S, '                if terminator not in (b"\\n", b"\\r\\n", b"\\r"):\n                    raise OSError("Missing chunk terminating newline")\n', '                if terminator in {b"\\r\\n", b"\\n", b"\\r"}:\n                    continue\n\n                raise OSError("Missing chunk terminating newline")\n')]},
    {"name": "residual-tests-respelled", "edits": [(S, "            if self._len > 0:\n", "            if self._len != 0:\n"), (S, "                self._len = self.read_chunk_len()\n\n            if self._len == 0:\n", "                self._len = self.read_chunk_len()\n\n            if not self._len:\n")]},
    {"name": "content-type-test-flipped", "edits": [(S, '            if key not in ("CONTENT_TYPE", "CONTENT_LENGTH"):\n                key = f"HTTP_{key}"\n                if key in environ:\n                    value = f"{environ[key]},{value}"\n', '            if key in {"CONTENT_LENGTH", "CONTENT_TYPE"}:\n                pass\n            else:\n                key = "HTTP_" + key\n                if key in environ:\n                    value = environ[key] + "," + value\n')]},
    {"name": "path-source-conditional-expression", "edits": [(S,
        '        if not request_url.scheme and request_url.netloc:\n            path_info = f"/{request_url.netloc}{request_url.path}"\n        else:\n            path_info = request_url.path\n',
        '        path_info = f"/{request_url.netloc}{request_url.path}" if not request_url.scheme and request_url.netloc else request_url.path\n')]},
    {"name": "terminator-test-respelled", "edits": [(S, '                if chunk_response:\n                    self.wfile.write(b"0\\r\\n\\r\\n")\n', '                if not chunk_response:\n                    pass\n                else:\n                    self.wfile.write(b"0\\r\\n\\r\\n")\n')]},
    {"name": "terminator-read-in-helper", "edits": [(S, _TERM, _TERM_CALL), (S, _READINTO, _term_helper('{b"\\r\\n", b"\\n", b"\\r"}'))]},
    {"name": "header-loop-restructured", "edits": [(S, _HDR_LOOP,
        "        for key, value in self.headers.items():\n"
        '            if "_" not in key:\n'
        '                name = key.upper().replace("-", "_")\n'
        '                value = value.replace("\\r\\n", "")\n'
        '                if name == "CONTENT_TYPE" or name == "CONTENT_LENGTH":\n'
        "                    environ[name] = value\n"
        "                    continue\n"
        '                name = "HTTP_" + name\n'
        "                earlier = environ.get(name)\n"
        '                environ[name] = value if earlier is None else ",".join([earlier, value])\n')]},
    {"name": "transfer-encoding-lookup-hoisted", "edits": [(S, _TE_TEST, '        coding = environ.get("HTTP_TRANSFER_ENCODING", "")\n        is_chunked = coding.strip().lower() == "chunked"\n\n        if is_chunked:\n')]},
    {"name": "header-latch-respelled", "edits": [(S, "            if status_sent is None:\n                status_sent = status_set", "            if not (status_sent is not None):\n                status_sent = status_set")]},
    {"name": "chunk-header-read-in-helper", "edits": [
        (S, "                self._len = self.read_chunk_len()\n\n" + _DONE, "                self._begin_chunk()\n\n"),
        (S, _READINTO, "    def _begin_chunk(self) -> None:\n        \"\"\"read the next chunk header\"\"\"\n        self._len = self.read_chunk_len()\n        if self._len == 0:\n            self._done = True\n\n" + _READINTO)]},
    {"name": "chunk-consumed-predicate", "edits": [
        (S, _TERM, _TERM.replace("            if self._len == 0:\n", "            if self._chunk_consumed():\n")),
        (S, _READINTO, "    def _chunk_consumed(self) -> bool:\n        return self._len == 0\n\n" + _READINTO)]},
    {"name": "url-components-unpacked", "edits": [
        (S, "        request_url = urlsplit(self.path)\n", "        request_url = urlsplit(self.path)\n        scheme, netloc, path, query, _ = request_url\n"),
        (S, '        if not request_url.scheme and request_url.netloc:\n            path_info = f"/{request_url.netloc}{request_url.path}"\n        else:\n            path_info = request_url.path\n\n        path_info = unquote(path_info)\n',
            '        if scheme or not netloc:\n            raw = path\n        else:\n            raw = "/" + netloc + path\n'),
        (S, '"PATH_INFO": _wsgi_encoding_dance(path_info),', '"PATH_INFO": _wsgi_encoding_dance(unquote(raw)),'),
        (S, '"QUERY_STRING": _wsgi_encoding_dance(request_url.query),', '"QUERY_STRING": _wsgi_encoding_dance(query),')]},
    {"name": "decision-with-hoisted-locals", "edits": [(S, _DECISION,
        '                method = environ["REQUEST_METHOD"]\n'
        "                status_class = code // 100\n"
        "                bodyless = status_class == 1 or code in (204, 304)\n"
        '                has_length = any(name.lower() == "content-length" for name, _ in headers_sent)\n'
        "                if (\n"
        '                    not (has_length or method == "HEAD" or bodyless)\n'
        '                    and self.protocol_version >= "HTTP/1.1"\n'
        "                ):\n")]},
    {"name": "status-split-by-partition", "edits": [(S, "                try:\n                    code_str, msg = status_sent.split(None, 1)\n                except ValueError:\n                    code_str, msg = status_sent, \"\"\n", '                code_str, _, msg = status_sent.partition(" ")\n')]},
]
