"""self-validation battery for C19."""
S = "serving.py"

_COPY = (
    "                if read + n > len(buf):\n"
    "                    n = len(buf) - read\n"
    "\n"
    "                data = self._rfile.read(n)\n"
    "\n"
    "                # A short read means the stream ended inside the chunk. Don't\n"
    "                # splice it into buf, that would resize the caller's buffer.\n"
    "                if len(data) != n:\n"
    "                    raise OSError(\"Unexpected end of chunked data\")\n"
    "\n"
    "                buf[read : read + n] = data\n"
    "                self._len -= n\n"
    "                read += n\n"
)
_DONE = (
    "            if self._len == 0:\n"
    "                # Found the final chunk of size 0. The stream is now exhausted,\n"
    "                # but there is still a final newline that should be consumed\n"
    "                self._done = True\n"
    "\n"
)
_TERM = (
    "            if self._len == 0:\n"
    "                # Skip the terminating newline of a chunk that has been fully\n"
    "                # consumed. This also applies to the 0-sized final chunk\n"
    "                terminator = self._rfile.readline()\n"
    '                if terminator not in (b"\\n", b"\\r\\n", b"\\r"):\n'
    '                    raise OSError("Missing chunk terminating newline")\n'
)
_WRITE = (
    "            if data:\n"
    "                if chunk_response:\n"
    "                    self.wfile.write(hex(len(data))[2:].encode())\n"
    '                    self.wfile.write(b"\\r\\n")\n'
    "\n"
    "                self.wfile.write(data)\n"
    "\n"
    "                if chunk_response:\n"
    '                    self.wfile.write(b"\\r\\n")\n'
)
_DECISION = (
    "                if (\n"
    "                    not (\n"
    '                        "content-length" in header_keys\n'
    '                        or environ["REQUEST_METHOD"] == "HEAD"\n'
    "                        or (100 <= code < 200)\n"
    "                        or code in {204, 304}\n"
    "                    )\n"
    '                    and self.protocol_version >= "HTTP/1.1"\n'
    "                ):\n"
)
_AFTER_LOOP = (
    "                if not headers_sent:\n"
    '                    write(b"")\n'
    "                if chunk_response:\n"
    '                    self.wfile.write(b"0\\r\\n\\r\\n")\n'
)

_HDR_LOOP = (
    "        for key, value in self.headers.items():\n"
    '            if "_" in key:\n'
    "                continue\n"
    "\n"
    '            key = key.upper().replace("-", "_")\n'
    '            value = value.replace("\\r\\n", "")\n'
    '            if key not in ("CONTENT_TYPE", "CONTENT_LENGTH"):\n'
    '                key = f"HTTP_{key}"\n'
    "                if key in environ:\n"
    '                    value = f"{environ[key]},{value}"\n'
    "            environ[key] = value\n"
)
_HDOC = '    """A request handler that implements WSGI dispatching."""\n'
_HCLS = "class WSGIRequestHandler(BaseHTTPRequestHandler):\n"
_HANDLE = '    def handle(self) -> None:\n        """Handles a request ignoring dropped connections."""\n'
_SUPER_HANDLE = "        try:\n            super().handle()\n"
_SRV_PROTO = '            handler.protocol_version = "HTTP/1.1"\n'


_WRITE_DEF = "        def write(data: bytes) -> None:\n"
_SPLIT = '                try:\n                    code_str, msg = status_sent.split(None, 1)\n                except ValueError:\n                    code_str, msg = status_sent, ""\n'


def _should_chunk(bodyless: str = "(100 <= code < 200) or code in {204, 304}", head: bool = True) -> str:
    return (
        "        def should_chunk(code: int, names: set[str]) -> bool:\n"
        '            if "content-length" in names:\n'
        "                return False\n"
        + ('            if environ["REQUEST_METHOD"] == "HEAD":\n                return False\n' if head else "")
        + f"            if {bodyless}:\n"
        "                return False\n"
        '            return self.protocol_version >= "HTTP/1.1"\n'
        "\n" + _WRITE_DEF
    )


_DECISION_CALL = "                if should_chunk(code, header_keys):\n"


def _setup(*lines: str) -> tuple:
    return (S, _HANDLE, "    def setup(self) -> None:\n" + "".join(f"        {l}\n" for l in lines) + "\n" + _HANDLE)


_TE_TEST = '        if environ.get("HTTP_TRANSFER_ENCODING", "").strip().lower() == "chunked":\n'
_READINTO = "    def readinto(self, buf: bytearray) -> int:  # type: ignore\n"
_TERM_CALL = "            if self._len == 0:\n                self._skip_terminator()\n"


def _term_helper(accepted: str) -> str:
    return (
        "    def _skip_terminator(self) -> None:\n"
        "        line = self._rfile.readline()\n"
        "        if line in " + accepted + ":\n"
        "            return\n"
        '        raise OSError("Missing chunk terminating newline")\n'
        "\n" + _READINTO
    )


MUTANTS = [
    # ---- R19.1 ------------------------------------------------------------
    {"name": "chunks-304", "expect": "R19.1", "edits": [(S, "or code in {204, 304}", "or code in {204}")]},
    {"name": "chunks-status-100", "expect": "R19.1", "edits": [(S, "or (100 <= code < 200)", "or (100 < code < 200)")]},
    {"name": "chunks-on-http-1-0", "expect": "R19.1", "edits": [(S, 'and self.protocol_version >= "HTTP/1.1"', 'and self.protocol_version >= "HTTP/1.0"')]},
    {"name": "chunks-head", "expect": "R19.1", "edits": [(S, '                        or environ["REQUEST_METHOD"] == "HEAD"\n', "")]},
    {"name": "chunks-with-content-length", "expect": "R19.1", "edits": [(S, '                        "content-length" in header_keys\n                        or environ', "                        environ")]},
    {"name": "header-names-not-lowered", "expect": "R19.1", "edits": [(S, "header_keys.add(key.lower())", "header_keys.add(key)")]},
    {"name": "transfer-encoding-always", "expect": "R19.1", "edits": [(S, '                    chunk_response = True\n                    self.send_header("Transfer-Encoding", "chunked")\n', '                    chunk_response = True\n\n                self.send_header("Transfer-Encoding", "chunked")\n')]},
    {"name": "flag-starts-true", "expect": "R19.1", "edits": [(S, "chunk_response: bool = False", "chunk_response: bool = True")]},
    {"name": "content-length-search-case-sensitive", "expect": "R19.1", "edits": [(S, '                        "content-length" in header_keys\n', '                        any(name == "content-length" for name, _ in headers_sent)\n')]},
    {"name": "status-class-local-off-by-one", "expect": "R19.1", "edits": [(S, "                        or (100 <= code < 200)\n", "                        or status_class == 1\n"), (S, "                header_keys = set()\n", "                header_keys = set()\n                status_class = (code - 1) // 100\n")]},
    {"name": "predicate-helper-forgets-304", "expect": "R19.1", "edits": [(S, _DECISION, _DECISION_CALL), (S, _WRITE_DEF, _should_chunk("(100 <= code < 200) or code == 204"))]},
    {"name": "predicate-helper-forgets-head", "expect": "R19.1", "edits": [(S, _DECISION, _DECISION_CALL), (S, _WRITE_DEF, _should_chunk(head=False))]},
    {"name": "predicate-helper-result-negated", "expect": "R19.1", "edits": [(S, _DECISION, "                if not should_chunk(code, header_keys):\n"), (S, _WRITE_DEF, _should_chunk())]},
    # ---- R19.2 ------------------------------------------------------------
    {"name": "status-local-second-token", "expect": "R19.2", "edits": [(S, _SPLIT, '                status_parts = status_sent.split(None, 1)\n                if len(status_parts) == 2:\n                    msg, code_str = status_parts\n                else:\n                    code_str, msg = status_sent, ""\n')]},
    {"name": "status-local-from-headers", "expect": "R19.2", "edits": [(S, _SPLIT, '                status_parts = status_sent.split(None, 1)\n                code_str, msg = status_parts[0], ""\n                if len(status_parts) == 2:\n                    code_str, msg = status_parts[1], status_parts[0]\n')]},
    {"name": "size-line-before-empty-test", "expect": "R19.2", "edits": [(S, _WRITE,
        "            if chunk_response:\n"
        "                self.wfile.write(hex(len(data))[2:].encode())\n"
        '                self.wfile.write(b"\\r\\n")\n'
        "\n"
        "            if data:\n"
        "                self.wfile.write(data)\n"
        "\n"
        "                if chunk_response:\n"
        '                    self.wfile.write(b"\\r\\n")\n')]},
    {"name": "decimal-chunk-size", "expect": "R19.2", "edits": [(S, "self.wfile.write(hex(len(data))[2:].encode())", "self.wfile.write(str(len(data)).encode())")]},
    {"name": "hex-prefix-kept", "expect": "R19.2", "edits": [(S, "self.wfile.write(hex(len(data))[2:].encode())", "self.wfile.write(hex(len(data)).encode())")]},
    {"name": "no-crlf-after-chunk-data", "expect": "R19.2", "edits": [(S, '                self.wfile.write(data)\n\n                if chunk_response:\n                    self.wfile.write(b"\\r\\n")\n', "                self.wfile.write(data)\n")]},
    {"name": "terminator-without-chunking", "expect": "R19.2", "edits": [(S, '                if chunk_response:\n                    self.wfile.write(b"0\\r\\n\\r\\n")\n', '                self.wfile.write(b"0\\r\\n\\r\\n")\n')]},
    {"name": "terminator-short", "expect": "R19.2", "edits": [(S, 'self.wfile.write(b"0\\r\\n\\r\\n")', 'self.wfile.write(b"0\\r\\n")')]},
    {"name": "terminator-before-forced-headers", "expect": "R19.2", "edits": [(S, _AFTER_LOOP,
        "                if chunk_response:\n"
        '                    self.wfile.write(b"0\\r\\n\\r\\n")\n'
        "                if not headers_sent:\n"
        '                    write(b"")\n')]},
    {"name": "terminator-per-item", "expect": "R19.2", "edits": [(S, "                for data in application_iter:\n                    write(data)\n" + _AFTER_LOOP,
        "                for data in application_iter:\n                    write(data)\n                    if chunk_response:\n"
        '                        self.wfile.write(b"0\\r\\n\\r\\n")\n'
        "                if not headers_sent:\n"
        '                    write(b"")\n')]},
    {"name": "empty-header-values-dropped", "expect": "R19.2", "edits": [(S, "                    self.send_header(key, value)\n", "                    if value:\n                        self.send_header(key, value)\n")]},
    {"name": "header-latch-on-application-list", "expect": "R19.2", "edits": [(S, "            if status_sent is None:\n                status_sent = status_set", "            if not headers_sent:\n                status_sent = status_set")]},
    {"name": "header-latch-never-closed", "expect": "R19.2", "edits": [
        (S, "                status_sent = status_set\n                headers_sent = headers_set\n", "                headers_sent = headers_set\n"),
        (S, "code_str, msg = status_sent.split(None, 1)", "code_str, msg = status_set.split(None, 1)"),
        (S, 'code_str, msg = status_sent, ""', 'code_str, msg = status_set, ""')]},
    # ---- R19.3 ------------------------------------------------------------
    {"name": "size-handler-too-narrow", "expect": "R19.3", "edits": [(S, "        except ValueError as e:\n            raise OSError(\"Invalid chunk header\") from e", "        except UnicodeDecodeError as e:\n            raise OSError(\"Invalid chunk header\") from e")]},
    {"name": "size-parsed-decimal", "expect": "R19.3", "edits": [(S, "_len = int(line.strip(), 16)", "_len = int(line.strip())")]},
    {"name": "negative-size-accepted", "expect": "R19.3", "edits": [(S, '        if _len < 0:\n            raise OSError("Negative chunk length not allowed")\n', "")]},
    {"name": "negative-test-off-by-one", "expect": "R19.3", "edits": [(S, "        if _len < 0:\n", "        if _len < -1:\n")]},
    {"name": "eof-accepted-as-terminator", "expect": "R19.3", "edits": [(S, 'if terminator not in (b"\\n", b"\\r\\n", b"\\r"):', 'if terminator not in (b"\\n", b"\\r\\n", b"\\r", b""):')]},
    {"name": "bad-terminator-ends-read", "expect": "R19.3", "edits": [(S, '                    raise OSError("Missing chunk terminating newline")', "                    break")]},
    {"name": "bad-terminator-valueerror", "expect": "R19.3", "edits": [(S, '                    raise OSError("Missing chunk terminating newline")', '                    raise ValueError("Missing chunk terminating newline")')]},
    {"name": "read-not-capped-by-chunk", "expect": "R19.3", "edits": [(S, "n = min(len(buf), self._len)", "n = len(buf)")]},
    {"name": "residual-decrement-by-full-n", "expect": "R19.3", "edits": [(S, "                if read + n > len(buf):\n                    n = len(buf) - read\n\n                data = self._rfile.read(n)\n", "                k = min(n, len(buf) - read)\n                data = self._rfile.read(k)\n"), (S, "                if len(data) != n:\n", "                if len(data) != k:\n"), (S, "                buf[read : read + n] = data\n                self._len -= n\n                read += n\n", "                buf[read : read + k] = data\n                self._len -= n\n                read += k\n")]},
    {"name": "count-advances-by-n-on-partial", "expect": "R19.3", "edits": [(S, "                if read + n > len(buf):\n                    n = len(buf) - read\n\n                data = self._rfile.read(n)\n", "                k = min(n, len(buf) - read)\n                data = self._rfile.read(k)\n"), (S, "                if len(data) != n:\n", "                if len(data) != k:\n"), (S, "                buf[read : read + n] = data\n                self._len -= n\n                read += n\n", "                buf[read : read + k] = data\n                self._len -= k\n                read += n\n")]},
    {"name": "store-at-buffer-start", "expect": "R19.3", "edits": [(S, "buf[read : read + n] = data", "buf[:n] = data")]},
    {"name": "short-read-spliced-unchecked", "expect": "R19.3", "edits": [(S, "                if len(data) != n:\n                    raise OSError(\"Unexpected end of chunked data\")\n\n", "")]},
    {"name": "short-read-spliced-old-shape", "expect": "R19.3", "edits": [(S, _COPY, "                if read + n > len(buf):\n                    buf[read:] = self._rfile.read(len(buf) - read)\n                    self._len -= len(buf) - read\n                    read = len(buf)\n                else:\n                    buf[read : read + n] = self._rfile.read(n)\n                    self._len -= n\n                    read += n\n")]},
    {"name": "header-read-every-iteration", "expect": "R19.3", "edits": [(S,
        "            if self._len == 0:\n"
        "                # This is the first chunk or we fully consumed the previous\n"
        "                # one. Read the next length of the next chunk\n"
        "                self._len = self.read_chunk_len()\n",
        "            self._len = self.read_chunk_len()\n")]},
    {"name": "terminator-read-before-copy", "expect": "R19.3", "edits": [(S, _TERM, ""), (S, "            if self._len > 0:\n", _TERM + "\n            if self._len > 0:\n")]},
    {"name": "end-flag-when-chunk-consumed", "expect": "R19.3", "edits": [(S, _DONE, ""), (S, _COPY, _COPY + "\n" + _DONE)]},
    {"name": "terminator-never-read", "expect": "R19.3", "edits": [(S, "                terminator = self._rfile.readline()\n", '                terminator = b"\\n"\n')]},
    {"name": "terminator-helper-accepts-eof", "expect": "R19.3", "edits": [(S, _TERM, _TERM_CALL), (S, _READINTO, _term_helper('(b"\\n", b"\\r\\n", b"\\r", b"")'))]},
    {"name": "terminator-helper-called-while-chunk-remains", "expect": "R19.3", "edits": [(S, _TERM, "            self._skip_terminator()\n"), (S, _READINTO, _term_helper('(b"\\n", b"\\r\\n", b"\\r")'))]},
    # ---- R19.4 ------------------------------------------------------------
    {"name": "terminated-flag-unconditional", "expect": "R19.4", "edits": [(S, '            environ["wsgi.input_terminated"] = True\n            environ["wsgi.input"]', '            environ["wsgi.input"]'), (S, "        # Per RFC 2616, if the URL is absolute, use that as the host.", '        environ["wsgi.input_terminated"] = True\n\n        # Per RFC 2616, if the URL is absolute, use that as the host.')]},
    {"name": "terminated-flag-forgotten", "expect": "R19.4", "edits": [(S, '            environ["wsgi.input_terminated"] = True\n', "")]},
    {"name": "underscore-test-after-canonicalisation", "expect": "R19.4", "edits": [(S, '            if "_" in key:\n                continue\n\n            key = key.upper().replace("-", "_")\n', '            key = key.upper().replace("-", "_")\n\n            if "_" in key:\n                continue\n\n')]},
    {"name": "underscore-names-kept", "expect": "R19.4", "edits": [(S, '            if "_" in key:\n                continue\n\n', "")]},
    {"name": "content-length-prefixed", "expect": "R19.4", "edits": [(S, 'if key not in ("CONTENT_TYPE", "CONTENT_LENGTH"):', 'if key not in ("CONTENT_TYPE",):')]},
    {"name": "query-unquoted", "expect": "R19.4", "edits": [(S, '"QUERY_STRING": _wsgi_encoding_dance(request_url.query),', '"QUERY_STRING": _wsgi_encoding_dance(unquote(request_url.query)),')]},
    {"name": "path-not-unquoted", "expect": "R19.4", "edits": [(S, "        path_info = unquote(path_info)\n", "")]},
    {"name": "double-slash-segment-lost", "expect": "R19.4", "edits": [(S, '            path_info = f"/{request_url.netloc}{request_url.path}"', "            path_info = request_url.path")]},
    {"name": "repeated-header-order-reversed", "expect": "R19.4", "edits": [(S, 'value = f"{environ[key]},{value}"', 'value = f"{value},{environ[key]}"')]},
    {"name": "method-from-environ-default", "expect": "R19.4", "edits": [(S, '"REQUEST_METHOD": self.command,', '"REQUEST_METHOD": self.command or "GET",')]},
    {"name": "transfer-encoding-looked-up-before-headers", "expect": "R19.4", "edits": [
        (S, '        for key, value in self.headers.items():\n            if "_" in key:\n', '        te = environ.get("HTTP_TRANSFER_ENCODING", "")\n\n        for key, value in self.headers.items():\n            if "_" in key:\n'),
        (S, _TE_TEST, '        if te.strip().lower() == "chunked":\n')]},
    {"name": "transfer-encoding-case-sensitive", "expect": "R19.4", "edits": [(S, _TE_TEST, '        if environ.get("HTTP_TRANSFER_ENCODING", "").strip() == "chunked":\n')]},
    {"name": "underscore-name-ends-header-copy", "expect": "R19.4", "edits": [(S, '            if "_" in key:\n                continue\n', '            if "_" in key:\n                break\n')]},
    {"name": "repeated-header-overwritten", "expect": "R19.4", "edits": [(S, '                if key in environ:\n                    value = f"{environ[key]},{value}"\n', "")]},
    {"name": "one-header-name-dropped", "expect": "R19.4", "edits": [(S, "            environ[key] = value\n", '            if key != "HTTP_PROXY":\n                environ[key] = value\n')]},
    {"name": "join-tests-unprefixed-name", "expect": "R19.4", "edits": [(S, '                key = f"HTTP_{key}"\n                if key in environ:\n', '                if key in environ:\n                    pass\n                key = f"HTTP_{key}"\n                if key[5:] in environ:\n')]},
    # ---- R19.5 ------------------------------------------------------------
    {"name": "unbuffered-class-attribute", "expect": "R19.5", "edits": [(S, _HDOC, _HDOC + "\n    rbufsize = 0\n")]},
    {"name": "unbuffered-through-module-constant", "expect": "R19.5", "edits": [(S, _HCLS, "_NO_BUFFER = 0\n\n\n" + _HCLS), (S, _HDOC, _HDOC + "\n    rbufsize: int = _NO_BUFFER\n")]},
    {"name": "unbuffered-mixin-base", "expect": "R19.5", "edits": [(S, _HCLS, "class _RawRequestStream:\n    wbufsize = 0\n    rbufsize = wbufsize\n\n\nclass WSGIRequestHandler(_RawRequestStream, BaseHTTPRequestHandler):\n")]},
    {"name": "unbuffered-on-one-platform", "expect": "R19.5", "edits": [(S, _HDOC, _HDOC + '\n    rbufsize = 0 if sys.platform == "win32" else -1\n')]},
    {"name": "unbuffered-set-in-setup", "expect": "R19.5", "edits": [_setup("self.rbufsize = False", "super().setup()")]},
    {"name": "unbuffered-set-by-server", "expect": "R19.5", "edits": [(S, _SRV_PROTO, _SRV_PROTO + "\n        handler.rbufsize = 0\n")]},
    {"name": "unbuffered-setattr-by-server", "expect": "R19.5", "edits": [(S, _SRV_PROTO, _SRV_PROTO + '\n        setattr(handler, "rbufsize", 0)\n')]},
    {"name": "unbuffered-derived-handler-namespace", "expect": "R19.5", "edits": [(S, _SRV_PROTO, _SRV_PROTO + '\n        handler = type("Handler", (handler,), {"rbufsize": 0})\n')]},
    {"name": "rfile-remade-unbuffered", "expect": "R19.5", "edits": [_setup("super().setup()", 'self.rfile = self.connection.makefile("rb", buffering=0)')]},
    {"name": "rfile-remade-unbuffered-local-size", "expect": "R19.5", "edits": [_setup("super().setup()", "size = 0", 'self.rfile = self.connection.makefile("rb", size)')]},
    {"name": "rfile-raw-socketio", "expect": "R19.5", "edits": [(S, _SUPER_HANDLE, '        self.rfile = socket.SocketIO(self.connection, "rb")\n' + _SUPER_HANDLE)]},
    {"name": "rfile-detached", "expect": "R19.5", "edits": [_setup("super().setup()", "self.rfile = self.rfile.detach()")]},
    {"name": "rfile-raw-attribute", "expect": "R19.5", "edits": [_setup("super().setup()", "buffered = self.rfile", "self.rfile = buffered.raw")]},
    {"name": "nonblocking-timeout-zero", "expect": "R19.5", "edits": [(S, _HDOC, _HDOC + "\n    timeout = 0\n")]},
    {"name": "nonblocking-set-in-handle", "expect": "R19.5", "edits": [(S, _SUPER_HANDLE, "        self.connection.setblocking(False)\n" + _SUPER_HANDLE)]},
    {"name": "nonblocking-settimeout-zero", "expect": "R19.5", "edits": [_setup("super().setup()", "self.request.settimeout(0.0)")]},
    {"name": "raw-stream-handed-to-application", "expect": "R19.4", "edits": [(S, '"wsgi.input": self.rfile,', '"wsgi.input": self.rfile.raw,')]},
]

TWINS = [
    {"name": "decision-in-predicate-helper", "edits": [(S, _DECISION, _DECISION_CALL), (S, _WRITE_DEF, _should_chunk())]},
    {"name": "decision-in-predicate-helper-respelled", "edits": [(S, _DECISION, _DECISION_CALL), (S, _WRITE_DEF, _should_chunk("code // 100 == 1 or code in (204, 304)"))]},
    {"name": "status-split-into-local", "edits": [(S, _SPLIT, '                status_parts = status_sent.split(None, 1)\n                if len(status_parts) == 2:\n                    code_str, msg = status_parts\n                else:\n                    code_str, msg = status_sent, ""\n')]},
    {"name": "status-first-element-of-local", "edits": [(S, _SPLIT, '                status_parts = status_sent.split(None, 1)\n                code_str = status_parts[0]\n                msg = status_parts[1] if len(status_parts) == 2 else ""\n')]},
    {"name": "default-buffering-restated", "edits": [(S, _HDOC, _HDOC + "\n    rbufsize = -1\n    wbufsize = 0\n")]},
    {"name": "buffer-size-named-from-io", "edits": [(S, _HDOC, _HDOC + "\n    rbufsize = io.DEFAULT_BUFFER_SIZE\n")]},
    {"name": "buffer-size-larger", "edits": [(S, _HCLS, "_READ_BUFFER = 64 * 1024\n\n\n" + _HCLS), (S, _HDOC, _HDOC + "\n    rbufsize = _READ_BUFFER\n")]},
    {"name": "setup-override-keeps-stream", "edits": [_setup("super().setup()", "self._t0 = None")]},
    {"name": "setup-override-explicit-base", "edits": [_setup("BaseHTTPRequestHandler.setup(self)", "self.connection.setblocking(True)")]},
    {"name": "rfile-remade-with-own-buffering", "edits": [_setup("super().setup()", 'self.rfile = self.connection.makefile("rb", self.rbufsize)')]},
    {"name": "rfile-rebuffered-explicitly", "edits": [_setup("super().setup()", "self.rfile = io.BufferedReader(self.rfile.detach())")]},
    {"name": "timeout-none-restated", "edits": [(S, _HDOC, _HDOC + "\n    timeout = None\n")]},
    {"name": "dechunker-attribute-named-rfile", "edits": [
        (S, "        self._rfile = rfile\n", "        self.rfile = rfile\n"),
        (S, 'line = self._rfile.readline().decode("latin1")', 'line = self.rfile.readline().decode("latin1")'),
        (S, "data = self._rfile.read(n)", "data = self.rfile.read(n)"),
        (S, "terminator = self._rfile.readline()", "terminator = self.rfile.readline()")]},
    {"name": "status-guard-respelled", "edits": [(S, _DECISION,
        "                if (\n"
        '                    "content-length" not in header_keys\n'
        '                    and not environ["REQUEST_METHOD"] == "HEAD"\n'
        "                    and code // 100 != 1\n"
        "                    and code != 204\n"
        "                    and not code == 304\n"
        '                    and self.protocol_version == "HTTP/1.1"\n'
        "                ):\n")]},
    {"name": "header-names-by-comprehension", "edits": [(S, "                header_keys = set()\n", "                header_keys = {name.lower() for name, _ in headers_sent}\n"), (S, "                    header_keys.add(key.lower())\n", "")]},
    {"name": "chunk-written-in-one-piece", "edits": [(S, _WRITE,
        "            if data:\n"
        "                if chunk_response:\n"
        '                    data = b"%x\\r\\n%b\\r\\n" % (len(data), data)\n'
        "\n"
        "                self.wfile.write(data)\n")]},
    {"name": "write-branches-split", "edits": [(S, _WRITE,
        "            if not data:\n"
        "                pass\n"
        "            elif chunk_response:\n"
        '                self.wfile.write(f"{len(data):x}\\r\\n".encode())\n'
        "                self.wfile.write(data)\n"
        '                self.wfile.write(b"\\r\\n")\n'
        "            else:\n"
        "                self.wfile.write(data)\n")]},
    {"name": "copy-branches-merged-correctly", "edits": [(S, _COPY,
        "                end = min(read + n, len(buf))\n"
        "                data = self._rfile.read(end - read)\n"
        "                if len(data) != end - read:\n"
        "                    raise OSError(\"Unexpected end of chunked data\")\n"
        "                buf[read:end] = data\n"
        "                self._len -= end - read\n"
        "                read = end\n")]},
    {"name": "copy-size-computed-first", "edits": [(S, _COPY,
        "                n = min(n, len(buf) - read)\n"
        "                data = self._rfile.read(n)\n"
        "                if len(data) < n:\n"
        "                    raise OSError(\"Unexpected end of chunked data\")\n"
        "                buf[read : read + n] = data\n"
        "                read += n\n"
        "                self._len -= n\n")]},
    {"name": "size-reader-early-return", "edits": [(S, '        if _len < 0:\n            raise OSError("Negative chunk length not allowed")\n        return _len\n', '        if _len >= 0:\n            return _len\n\n        raise OSError("Negative chunk length not allowed")\n')]},
    {"name": "size-handler-wider", "edits": [(S, "        except ValueError as e:\n            raise OSError(\"Invalid chunk header\") from e", "        except (ValueError, TypeError) as e:\n            raise OSError(\"Invalid chunk header\") from e")]},
    {"name": "terminators-as-set-flipped", "edits": [(S, '                if terminator not in (b"\\n", b"\\r\\n", b"\\r"):\n                    raise OSError("Missing chunk terminating newline")\n', '                if terminator in {b"\\r\\n", b"\\n", b"\\r"}:\n                    continue\n\n                raise OSError("Missing chunk terminating newline")\n')]},
    {"name": "residual-tests-respelled", "edits": [(S, "            if self._len > 0:\n", "            if self._len != 0:\n"), (S, "                self._len = self.read_chunk_len()\n\n            if self._len == 0:\n", "                self._len = self.read_chunk_len()\n\n            if not self._len:\n")]},
    {"name": "content-type-test-flipped", "edits": [(S, '            if key not in ("CONTENT_TYPE", "CONTENT_LENGTH"):\n                key = f"HTTP_{key}"\n                if key in environ:\n                    value = f"{environ[key]},{value}"\n', '            if key in {"CONTENT_LENGTH", "CONTENT_TYPE"}:\n                pass\n            else:\n                key = "HTTP_" + key\n                if key in environ:\n                    value = environ[key] + "," + value\n')]},
    {"name": "path-source-conditional-expression", "edits": [(S,
        '        if not request_url.scheme and request_url.netloc:\n            path_info = f"/{request_url.netloc}{request_url.path}"\n        else:\n            path_info = request_url.path\n',
        '        path_info = f"/{request_url.netloc}{request_url.path}" if not request_url.scheme and request_url.netloc else request_url.path\n')]},
    {"name": "terminator-test-respelled", "edits": [(S, '                if chunk_response:\n                    self.wfile.write(b"0\\r\\n\\r\\n")\n', '                if not chunk_response:\n                    pass\n                else:\n                    self.wfile.write(b"0\\r\\n\\r\\n")\n')]},
    {"name": "terminator-read-in-helper", "edits": [(S, _TERM, _TERM_CALL), (S, _READINTO, _term_helper('{b"\\r\\n", b"\\n", b"\\r"}'))]},
    {"name": "header-loop-restructured", "edits": [(S, _HDR_LOOP,
        "        for key, value in self.headers.items():\n"
        '            if "_" not in key:\n'
        '                name = key.upper().replace("-", "_")\n'
        '                value = value.replace("\\r\\n", "")\n'
        '                if name == "CONTENT_TYPE" or name == "CONTENT_LENGTH":\n'
        "                    environ[name] = value\n"
        "                    continue\n"
        '                name = "HTTP_" + name\n'
        "                earlier = environ.get(name)\n"
        '                environ[name] = value if earlier is None else ",".join([earlier, value])\n')]},
    {"name": "transfer-encoding-lookup-hoisted", "edits": [(S, _TE_TEST, '        coding = environ.get("HTTP_TRANSFER_ENCODING", "")\n        is_chunked = coding.strip().lower() == "chunked"\n\n        if is_chunked:\n')]},
    {"name": "header-latch-respelled", "edits": [(S, "            if status_sent is None:\n                status_sent = status_set", "            if not (status_sent is not None):\n                status_sent = status_set")]},
    {"name": "chunk-header-read-in-helper", "edits": [
        (S, "                self._len = self.read_chunk_len()\n\n" + _DONE, "                self._begin_chunk()\n\n"),
        (S, _READINTO, "    def _begin_chunk(self) -> None:\n        \"\"\"read the next chunk header\"\"\"\n        self._len = self.read_chunk_len()\n        if self._len == 0:\n            self._done = True\n\n" + _READINTO)]},
    {"name": "chunk-consumed-predicate", "edits": [
        (S, _TERM, _TERM.replace("            if self._len == 0:\n", "            if self._chunk_consumed():\n")),
        (S, _READINTO, "    def _chunk_consumed(self) -> bool:\n        return self._len == 0\n\n" + _READINTO)]},
    {"name": "url-components-unpacked", "edits": [
        (S, "        request_url = urlsplit(self.path)\n", "        request_url = urlsplit(self.path)\n        scheme, netloc, path, query, _ = request_url\n"),
        (S, '        if not request_url.scheme and request_url.netloc:\n            path_info = f"/{request_url.netloc}{request_url.path}"\n        else:\n            path_info = request_url.path\n\n        path_info = unquote(path_info)\n',
            '        if scheme or not netloc:\n            raw = path\n        else:\n            raw = "/" + netloc + path\n'),
        (S, '"PATH_INFO": _wsgi_encoding_dance(path_info),', '"PATH_INFO": _wsgi_encoding_dance(unquote(raw)),'),
        (S, '"QUERY_STRING": _wsgi_encoding_dance(request_url.query),', '"QUERY_STRING": _wsgi_encoding_dance(query),')]},
    {"name": "decision-with-hoisted-locals", "edits": [(S, _DECISION,
        '                method = environ["REQUEST_METHOD"]\n'
        "                status_class = code // 100\n"
        "                bodyless = status_class == 1 or code in (204, 304)\n"
        '                has_length = any(name.lower() == "content-length" for name, _ in headers_sent)\n'
        "                if (\n"
        '                    not (has_length or method == "HEAD" or bodyless)\n'
        '                    and self.protocol_version >= "HTTP/1.1"\n'
        "                ):\n")]},
    {"name": "status-split-by-partition", "edits": [(S, "                try:\n                    code_str, msg = status_sent.split(None, 1)\n                except ValueError:\n                    code_str, msg = status_sent, \"\"\n", '                code_str, _, msg = status_sent.partition(" ")\n')]},
]


# ---------------------------------------------------------------------
# round 3: restructurings of readinto / read_chunk_len / make_environ / run_wsgi that are accepted since the third
# robustness round (TWINS) and, per accepted shape, a change that breaks the property in that shape (MUTANTS)

_R3_OLD_1 = r'''    def readinto(self, buf: bytearray) -> int:  # type: ignore
        read = 0
        while not self._done and read < len(buf):
            if self._len == 0:
                # This is the first chunk or we fully consumed the previous
                # one. Read the next length of the next chunk
                self._len = self.read_chunk_len()

            if self._len == 0:
                # Found the final chunk of size 0. The stream is now exhausted,
                # but there is still a final newline that should be consumed
                self._done = True

            if self._len > 0:
                # There is data (left) in this chunk, so append it to the
                # buffer. If this operation fully consumes the chunk, this will
                # reset self._len to 0.
                n = min(len(buf), self._len)

                # If (read + chunk size) becomes more than len(buf), buf will
                # grow beyond the original size and read more data than
                # required. So only read as much data as can fit in buf.
                if read + n > len(buf):
                    n = len(buf) - read

                data = self._rfile.read(n)

                # A short read means the stream ended inside the chunk. Don't
                # splice it into buf, that would resize the caller's buffer.
                if len(data) != n:
                    raise OSError("Unexpected end of chunked data")

                buf[read : read + n] = data
                self._len -= n
                read += n

            if self._len == 0:
                # Skip the terminating newline of a chunk that has been fully
                # consumed. This also applies to the 0-sized final chunk
                terminator = self._rfile.readline()
                if terminator not in (b"\n", b"\r\n", b"\r"):
                    raise OSError("Missing chunk terminating newline")

        return read


'''
_R3_OLD_2 = r'''    def read_chunk_len(self) -> int:
        try:
            line = self._rfile.readline().decode("latin1")
            _len = int(line.strip(), 16)
        except ValueError as e:
            raise OSError("Invalid chunk header") from e
        if _len < 0:
            raise OSError("Negative chunk length not allowed")
        return _len
'''
_R3_OLD_3 = r'''        for key, value in self.headers.items():
            if "_" in key:
                continue

            key = key.upper().replace("-", "_")
            value = value.replace("\r\n", "")
            if key not in ("CONTENT_TYPE", "CONTENT_LENGTH"):
                key = f"HTTP_{key}"
                if key in environ:
                    value = f"{environ[key]},{value}"
            environ[key] = value

        if environ.get("HTTP_TRANSFER_ENCODING", "").strip().lower() == "chunked":
            environ["wsgi.input_terminated"] = True
            environ["wsgi.input"] = DechunkedInput(environ["wsgi.input"])

'''
_R3_OLD_4 = r'''        if not request_url.scheme and request_url.netloc:
            path_info = f"/{request_url.netloc}{request_url.path}"
        else:
            path_info = request_url.path

        path_info = unquote(path_info)
'''
_R3_OLD_5 = r'''        for key, value in self.headers.items():
            if "_" in key:
                continue

            key = key.upper().replace("-", "_")
            value = value.replace("\r\n", "")
            if key not in ("CONTENT_TYPE", "CONTENT_LENGTH"):
                key = f"HTTP_{key}"
                if key in environ:
                    value = f"{environ[key]},{value}"
            environ[key] = value

'''
_R3_OLD_6 = r'''            if data:
                if chunk_response:
                    self.wfile.write(hex(len(data))[2:].encode())
                    self.wfile.write(b"\r\n")

                self.wfile.write(data)

                if chunk_response:
                    self.wfile.write(b"\r\n")
'''
_R3_OLD_7 = r'''                for data in application_iter:
                    write(data)
                if not headers_sent:
                    write(b"")
                if chunk_response:
                    self.wfile.write(b"0\r\n\r\n")
'''
_R3_OLD_8 = r'''                if (
                    not (
                        "content-length" in header_keys
                        or environ["REQUEST_METHOD"] == "HEAD"
                        or (100 <= code < 200)
                        or code in {204, 304}
                    )
                    and self.protocol_version >= "HTTP/1.1"
                ):
'''

MUTANTS += [
    {"name": 'r3-size-not-minus-read', "expect": 'R19.3', "edits": [
        (S, _R3_OLD_1, r'''    def readinto(self, buf: bytearray) -> int:  # type: ignore
        size = len(buf)
        read = 0
        while not self._done and read < size:
            if self._len == 0:
                self._len = self.read_chunk_len()

            if self._len == 0:
                self._done = True

            if self._len > 0:
                n = min(size, self._len)
                data = self._rfile.read(n)
                if len(data) != n:
                    raise OSError("Unexpected end of chunked data")
                end = read + n
                buf[read:end] = data
                read = end
                self._len -= n
                if self._len > 0:
                    continue
            terminator = self._rfile.readline()
            if terminator not in (b"\n", b"\r\n", b"\r"):
                raise OSError("Missing chunk terminating newline")

        return read

'''),
    ]},
    {"name": 'r3-size-rebound-in-loop', "expect": 'R19.3', "edits": [
        (S, _R3_OLD_1, r'''    def readinto(self, buf: bytearray) -> int:  # type: ignore
        size = len(buf)
        read = 0
        while not self._done and read < size:
            if self._len == 0:
                self._len = self.read_chunk_len()

            if self._len == 0:
                self._done = True

            if self._len > 0:
                n = min(size - read, self._len)
                data = self._rfile.read(n)
                if len(data) != n:
                    raise OSError("Unexpected end of chunked data")
                end = read + n
                buf[read:end] = data
                read = end
                self._len -= n
                size = size + n
                if self._len > 0:
                    continue
            terminator = self._rfile.readline()
            if terminator not in (b"\n", b"\r\n", b"\r"):
                raise OSError("Missing chunk terminating newline")

        return read

'''),
    ]},
    {"name": 'r3-ifexp-max', "expect": 'R19.3', "edits": [
        (S, _R3_OLD_1, r'''    def readinto(self, buf: bytearray) -> int:  # type: ignore
        size = len(buf)
        read = 0
        while not self._done and read < size:
            if self._len == 0:
                self._len = self.read_chunk_len()

            if self._len == 0:
                self._done = True

            if self._len > 0:
                space = size - read
                n = self._len if self._len > space else space
                data = self._rfile.read(n)
                if len(data) != n:
                    raise OSError("Unexpected end of chunked data")
                buf[read : read + n] = data
                read, self._len = read + n, self._len - n

            if self._len == 0:
                terminator = self._rfile.readline()
                if terminator not in (b"\n", b"\r\n", b"\r"):
                    raise OSError("Missing chunk terminating newline")

        return read

'''),
    ]},
    {"name": 'r3-continue-when-consumed', "expect": 'R19.3', "edits": [
        (S, _R3_OLD_1, r'''    def readinto(self, buf: bytearray) -> int:  # type: ignore
        size = len(buf)
        read = 0
        while not self._done and read < size:
            if self._len == 0:
                self._len = self.read_chunk_len()

            if self._len == 0:
                self._done = True

            if self._len > 0:
                n = min(size - read, self._len)
                data = self._rfile.read(n)
                if len(data) != n:
                    raise OSError("Unexpected end of chunked data")
                end = read + n
                buf[read:end] = data
                read = end
                self._len -= n
                if self._len == 0:
                    continue
            terminator = self._rfile.readline()
            if terminator not in (b"\n", b"\r\n", b"\r"):
                raise OSError("Missing chunk terminating newline")

        return read

'''),
    ]},
    {"name": 'r3-tuple-swap', "expect": 'R19.3', "edits": [
        (S, _R3_OLD_1, r'''    def readinto(self, buf: bytearray) -> int:  # type: ignore
        read = 0
        while not self._done and read < len(buf):
            if self._len == 0:
                self._len = self.read_chunk_len()

            if self._len == 0:
                self._done = True

            if self._len > 0:
                n = min(len(buf) - read, self._len)
                data = self._rfile.read(n)
                if len(data) != n:
                    raise OSError("Unexpected end of chunked data")
                buf[read : read + n] = data
                read, self._len = self._len - n, read + n

            if self._len == 0:
                terminator = self._rfile.readline()
                if terminator not in (b"\n", b"\r\n", b"\r"):
                    raise OSError("Missing chunk terminating newline")

        return read

'''),
    ]},
    {"name": 'r3-remaining-residual-wrong', "expect": 'R19.3', "edits": [
        (S, _R3_OLD_1, r'''    def readinto(self, buf: bytearray) -> int:  # type: ignore
        read = 0
        while not self._done and read < len(buf):
            if self._len == 0:
                self._len = self.read_chunk_len()

            if self._len == 0:
                self._done = True

            if self._len > 0:
                n = min(len(buf) - read, self._len)
                remaining = self._len - n - 1
                data = self._rfile.read(n)
                if len(data) < n:
                    raise OSError("Unexpected end of chunked data")
                buf[read : read + n] = data
                self._len = remaining
                read += n

            if self._len == 0:
                terminator = self._rfile.readline()
                if terminator not in (b"\n", b"\r\n", b"\r"):
                    raise OSError("Missing chunk terminating newline")

        return read

'''),
    ]},
    {"name": 'r3-term-chain-or', "expect": 'R19.3', "edits": [
        (S, r'''                terminator = self._rfile.readline()
                if terminator not in (b"\n", b"\r\n", b"\r"):
                    raise OSError("Missing chunk terminating newline")
''', r'''                terminator = self._rfile.readline()
                if terminator != b"\r\n" or terminator != b"\n":
                    raise OSError("Missing chunk terminating newline")
'''),
    ]},
    {"name": 'r3-term-module-constant-eof', "expect": 'R19.3', "edits": [
        (S, r'''                terminator = self._rfile.readline()
                if terminator not in (b"\n", b"\r\n", b"\r"):
                    raise OSError("Missing chunk terminating newline")
''', r'''                terminator = self._rfile.readline()
                if terminator not in _CHUNK_TERMINATORS:
                    raise OSError("Missing chunk terminating newline")
'''),
        (S, 'class DechunkedInput(io.RawIOBase):\n', r'''_CHUNK_TERMINATORS = frozenset((b"\n", b"\r\n", b"\r", b""))


class DechunkedInput(io.RawIOBase):
'''),
    ]},
    {"name": 'r3-term-discarded', "expect": 'R19.3', "edits": [
        (S, r'''                terminator = self._rfile.readline()
                if terminator not in (b"\n", b"\r\n", b"\r"):
                    raise OSError("Missing chunk terminating newline")
''', '                self._rfile.readline()\n'),
    ]},
    {"name": 'r3-term-endswith', "expect": 'R19.3', "edits": [
        (S, r'''                terminator = self._rfile.readline()
                if terminator not in (b"\n", b"\r\n", b"\r"):
                    raise OSError("Missing chunk terminating newline")
''', r'''                terminator = self._rfile.readline()
                if not terminator.endswith(b"\n"):
                    raise OSError("Missing chunk terminating newline")
'''),
    ]},
    {"name": 'r3-neg-check-in-caller-too-late', "expect": 'R19.3', "edits": [
        (S, _R3_OLD_2, r'''    def read_chunk_len(self) -> int:
        try:
            line = self._rfile.readline().decode("latin1")
            return int(line.strip(), 16)
        except ValueError as e:
            raise OSError("Invalid chunk header") from e
'''),
        (S, r'''            if self._len == 0:
                # This is the first chunk or we fully consumed the previous
                # one. Read the next length of the next chunk
                self._len = self.read_chunk_len()
''', r'''            if self._len == 0:
                self._len = self.read_chunk_len()
                if self._len < -1:
                    raise OSError("Negative chunk length not allowed")
'''),
    ]},
    {"name": 'r3-conversion-in-caller-swallowed', "expect": 'R19.3', "edits": [
        (S, _R3_OLD_2, r'''    def read_chunk_len(self) -> int:
        line = self._rfile.readline().decode("latin1")
        _len = int(line.strip(), 16)
        if _len < 0:
            raise OSError("Negative chunk length not allowed")
        return _len
'''),
        (S, r'''            if self._len == 0:
                # This is the first chunk or we fully consumed the previous
                # one. Read the next length of the next chunk
                self._len = self.read_chunk_len()
''', r'''            if self._len == 0:
                try:
                    self._len = self.read_chunk_len()
                except ValueError as e:
                    break
'''),
    ]},
    {"name": 'r3-neg-check-nowhere', "expect": 'R19.3', "edits": [
        (S, _R3_OLD_2, r'''    def read_chunk_len(self) -> int:
        try:
            line = self._rfile.readline().decode("latin1")
            return int(line.strip(), 16)
        except ValueError as e:
            raise OSError("Invalid chunk header") from e
'''),
    ]},
    {"name": 'r3-sep-dict-join-tests-environ', "expect": 'R19.4', "edits": [
        (S, _R3_OLD_3, r'''        received = {}
        for key, value in self.headers.items():
            if "_" in key:
                continue

            key = key.upper().replace("-", "_")
            value = value.replace("\r\n", "")
            if key not in ("CONTENT_TYPE", "CONTENT_LENGTH"):
                key = f"HTTP_{key}"
                if key in environ:
                    value = f"{received[key]},{value}"
            received[key] = value

        environ.update(received)

        if environ.get("HTTP_TRANSFER_ENCODING", "").strip().lower() == "chunked":
            environ["wsgi.input_terminated"] = True
            environ["wsgi.input"] = DechunkedInput(environ["wsgi.input"])

'''),
    ]},
    {"name": 'r3-sep-dict-never-merged', "expect": 'R19.4', "edits": [
        (S, _R3_OLD_3, r'''        received = {}
        for key, value in self.headers.items():
            if "_" in key:
                continue

            key = key.upper().replace("-", "_")
            value = value.replace("\r\n", "")
            if key not in ("CONTENT_TYPE", "CONTENT_LENGTH"):
                key = f"HTTP_{key}"
                if key in received:
                    value = f"{received[key]},{value}"
            received[key] = value

        if environ.get("HTTP_TRANSFER_ENCODING", "").strip().lower() == "chunked":
            environ["wsgi.input_terminated"] = True
            environ["wsgi.input"] = DechunkedInput(environ["wsgi.input"])

'''),
    ]},
    {"name": 'r3-sep-dict-merged-conditionally', "expect": 'R19.4', "edits": [
        (S, _R3_OLD_3, r'''        received = {}
        for key, value in self.headers.items():
            if "_" in key:
                continue

            key = key.upper().replace("-", "_")
            value = value.replace("\r\n", "")
            if key not in ("CONTENT_TYPE", "CONTENT_LENGTH"):
                key = f"HTTP_{key}"
                if key in received:
                    value = f"{received[key]},{value}"
            received[key] = value

        if self.command != "GET":
            environ.update(received)

        if environ.get("HTTP_TRANSFER_ENCODING", "").strip().lower() == "chunked":
            environ["wsgi.input_terminated"] = True
            environ["wsgi.input"] = DechunkedInput(environ["wsgi.input"])

'''),
    ]},
    {"name": 'r3-sep-dict-merge-before-loop', "expect": 'R19.4', "edits": [
        (S, _R3_OLD_3, r'''        received = {}
        environ.update(received)
        for key, value in self.headers.items():
            if "_" in key:
                continue

            key = key.upper().replace("-", "_")
            value = value.replace("\r\n", "")
            if key not in ("CONTENT_TYPE", "CONTENT_LENGTH"):
                key = f"HTTP_{key}"
                if key in received:
                    value = f"{received[key]},{value}"
            received[key] = value

        if environ.get("HTTP_TRANSFER_ENCODING", "").strip().lower() == "chunked":
            environ["wsgi.input_terminated"] = True
            environ["wsgi.input"] = DechunkedInput(environ["wsgi.input"])

'''),
    ]},
    {"name": 'r3-sep-dict-te-lookup-before-merge', "expect": 'R19.4', "edits": [
        (S, _R3_OLD_3, r'''        received = {}
        for key, value in self.headers.items():
            if "_" in key:
                continue

            key = key.upper().replace("-", "_")
            value = value.replace("\r\n", "")
            if key not in ("CONTENT_TYPE", "CONTENT_LENGTH"):
                key = f"HTTP_{key}"
                if key in received:
                    value = f"{received[key]},{value}"
            received[key] = value

        if environ.get("HTTP_TRANSFER_ENCODING", "").strip().lower() == "chunked":
            environ["wsgi.input_terminated"] = True
            environ["wsgi.input"] = DechunkedInput(environ["wsgi.input"])

        environ.update(received)

'''),
    ]},
    {"name": 'r3-sep-dict-env-wins-clash', "expect": 'R19.4', "edits": [
        (S, _R3_OLD_3, r'''        received = {}
        for key, value in self.headers.items():
            if "_" in key:
                continue

            key = key.upper().replace("-", "_")
            value = value.replace("\r\n", "")
            if key not in ("CONTENT_TYPE", "CONTENT_LENGTH"):
                key = f"HTTP_{key}"
                if key in received:
                    value = f"{received[key]},{value}"
            received[key] = value

        environ = {**received, **environ}

        if environ.get("HTTP_TRANSFER_ENCODING", "").strip().lower() == "chunked":
            environ["wsgi.input_terminated"] = True
            environ["wsgi.input"] = DechunkedInput(environ["wsgi.input"])

'''),
        (S, '            "SCRIPT_NAME": "",\n', r'''            "SCRIPT_NAME": "",
            "CONTENT_TYPE": "",
'''),
    ]},
    {"name": 'r3-wrap-other-stream', "expect": 'R19.4', "edits": [
        (S, _R3_OLD_3, r'''        received = {}
        for key, value in self.headers.items():
            if "_" in key:
                continue

            key = key.upper().replace("-", "_")
            value = value.replace("\r\n", "")
            if key not in ("CONTENT_TYPE", "CONTENT_LENGTH"):
                key = f"HTTP_{key}"
                if key in received:
                    value = f"{received[key]},{value}"
            received[key] = value

        environ.update(received)

        if environ.get("HTTP_TRANSFER_ENCODING", "").strip().lower() == "chunked":
            environ["wsgi.input_terminated"] = True
            environ["wsgi.input"] = DechunkedInput(self.wfile)

'''),
    ]},
    {"name": 'r3-path-prefix-when-scheme', "expect": 'R19.4', "edits": [
        (S, _R3_OLD_4, r'''        prefix = ""
        if request_url.netloc:
            prefix = "/" + request_url.netloc
        path_info = unquote(prefix + request_url.path)
'''),
    ]},
    {"name": 'r3-path-hoisted-wrong-polarity', "expect": 'R19.4', "edits": [
        (S, _R3_OLD_4, r'''        has_scheme = bool(request_url.scheme)
        has_netloc = bool(request_url.netloc)
        if has_netloc and has_scheme:
            path_info = f"/{request_url.netloc}{request_url.path}"
        else:
            path_info = request_url.path

        path_info = unquote(path_info)
'''),
    ]},
    {"name": 'r3-path-no-slash', "expect": 'R19.4', "edits": [
        (S, _R3_OLD_4, r'''        segments = [request_url.path]
        if not request_url.scheme and request_url.netloc:
            segments = [request_url.netloc, request_url.path]
        path_info = unquote("".join(segments))
'''),
    ]},
    {"name": 'r3-wrap-two-ifs-differ', "expect": 'R19.4', "edits": [
        (S, r'''        if environ.get("HTTP_TRANSFER_ENCODING", "").strip().lower() == "chunked":
            environ["wsgi.input_terminated"] = True
            environ["wsgi.input"] = DechunkedInput(environ["wsgi.input"])
''', r'''        coding = environ.get("HTTP_TRANSFER_ENCODING", "").strip().lower()
        if coding == "chunked":
            environ["wsgi.input_terminated"] = True
        if coding:
            environ["wsgi.input"] = DechunkedInput(environ["wsgi.input"])
'''),
    ]},
    {"name": 'r3-entries-hoisted-unquoted-query', "expect": 'R19.4', "edits": [
        (S, '        environ: WSGIEnvironment = {\n', r'''        query_string = _wsgi_encoding_dance(unquote(request_url.query))
        environ: WSGIEnvironment = {
'''),
        (S, '"QUERY_STRING": _wsgi_encoding_dance(request_url.query),', '"QUERY_STRING": query_string,'),
    ]},
    {"name": 'r3-loop-key-helper-prefixes-content-length', "expect": 'R19.4', "edits": [
        (S, _R3_OLD_5, r'''        for key, value in self.headers.items():
            if "_" in key:
                continue

            key = _environ_key(key)
            value = value.replace("\r\n", "")
            if key.startswith("HTTP_") and key in environ:
                value = f"{environ[key]},{value}"
            environ[key] = value

'''),
        (S, 'class WSGIRequestHandler(BaseHTTPRequestHandler):\n', r'''def _environ_key(name: str) -> str:
    key = name.upper().replace("-", "_")
    if key == "CONTENT_TYPE":
        return key
    return f"HTTP_{key}"


class WSGIRequestHandler(BaseHTTPRequestHandler):
'''),
    ]},
    {"name": 'r3-loop-generator-filter-on-canonical', "expect": 'R19.4', "edits": [
        (S, _R3_OLD_5, r'''        for key, value in ((k.upper().replace("-", "_"), v) for k, v in self.headers.items()):
            if "_" in key:
                continue
            value = value.replace("\r\n", "")
            if key not in ("CONTENT_TYPE", "CONTENT_LENGTH"):
                key = f"HTTP_{key}"
                if key in environ:
                    value = f"{environ[key]},{value}"
            environ[key] = value

'''),
    ]},
    {"name": 'r3-loop-skip-helper-inverted', "expect": 'R19.4', "edits": [
        (S, _R3_OLD_5, r'''        for key, value in self.headers.items():
            if not self._skip_header(key):
                continue

            key = key.upper().replace("-", "_")
            value = value.replace("\r\n", "")
            if key not in ("CONTENT_TYPE", "CONTENT_LENGTH"):
                key = f"HTTP_{key}"
                if key in environ:
                    value = f"{environ[key]},{value}"
            environ[key] = value

'''),
        (S, '    def make_environ(self) -> WSGIEnvironment:\n', r'''    def _skip_header(self, name: str) -> bool:
        return "_" in name

    def make_environ(self) -> WSGIEnvironment:
'''),
    ]},
    {"name": 'r3-loop-splitlines', "expect": 'R19.4', "edits": [
        (S, _R3_OLD_5, r'''        for key, value in self.headers.items():
            if "_" in key:
                continue

            key = key.upper().replace("-", "_")
            value = "".join(value.splitlines())
            if key not in ("CONTENT_TYPE", "CONTENT_LENGTH"):
                key = f"HTTP_{key}"
                if key in environ:
                    value = f"{environ[key]},{value}"
            environ[key] = value

'''),
    ]},
    {"name": 'r3-cl-flag-loop-case', "expect": 'R19.1', "edits": [
        (S, r'''                header_keys = set()
                for key, value in headers_sent:
                    self.send_header(key, value)
                    header_keys.add(key.lower())
''', r'''                has_length = False
                for key, value in headers_sent:
                    self.send_header(key, value)
                    if key == "content-length":
                        has_length = True
'''),
        (S, '                        "content-length" in header_keys\n', '                        has_length\n'),
    ]},
    {"name": 'r3-cl-setcomp-values', "expect": 'R19.1', "edits": [
        (S, r'''                header_keys = set()
                for key, value in headers_sent:
                    self.send_header(key, value)
                    header_keys.add(key.lower())
''', r'''                for key, value in headers_sent:
                    self.send_header(key, value)
                header_keys = {value.lower() for key, value in headers_sent}
'''),
    ]},
    {"name": 'r3-cl-dictcomp-filtered', "expect": 'R19.1', "edits": [
        (S, r'''                header_keys = set()
                for key, value in headers_sent:
                    self.send_header(key, value)
                    header_keys.add(key.lower())
''', r'''                for key, value in headers_sent:
                    self.send_header(key, value)
                sent = {key.lower(): value for key, value in headers_sent if value}
'''),
        (S, '                        "content-length" in header_keys\n', '                        "content-length" in sent\n'),
    ]},
    {"name": 'r3-terminator-module-constant-short', "expect": 'R19.2', "edits": [
        (S, '                    self.wfile.write(b"0\\r\\n\\r\\n")\n', '                    self.wfile.write(_LAST_CHUNK)\n'),
        (S, 'class DechunkedInput(io.RawIOBase):\n', r'''_LAST_CHUNK = b"0\r\n"


class DechunkedInput(io.RawIOBase):
'''),
    ]},
    {"name": 'r3-start-response-tuple-swapped', "expect": 'R19.2', "edits": [
        (S, r'''            status_set = status
            headers_set = headers
            return write
''', r'''            status_set, headers_set = headers, status
            return write
'''),
    ]},
    {"name": 'r3-countdown-returns-free', "expect": 'R19.3', "edits": [
        (S, _R3_OLD_1, r'''    def readinto(self, buf: bytearray) -> int:  # type: ignore
        size = len(buf)
        free = size
        while not self._done and free > 0:
            if self._len == 0:
                self._len = self.read_chunk_len()

            if self._len == 0:
                self._done = True

            if self._len > 0:
                n = min(free, self._len)
                data = self._rfile.read(n)
                if len(data) != n:
                    raise OSError("Unexpected end of chunked data")
                start = size - free
                buf[start : start + n] = data
                self._len -= n
                free -= n

            if self._len == 0:
                terminator = self._rfile.readline()
                if terminator not in (b"\n", b"\r\n", b"\r"):
                    raise OSError("Missing chunk terminating newline")

        return free

'''),
    ]},
    {"name": 'r3-countdown-store-at-free', "expect": 'R19.3', "edits": [
        (S, _R3_OLD_1, r'''    def readinto(self, buf: bytearray) -> int:  # type: ignore
        size = len(buf)
        free = size
        while not self._done and free > 0:
            if self._len == 0:
                self._len = self.read_chunk_len()

            if self._len == 0:
                self._done = True

            if self._len > 0:
                n = min(free, self._len)
                data = self._rfile.read(n)
                if len(data) != n:
                    raise OSError("Unexpected end of chunked data")
                buf[free : free + n] = data
                self._len -= n
                free -= n

            if self._len == 0:
                terminator = self._rfile.readline()
                if terminator not in (b"\n", b"\r\n", b"\r"):
                    raise OSError("Missing chunk terminating newline")

        return size - free

'''),
    ]},
    {"name": 'r3-header-in-local-flag-on-one', "expect": 'R19.3', "edits": [
        (S, _R3_OLD_1, r'''    def readinto(self, buf: bytearray) -> int:  # type: ignore
        read = 0
        while not self._done and read < len(buf):
            if self._len == 0:
                size = self.read_chunk_len()
                if size == 1:
                    self._done = True
                self._len = size

            if self._len > 0:
                n = min(len(buf) - read, self._len)
                data = self._rfile.read(n)
                if len(data) != n:
                    raise OSError("Unexpected end of chunked data")
                buf[read : read + n] = data
                self._len -= n
                read += n

            if self._len == 0:
                terminator = self._rfile.readline()
                if terminator not in (b"\n", b"\r\n", b"\r"):
                    raise OSError("Missing chunk terminating newline")

        return read

'''),
    ]},
    {"name": 'r3-memoryview-store-at-start', "expect": 'R19.3', "edits": [
        (S, _R3_OLD_1, r'''    def readinto(self, buf: bytearray) -> int:  # type: ignore
        view = memoryview(buf)
        total = len(view)
        read = 0
        while not self._done and read < total:
            if self._len == 0:
                self._len = self.read_chunk_len()

            if self._len == 0:
                self._done = True

            if self._len > 0:
                n = min(total - read, self._len)
                if len(data := self._rfile.read(n)) != n:
                    raise OSError("Unexpected end of chunked data")
                view[:n] = data
                self._len -= n
                read += n

            if self._len == 0:
                terminator = self._rfile.readline()
                if terminator not in (b"\n", b"\r\n", b"\r"):
                    raise OSError("Missing chunk terminating newline")

        return read

'''),
    ]},
    {"name": 'r3-walrus-unchecked', "expect": 'R19.3', "edits": [
        (S, _R3_OLD_1, r'''    def readinto(self, buf: bytearray) -> int:  # type: ignore
        read = 0
        while not self._done and read < len(buf):
            if self._len == 0:
                self._len = self.read_chunk_len()

            if self._len == 0:
                self._done = True

            if self._len > 0:
                n = min(len(buf) - read, self._len)
                if not (data := self._rfile.read(n)):
                    raise OSError("Unexpected end of chunked data")
                buf[read : read + n] = data
                self._len -= n
                read += n

            if self._len == 0:
                terminator = self._rfile.readline()
                if terminator not in (b"\n", b"\r\n", b"\r"):
                    raise OSError("Missing chunk terminating newline")

        return read

'''),
    ]},
    {"name": 'r3-done-flag-expression-negated', "expect": 'R19.3', "edits": [
        (S, _R3_OLD_1, r'''    def readinto(self, buf: bytearray) -> int:  # type: ignore
        read = 0
        while not self._done and read < len(buf):
            if self._len == 0:
                self._len = self.read_chunk_len()
                self._done = self._len != 0

            if self._len > 0:
                n = min(len(buf) - read, self._len)
                data = self._rfile.read(n)
                if len(data) != n:
                    raise OSError("Unexpected end of chunked data")
                buf[read : read + n] = data
                self._len -= n
                read += n

            if self._len == 0:
                terminator = self._rfile.readline()
                if terminator not in (b"\n", b"\r\n", b"\r"):
                    raise OSError("Missing chunk terminating newline")

        return read

'''),
    ]},
    {"name": 'r3-wrap-presence-only', "expect": 'R19.4', "edits": [
        (S, r'''        if environ.get("HTTP_TRANSFER_ENCODING", "").strip().lower() == "chunked":
            environ["wsgi.input_terminated"] = True
            environ["wsgi.input"] = DechunkedInput(environ["wsgi.input"])
''', r'''        if "HTTP_TRANSFER_ENCODING" in environ:
            environ["wsgi.input_terminated"] = True
            environ["wsgi.input"] = DechunkedInput(environ["wsgi.input"])
'''),
    ]},
    {"name": 'r3-wrap-try-keyerror-default-chunked', "expect": 'R19.4', "edits": [
        (S, r'''        if environ.get("HTTP_TRANSFER_ENCODING", "").strip().lower() == "chunked":
            environ["wsgi.input_terminated"] = True
            environ["wsgi.input"] = DechunkedInput(environ["wsgi.input"])
''', r'''        try:
            transfer_encoding = environ["HTTP_TRANSFER_ENCODING"]
        except KeyError:
            transfer_encoding = "chunked"
        if transfer_encoding.strip().lower() == "chunked":
            environ["wsgi.input_terminated"] = True
            environ["wsgi.input"] = DechunkedInput(environ["wsgi.input"])
'''),
    ]},
    {"name": 'r3-wrap-update-dict-flag-false', "expect": 'R19.4', "edits": [
        (S, r'''        if environ.get("HTTP_TRANSFER_ENCODING", "").strip().lower() == "chunked":
            environ["wsgi.input_terminated"] = True
            environ["wsgi.input"] = DechunkedInput(environ["wsgi.input"])
''', r'''        if environ.get("HTTP_TRANSFER_ENCODING", "").strip().lower() == "chunked":
            environ.update({"wsgi.input_terminated": False, "wsgi.input": DechunkedInput(self.rfile)})
'''),
    ]},
    {"name": 'r3-entries-hoisted-method-default', "expect": 'R19.4', "edits": [
        (S, '        environ: WSGIEnvironment = {\n', r'''        method = self.command or "GET"
        environ: WSGIEnvironment = {
'''),
        (S, '"REQUEST_METHOD": self.command,', '"REQUEST_METHOD": method,'),
    ]},
    {"name": 'r3-header-loop-star-keys-from-values', "expect": 'R19.1', "edits": [
        (S, r'''                for key, value in headers_sent:
                    self.send_header(key, value)
                    header_keys.add(key.lower())
''', r'''                for header in headers_sent:
                    self.send_header(*header)
                    header_keys.add(header[1].lower())
'''),
    ]},
    {"name": 'r3-header-loop-index-swapped', "expect": 'R19.2', "edits": [
        (S, r'''                for key, value in headers_sent:
                    self.send_header(key, value)
                    header_keys.add(key.lower())
''', r'''                for header in headers_sent:
                    self.send_header(header[1], header[0])
                    header_keys.add(header[0].lower())
'''),
    ]},
    {"name": 'r3-decision-module-constants-204-only', "expect": 'R19.1', "edits": [
        (S, _R3_OLD_8, r'''                if (
                    "content-length" not in header_keys
                    and environ["REQUEST_METHOD"] != "HEAD"
                    and not (100 <= code < 200)
                    and code not in _BODYLESS_STATUS
                    and self.protocol_version >= "HTTP/1.1"
                ):
'''),
        (S, 'class DechunkedInput(io.RawIOBase):\n', r'''_BODYLESS_STATUS = frozenset({204})


class DechunkedInput(io.RawIOBase):
'''),
    ]},
    {"name": 'r3-write-frame-list-no-trailing-crlf', "expect": 'R19.2', "edits": [
        (S, _R3_OLD_6, r'''            if data:
                pieces = [data]
                if chunk_response:
                    pieces = [hex(len(data))[2:].encode(), b"\r\n", data]
                self.wfile.write(b"".join(pieces))
'''),
    ]},
    {"name": 'r3-write-guard-clause-size-before', "expect": 'R19.2', "edits": [
        (S, _R3_OLD_6, r'''            if chunk_response:
                self.wfile.write(hex(len(data))[2:].encode())
                self.wfile.write(b"\r\n")

            if not data:
                self.wfile.flush()
                return

            self.wfile.write(data)

            if chunk_response:
                self.wfile.write(b"\r\n")
'''),
    ]},
    {"name": 'r3-status-int-of-subscript-second', "expect": 'R19.2', "edits": [
        (S, r'''                try:
                    code_str, msg = status_sent.split(None, 1)
                except ValueError:
                    code_str, msg = status_sent, ""
                code = int(code_str)
''', r'''                parts = status_sent.split(None, 1)
                code = int(parts[1])
                msg = parts[0] if len(parts) > 1 else ""
'''),
    ]},
]

TWINS += [
    {"name": 'r3-space-local-ifexp-min', "edits": [
        (S, _R3_OLD_1, r'''    def readinto(self, buf: bytearray) -> int:  # type: ignore
        size = len(buf)
        read = 0
        while not self._done and read < size:
            if self._len == 0:
                self._len = self.read_chunk_len()

            if self._len == 0:
                self._done = True

            if self._len > 0:
                space = size - read
                n = self._len if self._len < space else space
                data = self._rfile.read(n)
                if len(data) != n:
                    raise OSError("Unexpected end of chunked data")
                buf[read : read + n] = data
                read, self._len = read + n, self._len - n

            if self._len == 0:
                terminator = self._rfile.readline()
                if terminator not in (b"\n", b"\r\n", b"\r"):
                    raise OSError("Missing chunk terminating newline")

        return read

'''),
    ]},
    {"name": 'r3-ifexp-min-flipped', "edits": [
        (S, _R3_OLD_1, r'''    def readinto(self, buf: bytearray) -> int:  # type: ignore
        read = 0
        while not self._done and read < len(buf):
            if self._len == 0:
                self._len = self.read_chunk_len()

            if self._len == 0:
                self._done = True

            if self._len > 0:
                room = len(buf) - read
                n = room if not (self._len <= room) else self._len
                data = self._rfile.read(n)
                if len(data) != n:
                    raise OSError("Unexpected end of chunked data")
                buf[read : read + n] = data
                self._len = self._len - n
                read = read + n

            if self._len == 0:
                terminator = self._rfile.readline()
                if terminator not in (b"\n", b"\r\n", b"\r"):
                    raise OSError("Missing chunk terminating newline")

        return read

'''),
    ]},
    {"name": 'r3-memoryview-alias-walrus', "edits": [
        (S, _R3_OLD_1, r'''    def readinto(self, buf: bytearray) -> int:  # type: ignore
        view = memoryview(buf)
        total = len(view)
        read = 0
        while not self._done and read < total:
            if self._len == 0:
                self._len = self.read_chunk_len()

            if self._len == 0:
                self._done = True

            if self._len > 0:
                n = min(total - read, self._len)
                if len(data := self._rfile.read(n)) != n:
                    raise OSError("Unexpected end of chunked data")
                view[read : read + n] = data
                self._len -= n
                read += n

            if self._len == 0:
                terminator = self._rfile.readline()
                if terminator not in (b"\n", b"\r\n", b"\r"):
                    raise OSError("Missing chunk terminating newline")

        return read

'''),
    ]},
    {"name": 'r3-while-true-break', "edits": [
        (S, _R3_OLD_1, r'''    def readinto(self, buf: bytearray) -> int:  # type: ignore
        size = len(buf)
        read = 0
        while True:
            if self._done or read >= size:
                break
            if self._len == 0:
                self._len = self.read_chunk_len()

            if self._len == 0:
                self._done = True

            if self._len > 0:
                n = min(size - read, self._len)
                data = self._rfile.read(n)
                got = len(data)
                if got != n:
                    raise OSError("Unexpected end of chunked data")
                buf[read : read + got] = data
                self._len -= got
                read += got

            if self._len == 0:
                terminator = self._rfile.readline()
                if terminator not in (b"\n", b"\r\n", b"\r"):
                    raise OSError("Missing chunk terminating newline")

        return read

'''),
    ]},
    {"name": 'r3-while-true-return', "edits": [
        (S, _R3_OLD_1, r'''    def readinto(self, buf: bytearray) -> int:  # type: ignore
        read = 0
        while True:
            if self._done:
                return read
            if not read < len(buf):
                return read
            if self._len == 0:
                self._len = self.read_chunk_len()

            if self._len == 0:
                self._done = True

            if self._len > 0:
                n = min(len(buf), self._len)
                if read + n > len(buf):
                    n = len(buf) - read
                data = self._rfile.read(n)
                if len(data) != n:
                    raise OSError("Unexpected end of chunked data")
                buf[read : read + n] = data
                self._len -= n
                read += n

            if self._len == 0:
                terminator = self._rfile.readline()
                if terminator not in (b"\n", b"\r\n", b"\r"):
                    raise OSError("Missing chunk terminating newline")


'''),
    ]},
    {"name": 'r3-remaining-local-residual-assign', "edits": [
        (S, _R3_OLD_1, r'''    def readinto(self, buf: bytearray) -> int:  # type: ignore
        read = 0
        while not self._done and read < len(buf):
            if self._len == 0:
                self._len = self.read_chunk_len()

            if self._len == 0:
                self._done = True

            if self._len > 0:
                n = min(len(buf) - read, self._len)
                remaining = self._len - n
                data = self._rfile.read(n)
                if len(data) < n:
                    raise OSError("Unexpected end of chunked data")
                buf[read : read + n] = data
                self._len = remaining
                read += n

            if self._len == 0:
                terminator = self._rfile.readline()
                if terminator not in (b"\n", b"\r\n", b"\r"):
                    raise OSError("Missing chunk terminating newline")

        return read

'''),
    ]},
    {"name": 'r3-decrement-before-store', "edits": [
        (S, _R3_OLD_1, r'''    def readinto(self, buf: bytearray) -> int:  # type: ignore
        read = 0
        while not self._done and read < len(buf):
            if self._len == 0:
                self._len = self.read_chunk_len()

            if self._len == 0:
                self._done = True

            if self._len > 0:
                n = min(len(buf) - read, self._len)
                data = self._rfile.read(n)
                self._len -= n
                if len(data) != n:
                    raise OSError("Unexpected end of chunked data")
                buf[read : read + n] = data
                read += n

            if self._len == 0:
                terminator = self._rfile.readline()
                if terminator not in (b"\n", b"\r\n", b"\r"):
                    raise OSError("Missing chunk terminating newline")

        return read

'''),
    ]},
    {"name": 'r3-bytes-wrapper', "edits": [
        (S, _R3_OLD_1, r'''    def readinto(self, buf: bytearray) -> int:  # type: ignore
        read = 0
        while not self._done and read < len(buf):
            if self._len == 0:
                self._len = self.read_chunk_len()

            if self._len == 0:
                self._done = True

            if self._len > 0:
                n = min(len(buf) - read, self._len)
                data = bytes(self._rfile.read(n))
                if len(data) != n:
                    raise OSError("Unexpected end of chunked data")
                buf[read : read + n] = data
                self._len -= n
                read += n

            if self._len == 0:
                terminator = self._rfile.readline()
                if terminator not in (b"\n", b"\r\n", b"\r"):
                    raise OSError("Missing chunk terminating newline")

        return read

'''),
    ]},
    {"name": 'r3-header-in-local', "edits": [
        (S, _R3_OLD_1, r'''    def readinto(self, buf: bytearray) -> int:  # type: ignore
        read = 0
        while not self._done and read < len(buf):
            if self._len == 0:
                size = self.read_chunk_len()
                if size == 0:
                    self._done = True
                self._len = size

            if self._len > 0:
                n = min(len(buf) - read, self._len)
                data = self._rfile.read(n)
                if len(data) != n:
                    raise OSError("Unexpected end of chunked data")
                buf[read : read + n] = data
                self._len -= n
                read += n

            if self._len == 0:
                terminator = self._rfile.readline()
                if terminator not in (b"\n", b"\r\n", b"\r"):
                    raise OSError("Missing chunk terminating newline")

        return read

'''),
    ]},
    {"name": 'r3-if-elif-structure', "edits": [
        (S, _R3_OLD_1, r'''    def readinto(self, buf: bytearray) -> int:  # type: ignore
        read = 0
        while not self._done and read < len(buf):
            if self._len == 0:
                self._len = self.read_chunk_len()
                if self._len == 0:
                    self._done = True

            if self._len > 0:
                n = min(len(buf) - read, self._len)
                data = self._rfile.read(n)
                if len(data) != n:
                    raise OSError("Unexpected end of chunked data")
                buf[read : read + n] = data
                self._len -= n
                read += n
                if self._len:
                    continue

            if self._rfile.readline() not in (b"\n", b"\r\n", b"\r"):
                raise OSError("Missing chunk terminating newline")

        return read

'''),
    ]},
    {"name": 'r3-free-space-countdown', "edits": [
        (S, _R3_OLD_1, r'''    def readinto(self, buf: bytearray) -> int:  # type: ignore
        size = len(buf)
        free = size
        while not self._done and free > 0:
            if self._len == 0:
                self._len = self.read_chunk_len()

            if self._len == 0:
                self._done = True

            if self._len > 0:
                n = min(free, self._len)
                data = self._rfile.read(n)
                if len(data) != n:
                    raise OSError("Unexpected end of chunked data")
                start = size - free
                buf[start : start + n] = data
                self._len -= n
                free -= n

            if self._len == 0:
                terminator = self._rfile.readline()
                if terminator not in (b"\n", b"\r\n", b"\r"):
                    raise OSError("Missing chunk terminating newline")

        return size - free

'''),
    ]},
    {"name": 'r3-term-neq-chain', "edits": [
        (S, r'''                terminator = self._rfile.readline()
                if terminator not in (b"\n", b"\r\n", b"\r"):
                    raise OSError("Missing chunk terminating newline")
''', r'''                terminator = self._rfile.readline()
                if terminator != b"\r\n" and terminator != b"\n" and terminator != b"\r":
                    raise OSError("Missing chunk terminating newline")
'''),
    ]},
    {"name": 'r3-term-eq-chain-pass', "edits": [
        (S, r'''                terminator = self._rfile.readline()
                if terminator not in (b"\n", b"\r\n", b"\r"):
                    raise OSError("Missing chunk terminating newline")
''', r'''                terminator = self._rfile.readline()
                if terminator == b"\r\n" or terminator == b"\n" or terminator == b"\r":
                    continue
                raise OSError("Missing chunk terminating newline")
'''),
    ]},
    {"name": 'r3-term-module-constant', "edits": [
        (S, r'''                terminator = self._rfile.readline()
                if terminator not in (b"\n", b"\r\n", b"\r"):
                    raise OSError("Missing chunk terminating newline")
''', r'''                terminator = self._rfile.readline()
                if terminator not in _CHUNK_TERMINATORS:
                    raise OSError("Missing chunk terminating newline")
'''),
        (S, 'class DechunkedInput(io.RawIOBase):\n', r'''_CHUNK_TERMINATORS = frozenset((b"\n", b"\r\n", b"\r"))


class DechunkedInput(io.RawIOBase):
'''),
    ]},
    {"name": 'r3-term-walrus', "edits": [
        (S, r'''                terminator = self._rfile.readline()
                if terminator not in (b"\n", b"\r\n", b"\r"):
                    raise OSError("Missing chunk terminating newline")
''', r'''                if (terminator := self._rfile.readline()) not in {b"\n", b"\r\n", b"\r"}:
                    raise OSError("Missing chunk terminating newline")
'''),
    ]},
    {"name": 'r3-term-inline-call', "edits": [
        (S, r'''                terminator = self._rfile.readline()
                if terminator not in (b"\n", b"\r\n", b"\r"):
                    raise OSError("Missing chunk terminating newline")
''', r'''                if self._rfile.readline() not in [b"\n", b"\r\n", b"\r"]:
                    raise OSError("Missing chunk terminating newline")
'''),
    ]},
    {"name": 'r3-neg-check-in-caller', "edits": [
        (S, _R3_OLD_2, r'''    def read_chunk_len(self) -> int:
        try:
            line = self._rfile.readline().decode("latin1")
            return int(line.strip(), 16)
        except ValueError as e:
            raise OSError("Invalid chunk header") from e
'''),
        (S, r'''            if self._len == 0:
                # This is the first chunk or we fully consumed the previous
                # one. Read the next length of the next chunk
                self._len = self.read_chunk_len()
''', r'''            if self._len == 0:
                self._len = self.read_chunk_len()
                if self._len < 0:
                    raise OSError("Negative chunk length not allowed")
'''),
    ]},
    {"name": 'r3-neg-check-in-caller-local', "edits": [
        (S, _R3_OLD_2, r'''    def read_chunk_len(self) -> int:
        try:
            line = self._rfile.readline().decode("latin1")
            _len = int(line.strip(), 16)
        except ValueError as e:
            raise OSError("Invalid chunk header") from e
        return _len
'''),
        (S, r'''            if self._len == 0:
                # This is the first chunk or we fully consumed the previous
                # one. Read the next length of the next chunk
                self._len = self.read_chunk_len()
''', r'''            if self._len == 0:
                size = self.read_chunk_len()
                if size < 0:
                    raise OSError("Negative chunk length not allowed")
                self._len = size
'''),
    ]},
    {"name": 'r3-conversion-in-caller', "edits": [
        (S, _R3_OLD_2, r'''    def read_chunk_len(self) -> int:
        line = self._rfile.readline().decode("latin1")
        _len = int(line.strip(), 16)
        if _len < 0:
            raise OSError("Negative chunk length not allowed")
        return _len
'''),
        (S, r'''            if self._len == 0:
                # This is the first chunk or we fully consumed the previous
                # one. Read the next length of the next chunk
                self._len = self.read_chunk_len()
''', r'''            if self._len == 0:
                try:
                    self._len = self.read_chunk_len()
                except ValueError as e:
                    raise OSError("Invalid chunk header") from e
'''),
    ]},
    {"name": 'r3-sep-dict-update', "edits": [
        (S, _R3_OLD_3, r'''        received: dict[str, str] = {}
        for key, value in self.headers.items():
            if "_" in key:
                continue

            key = key.upper().replace("-", "_")
            value = value.replace("\r\n", "")
            if key not in ("CONTENT_TYPE", "CONTENT_LENGTH"):
                key = f"HTTP_{key}"
                if key in received:
                    value = f"{received[key]},{value}"
            received[key] = value

        environ.update(received)

        if environ.get("HTTP_TRANSFER_ENCODING", "").strip().lower() == "chunked":
            environ["wsgi.input_terminated"] = True
            environ["wsgi.input"] = DechunkedInput(environ["wsgi.input"])

'''),
    ]},
    {"name": 'r3-sep-dict-ior', "edits": [
        (S, _R3_OLD_3, r'''        received = dict()
        for key, value in self.headers.items():
            if "_" in key:
                continue

            key = key.upper().replace("-", "_")
            value = value.replace("\r\n", "")
            if key not in ("CONTENT_TYPE", "CONTENT_LENGTH"):
                key = f"HTTP_{key}"
                if key in received:
                    value = f"{received[key]},{value}"
            received[key] = value

        environ |= received

        if environ.get("HTTP_TRANSFER_ENCODING", "").strip().lower() == "chunked":
            environ["wsgi.input_terminated"] = True
            environ["wsgi.input"] = DechunkedInput(environ["wsgi.input"])

'''),
    ]},
    {"name": 'r3-sep-dict-rebuild', "edits": [
        (S, _R3_OLD_3, r'''        received = {}
        for key, value in self.headers.items():
            if "_" in key:
                continue

            key = key.upper().replace("-", "_")
            value = value.replace("\r\n", "")
            if key not in ("CONTENT_TYPE", "CONTENT_LENGTH"):
                key = f"HTTP_{key}"
                if key in received:
                    value = f"{received[key]},{value}"
            received[key] = value

        environ = {**environ, **received}

        if environ.get("HTTP_TRANSFER_ENCODING", "").strip().lower() == "chunked":
            environ["wsgi.input_terminated"] = True
            environ["wsgi.input"] = DechunkedInput(environ["wsgi.input"])

'''),
    ]},
    {"name": 'r3-sep-dict-or', "edits": [
        (S, _R3_OLD_3, r'''        received = {}
        for key, value in self.headers.items():
            if "_" in key:
                continue

            key = key.upper().replace("-", "_")
            value = value.replace("\r\n", "")
            if key not in ("CONTENT_TYPE", "CONTENT_LENGTH"):
                key = f"HTTP_{key}"
                if key in received:
                    value = f"{received[key]},{value}"
            received[key] = value

        environ = environ | received

        if environ.get("HTTP_TRANSFER_ENCODING", "").strip().lower() == "chunked":
            environ["wsgi.input_terminated"] = True
            environ["wsgi.input"] = DechunkedInput(environ["wsgi.input"])

'''),
    ]},
    {"name": 'r3-sep-dict-env-wins-no-clash', "edits": [
        (S, _R3_OLD_3, r'''        received = {}
        for key, value in self.headers.items():
            if "_" in key:
                continue

            key = key.upper().replace("-", "_")
            value = value.replace("\r\n", "")
            if key not in ("CONTENT_TYPE", "CONTENT_LENGTH"):
                key = f"HTTP_{key}"
                if key in received:
                    value = f"{received[key]},{value}"
            received[key] = value

        environ = {**received, **environ}

        if environ.get("HTTP_TRANSFER_ENCODING", "").strip().lower() == "chunked":
            environ["wsgi.input_terminated"] = True
            environ["wsgi.input"] = DechunkedInput(environ["wsgi.input"])

'''),
    ]},
    {"name": 'r3-sep-dict-te-from-received', "edits": [
        (S, _R3_OLD_3, r'''        received = {}
        for key, value in self.headers.items():
            if "_" in key:
                continue

            key = key.upper().replace("-", "_")
            value = value.replace("\r\n", "")
            if key not in ("CONTENT_TYPE", "CONTENT_LENGTH"):
                key = f"HTTP_{key}"
                if key in received:
                    value = f"{received[key]},{value}"
            received[key] = value

        environ.update(received)
        chunked = received.get("HTTP_TRANSFER_ENCODING", "").strip().lower() == "chunked"

        if chunked:
            stream = self.rfile
            environ["wsgi.input_terminated"] = True
            environ["wsgi.input"] = DechunkedInput(stream)

'''),
    ]},
    {"name": 'r3-sep-dict-update-kwargs', "edits": [
        (S, _R3_OLD_3, r'''        received = {}
        for key, value in self.headers.items():
            if "_" in key:
                continue

            key = key.upper().replace("-", "_")
            value = value.replace("\r\n", "")
            if key not in ("CONTENT_TYPE", "CONTENT_LENGTH"):
                key = f"HTTP_{key}"
                if key in received:
                    value = f"{received[key]},{value}"
            received[key] = value

        environ.update(**received)

        if environ.get("HTTP_TRANSFER_ENCODING", "").strip().lower() == "chunked":
            environ["wsgi.input_terminated"] = True
            environ["wsgi.input"] = DechunkedInput(environ["wsgi.input"])

'''),
    ]},
    {"name": 'r3-sep-dict-get-join', "edits": [
        (S, _R3_OLD_3, r'''        received = {}
        for name, value in self.headers.items():
            if "_" in name:
                continue
            key = name.upper().replace("-", "_")
            value = value.replace("\r\n", "")
            if key in ("CONTENT_TYPE", "CONTENT_LENGTH"):
                received[key] = value
                continue
            key = "HTTP_" + key
            earlier = received.get(key)
            received[key] = value if earlier is None else f"{earlier},{value}"

        environ.update(received)

        if environ.get("HTTP_TRANSFER_ENCODING", "").strip().lower() == "chunked":
            environ["wsgi.input_terminated"] = True
            environ["wsgi.input"] = DechunkedInput(environ["wsgi.input"])

'''),
    ]},
    {"name": 'r3-literal-after-loop-splice', "edits": [
        (S, _R3_OLD_3, r'''        if environ.get("HTTP_TRANSFER_ENCODING", "").strip().lower() == "chunked":
            environ["wsgi.input_terminated"] = True
            environ["wsgi.input"] = DechunkedInput(environ["wsgi.input"])

'''),
        (S, '        environ: WSGIEnvironment = {\n', r'''        received = {}
        for key, value in self.headers.items():
            if "_" in key:
                continue

            key = key.upper().replace("-", "_")
            value = value.replace("\r\n", "")
            if key not in ("CONTENT_TYPE", "CONTENT_LENGTH"):
                key = f"HTTP_{key}"
                if key in received:
                    value = f"{received[key]},{value}"
            received[key] = value

        environ: WSGIEnvironment = {
'''),
        (S, r'''            "SERVER_PROTOCOL": self.request_version,
        }
''', r'''            "SERVER_PROTOCOL": self.request_version,
            **received,
        }
'''),
    ]},
    {"name": 'r3-path-hoisted-booleans', "edits": [
        (S, _R3_OLD_4, r'''        has_scheme = bool(request_url.scheme)
        has_netloc = bool(request_url.netloc)
        if has_netloc and not has_scheme:
            path_info = f"/{request_url.netloc}{request_url.path}"
        else:
            path_info = request_url.path

        path_info = unquote(path_info)
'''),
    ]},
    {"name": 'r3-path-prefix-local', "edits": [
        (S, _R3_OLD_4, r'''        prefix = ""
        if request_url.netloc and not request_url.scheme:
            prefix = "/" + request_url.netloc
        path_info = unquote(prefix + request_url.path)
'''),
    ]},
    {"name": 'r3-path-prefix-ifexp', "edits": [
        (S, _R3_OLD_4, r'''        prefix = f"/{request_url.netloc}" if (request_url.netloc and not request_url.scheme) else ""
        path_info = unquote(f"{prefix}{request_url.path}")
'''),
    ]},
    {"name": 'r3-path-join-list', "edits": [
        (S, _R3_OLD_4, r'''        segments = [request_url.path]
        if not request_url.scheme and request_url.netloc:
            segments = ["/", request_url.netloc, request_url.path]
        path_info = unquote("".join(segments))
'''),
    ]},
    {"name": 'r3-path-unquote-per-branch', "edits": [
        (S, _R3_OLD_4, r'''        if request_url.scheme or not request_url.netloc:
            path_info = unquote(request_url.path)
        else:
            path_info = unquote("/" + request_url.netloc + request_url.path)
'''),
    ]},
    {"name": 'r3-path-compare-empty', "edits": [
        (S, _R3_OLD_4, r'''        if request_url.scheme == "" and request_url.netloc != "":
            path_info = f"/{request_url.netloc}{request_url.path}"
        else:
            path_info = request_url.path

        path_info = unquote(path_info)
'''),
    ]},
    {"name": 'r3-entries-hoisted', "edits": [
        (S, '        environ: WSGIEnvironment = {\n', r'''        method = self.command
        stream = self.rfile
        query_string = _wsgi_encoding_dance(request_url.query)
        decoded_path = _wsgi_encoding_dance(path_info)
        environ: WSGIEnvironment = {
'''),
        (S, '"REQUEST_METHOD": self.command,', '"REQUEST_METHOD": method,'),
        (S, '"wsgi.input": self.rfile,', '"wsgi.input": stream,'),
        (S, '"QUERY_STRING": _wsgi_encoding_dance(request_url.query),', '"QUERY_STRING": query_string,'),
        (S, '"PATH_INFO": _wsgi_encoding_dance(path_info),', '"PATH_INFO": decoded_path,'),
    ]},
    {"name": 'r3-wrap-two-ifs', "edits": [
        (S, r'''        if environ.get("HTTP_TRANSFER_ENCODING", "").strip().lower() == "chunked":
            environ["wsgi.input_terminated"] = True
            environ["wsgi.input"] = DechunkedInput(environ["wsgi.input"])
''', r'''        chunked = environ.get("HTTP_TRANSFER_ENCODING", "").strip().lower() == "chunked"
        if chunked:
            environ["wsgi.input_terminated"] = True
        if chunked:
            environ["wsgi.input"] = DechunkedInput(environ["wsgi.input"])
'''),
    ]},
    {"name": 'r3-wrap-update-dict', "edits": [
        (S, r'''        if environ.get("HTTP_TRANSFER_ENCODING", "").strip().lower() == "chunked":
            environ["wsgi.input_terminated"] = True
            environ["wsgi.input"] = DechunkedInput(environ["wsgi.input"])
''', r'''        if environ.get("HTTP_TRANSFER_ENCODING", "").strip().lower() == "chunked":
            environ.update({"wsgi.input_terminated": True, "wsgi.input": DechunkedInput(self.rfile)})
'''),
    ]},
    {"name": 'r3-wrap-tuple-assign', "edits": [
        (S, r'''        if environ.get("HTTP_TRANSFER_ENCODING", "").strip().lower() == "chunked":
            environ["wsgi.input_terminated"] = True
            environ["wsgi.input"] = DechunkedInput(environ["wsgi.input"])
''', r'''        if environ.get("HTTP_TRANSFER_ENCODING", "").strip().lower() == "chunked":
            environ["wsgi.input_terminated"], environ["wsgi.input"] = True, DechunkedInput(self.rfile)
'''),
    ]},
    {"name": 'r3-wrap-local-stream', "edits": [
        (S, r'''        if environ.get("HTTP_TRANSFER_ENCODING", "").strip().lower() == "chunked":
            environ["wsgi.input_terminated"] = True
            environ["wsgi.input"] = DechunkedInput(environ["wsgi.input"])
''', r'''        if environ.get("HTTP_TRANSFER_ENCODING", "").strip().lower() == "chunked":
            dechunked = DechunkedInput(environ["wsgi.input"])
            environ["wsgi.input"] = dechunked
            environ["wsgi.input_terminated"] = True
'''),
    ]},
    {"name": 'r3-wrap-presence-test', "edits": [
        (S, r'''        if environ.get("HTTP_TRANSFER_ENCODING", "").strip().lower() == "chunked":
            environ["wsgi.input_terminated"] = True
            environ["wsgi.input"] = DechunkedInput(environ["wsgi.input"])
''', r'''        if "HTTP_TRANSFER_ENCODING" in environ and environ["HTTP_TRANSFER_ENCODING"].strip().lower() == "chunked":
            environ["wsgi.input_terminated"] = True
            environ["wsgi.input"] = DechunkedInput(environ["wsgi.input"])
'''),
    ]},
    {"name": 'r3-wrap-try-keyerror', "edits": [
        (S, r'''        if environ.get("HTTP_TRANSFER_ENCODING", "").strip().lower() == "chunked":
            environ["wsgi.input_terminated"] = True
            environ["wsgi.input"] = DechunkedInput(environ["wsgi.input"])
''', r'''        try:
            transfer_encoding = environ["HTTP_TRANSFER_ENCODING"]
        except KeyError:
            transfer_encoding = ""
        if transfer_encoding.strip().lower() == "chunked":
            environ["wsgi.input_terminated"] = True
            environ["wsgi.input"] = DechunkedInput(environ["wsgi.input"])
'''),
    ]},
    {"name": 'r3-loop-generator-filter', "edits": [
        (S, _R3_OLD_5, r'''        for key, value in ((k, v) for k, v in self.headers.items() if "_" not in k):
            key = key.upper().replace("-", "_")
            value = value.replace("\r\n", "")
            if key not in ("CONTENT_TYPE", "CONTENT_LENGTH"):
                key = f"HTTP_{key}"
                if key in environ:
                    value = f"{environ[key]},{value}"
            environ[key] = value

'''),
    ]},
    {"name": 'r3-loop-listcomp-canonical', "edits": [
        (S, _R3_OLD_5, r'''        received = [(k.upper().replace("-", "_"), v.replace("\r\n", "")) for k, v in self.headers.items() if "_" not in k]
        for key, value in received:
            if key not in ("CONTENT_TYPE", "CONTENT_LENGTH"):
                key = f"HTTP_{key}"
                if key in environ:
                    value = f"{environ[key]},{value}"
            environ[key] = value

'''),
    ]},
    {"name": 'r3-loop-generator-canonical-inline', "edits": [
        (S, _R3_OLD_5, r'''        for key, value in ((k.upper().replace("-", "_"), v) for k, v in self.headers.items() if "_" not in k):
            value = value.replace("\r\n", "")
            if key not in ("CONTENT_TYPE", "CONTENT_LENGTH"):
                key = f"HTTP_{key}"
                if key in environ:
                    value = f"{environ[key]},{value}"
            environ[key] = value

'''),
    ]},
    {"name": 'r3-loop-items-local-list', "edits": [
        (S, _R3_OLD_5, r'''        header_items = list(self.headers.items())
        for key, value in header_items:
            if "_" in key:
                continue

            key = key.upper().replace("-", "_")
            value = value.replace("\r\n", "")
            if key not in ("CONTENT_TYPE", "CONTENT_LENGTH"):
                key = f"HTTP_{key}"
                if key in environ:
                    value = f"{environ[key]},{value}"
            environ[key] = value

'''),
    ]},
    {"name": 'r3-loop-key-helper-function', "edits": [
        (S, _R3_OLD_5, r'''        for key, value in self.headers.items():
            if "_" in key:
                continue

            key = _environ_key(key)
            value = value.replace("\r\n", "")
            if key.startswith("HTTP_") and key in environ:
                value = f"{environ[key]},{value}"
            environ[key] = value

'''),
        (S, 'class WSGIRequestHandler(BaseHTTPRequestHandler):\n', r'''def _environ_key(name: str) -> str:
    key = name.upper().replace("-", "_")
    if key in ("CONTENT_TYPE", "CONTENT_LENGTH"):
        return key
    return f"HTTP_{key}"


class WSGIRequestHandler(BaseHTTPRequestHandler):
'''),
    ]},
    {"name": 'r3-loop-key-helper-method', "edits": [
        (S, _R3_OLD_5, r'''        for key, value in self.headers.items():
            if self._skip_header(key):
                continue

            key = key.upper().replace("-", "_")
            value = value.replace("\r\n", "")
            if key not in ("CONTENT_TYPE", "CONTENT_LENGTH"):
                key = f"HTTP_{key}"
                if key in environ:
                    value = f"{environ[key]},{value}"
            environ[key] = value

'''),
        (S, '    def make_environ(self) -> WSGIEnvironment:\n', r'''    def _skip_header(self, name: str) -> bool:
        return "_" in name

    def make_environ(self) -> WSGIEnvironment:
'''),
    ]},
    {"name": 'r3-loop-split-join-unfold', "edits": [
        (S, _R3_OLD_5, r'''        for key, value in self.headers.items():
            if "_" in key:
                continue

            key = key.upper().replace("-", "_")
            value = "".join(value.split("\r\n"))
            if key not in ("CONTENT_TYPE", "CONTENT_LENGTH"):
                key = f"HTTP_{key}"
                if key in environ:
                    value = f"{environ[key]},{value}"
            environ[key] = value

'''),
    ]},
    {"name": 'r3-loop-prefix-table', "edits": [
        (S, _R3_OLD_5, r'''        unprefixed = {"CONTENT_TYPE", "CONTENT_LENGTH"}
        for key, value in self.headers.items():
            if "_" in key:
                continue

            key = key.upper().replace("-", "_")
            value = value.replace("\r\n", "")
            if key not in unprefixed:
                key = f"HTTP_{key}"
                if key in environ:
                    value = f"{environ[key]},{value}"
            environ[key] = value

'''),
    ]},
    {"name": 'r3-status-int-of-subscript', "edits": [
        (S, r'''                try:
                    code_str, msg = status_sent.split(None, 1)
                except ValueError:
                    code_str, msg = status_sent, ""
                code = int(code_str)
''', r'''                parts = status_sent.split(None, 1)
                code = int(parts[0])
                msg = parts[1] if len(parts) > 1 else ""
'''),
    ]},
    {"name": 'r3-header-loop-star', "edits": [
        (S, r'''                for key, value in headers_sent:
                    self.send_header(key, value)
                    header_keys.add(key.lower())
''', r'''                for header in headers_sent:
                    self.send_header(*header)
                    header_keys.add(header[0].lower())
'''),
    ]},
    {"name": 'r3-header-loop-index', "edits": [
        (S, r'''                for key, value in headers_sent:
                    self.send_header(key, value)
                    header_keys.add(key.lower())
''', r'''                for header in headers_sent:
                    self.send_header(header[0], header[1])
                    header_keys.add(header[0].lower())
'''),
    ]},
    {"name": 'r3-write-guard-clause', "edits": [
        (S, _R3_OLD_6, r'''            if not data:
                self.wfile.flush()
                return

            if chunk_response:
                self.wfile.write(hex(len(data))[2:].encode())
                self.wfile.write(b"\r\n")

            self.wfile.write(data)

            if chunk_response:
                self.wfile.write(b"\r\n")
'''),
    ]},
    {"name": 'r3-write-frame-list', "edits": [
        (S, _R3_OLD_6, r'''            if data:
                pieces = [data]
                if chunk_response:
                    pieces = [hex(len(data))[2:].encode(), b"\r\n", data, b"\r\n"]
                self.wfile.write(b"".join(pieces))
'''),
    ]},
    {"name": 'r3-terminator-guard-merged', "edits": [
        (S, _R3_OLD_7, r'''                for data in application_iter:
                    write(data)
                if not headers_sent:
                    write(b"")
                if not chunk_response:
                    return
                self.wfile.write(b"0\r\n\r\n")
'''),
    ]},
    {"name": 'r3-decision-module-constants', "edits": [
        (S, _R3_OLD_8, r'''                if (
                    "content-length" not in header_keys
                    and environ["REQUEST_METHOD"] != "HEAD"
                    and not (100 <= code < 200)
                    and code not in _BODYLESS_STATUS
                    and self.protocol_version >= "HTTP/1.1"
                ):
'''),
        (S, 'class DechunkedInput(io.RawIOBase):\n', r'''_BODYLESS_STATUS = frozenset({204, 304})


class DechunkedInput(io.RawIOBase):
'''),
    ]},
    {"name": 'r3-except-merged-isinstance', "edits": [
        (S, r'''        except connection_dropped_errors as e:
            self.connection_dropped(e, environ)
        except Exception as e:
            if self.server.passthrough_errors:
                raise
''', r'''        except Exception as e:
            if isinstance(e, connection_dropped_errors):
                self.connection_dropped(e, environ)
                return

            if self.server.passthrough_errors:
                raise
'''),
    ]},
    {"name": 'r3-cl-dictcomp', "edits": [
        (S, r'''                header_keys = set()
                for key, value in headers_sent:
                    self.send_header(key, value)
                    header_keys.add(key.lower())
''', r'''                for key, value in headers_sent:
                    self.send_header(key, value)
                sent = {key.lower(): value for key, value in headers_sent}
'''),
        (S, '                        "content-length" in header_keys\n', '                        "content-length" in sent\n'),
    ]},
    {"name": 'r3-cl-inline-setcomp', "edits": [
        (S, r'''                header_keys = set()
                for key, value in headers_sent:
                    self.send_header(key, value)
                    header_keys.add(key.lower())
''', r'''                for key, value in headers_sent:
                    self.send_header(key, value)
'''),
        (S, '                        "content-length" in header_keys\n', '                        "content-length" in {name.lower() for name, _ in headers_sent}\n'),
    ]},
    {"name": 'r3-cl-flag-loop', "edits": [
        (S, r'''                header_keys = set()
                for key, value in headers_sent:
                    self.send_header(key, value)
                    header_keys.add(key.lower())
''', r'''                has_length = False
                for key, value in headers_sent:
                    self.send_header(key, value)
                    if key.lower() == "content-length":
                        has_length = True
'''),
        (S, '                        "content-length" in header_keys\n', '                        has_length\n'),
    ]},
    {"name": 'r3-cl-dict-store', "edits": [
        (S, r'''                header_keys = set()
                for key, value in headers_sent:
                    self.send_header(key, value)
                    header_keys.add(key.lower())
''', r'''                sent = {}
                for key, value in headers_sent:
                    self.send_header(key, value)
                    sent[key.lower()] = value
'''),
        (S, '                        "content-length" in header_keys\n', '                        "content-length" in sent\n'),
    ]},
    {"name": 'r3-start-response-tuple', "edits": [
        (S, r'''            status_set = status
            headers_set = headers
            return write
''', r'''            status_set, headers_set = status, headers
            return write
'''),
    ]},
    {"name": 'r3-terminator-module-constant', "edits": [
        (S, '                    self.wfile.write(b"0\\r\\n\\r\\n")\n', '                    self.wfile.write(_LAST_CHUNK)\n'),
        (S, 'class DechunkedInput(io.RawIOBase):\n', r'''_LAST_CHUNK = b"0\r\n\r\n"


class DechunkedInput(io.RawIOBase):
'''),
    ]},
    {"name": 'r3-done-flag-expression', "edits": [
        (S, _R3_OLD_1, r'''    def readinto(self, buf: bytearray) -> int:  # type: ignore
        read = 0
        while not self._done and read < len(buf):
            if self._len == 0:
                self._len = self.read_chunk_len()
                self._done = self._len == 0

            if self._len > 0:
                n = min(len(buf) - read, self._len)
                data = self._rfile.read(n)
                if len(data) != n:
                    raise OSError("Unexpected end of chunked data")
                buf[read : read + n] = data
                self._len -= n
                read += n

            if self._len == 0:
                terminator = self._rfile.readline()
                if terminator not in (b"\n", b"\r\n", b"\r"):
                    raise OSError("Missing chunk terminating newline")

        return read

'''),
    ]},
    {"name": 'r3-residual-copy-tests', "edits": [
        (S, _R3_OLD_1, r'''    def readinto(self, buf: bytearray) -> int:  # type: ignore
        read = 0
        while not self._done and read < len(buf):
            left = self._len
            if left == 0:
                self._len = self.read_chunk_len()

            if self._len == 0:
                self._done = True

            left = self._len
            if left > 0:
                n = min(len(buf) - read, left)
                data = self._rfile.read(n)
                if len(data) != n:
                    raise OSError("Unexpected end of chunked data")
                buf[read : read + n] = data
                self._len = left - n
                read += n

            if self._len == 0:
                terminator = self._rfile.readline()
                if terminator not in (b"\n", b"\r\n", b"\r"):
                    raise OSError("Missing chunk terminating newline")

        return read

'''),
    ]},
    {"name": 'r3-write-frame-list-append', "edits": [
        (S, _R3_OLD_6, r'''            if data:
                pieces = []
                if chunk_response:
                    pieces.append(b"%x\r\n" % len(data))
                pieces.append(data)
                if chunk_response:
                    pieces.append(b"\r\n")
                self.wfile.writelines(pieces)
'''),
    ]},
]

# logic moved into a method of the handler (inlined one level)

_R3H_OLD_1 = r'''        for key, value in self.headers.items():
            if "_" in key:
                continue

            key = key.upper().replace("-", "_")
            value = value.replace("\r\n", "")
            if key not in ("CONTENT_TYPE", "CONTENT_LENGTH"):
                key = f"HTTP_{key}"
                if key in environ:
                    value = f"{environ[key]},{value}"
            environ[key] = value

'''
_R3H_OLD_2 = r'''            if data:
                if chunk_response:
                    self.wfile.write(hex(len(data))[2:].encode())
                    self.wfile.write(b"\r\n")

                self.wfile.write(data)

                if chunk_response:
                    self.wfile.write(b"\r\n")
'''

MUTANTS += [
    {"name": 'r3-hdr-loop-in-method-no-skip', "expect": 'R19.4', "edits": [
        (S, _R3H_OLD_1, r'''        self._copy_headers(environ)

'''),
        (S, '    def make_environ(self) -> WSGIEnvironment:\n', r'''    def _copy_headers(self, environ: WSGIEnvironment) -> None:
        for key, value in self.headers.items():
            key = key.upper().replace("-", "_")
            value = value.replace("\r\n", "")
            if key not in ("CONTENT_TYPE", "CONTENT_LENGTH"):
                key = f"HTTP_{key}"
                if key in environ:
                    value = f"{environ[key]},{value}"
            environ[key] = value

    def make_environ(self) -> WSGIEnvironment:
'''),
    ]},
    {"name": 'r3-wrap-in-method-flag-missing', "expect": 'R19.4', "edits": [
        (S, r'''        if environ.get("HTTP_TRANSFER_ENCODING", "").strip().lower() == "chunked":
            environ["wsgi.input_terminated"] = True
            environ["wsgi.input"] = DechunkedInput(environ["wsgi.input"])
''', '        self._dechunk_input(environ)\n'),
        (S, '    def make_environ(self) -> WSGIEnvironment:\n', r'''    def _dechunk_input(self, environ: WSGIEnvironment) -> None:
        if environ.get("HTTP_TRANSFER_ENCODING", "").strip().lower() == "chunked":
            environ["wsgi.input"] = DechunkedInput(environ["wsgi.input"])

    def make_environ(self) -> WSGIEnvironment:
'''),
    ]},
    {"name": 'r3-chunk-write-in-method-decimal', "expect": 'R19.2', "edits": [
        (S, _R3H_OLD_2, r'''            if data:
                if chunk_response:
                    self._write_chunk(data)
                else:
                    self.wfile.write(data)
'''),
        (S, '    def make_environ(self) -> WSGIEnvironment:\n', r'''    def _write_chunk(self, data: bytes) -> None:
        self.wfile.write(str(len(data)).encode())
        self.wfile.write(b"\r\n")
        self.wfile.write(data)
        self.wfile.write(b"\r\n")

    def make_environ(self) -> WSGIEnvironment:
'''),
    ]},
]

TWINS += [
    {"name": 'r3-hdr-loop-in-method', "edits": [
        (S, _R3H_OLD_1, r'''        self._copy_headers(environ)

'''),
        (S, '    def make_environ(self) -> WSGIEnvironment:\n', r'''    def _copy_headers(self, environ: WSGIEnvironment) -> None:
        for key, value in self.headers.items():
            if "_" in key:
                continue

            key = key.upper().replace("-", "_")
            value = value.replace("\r\n", "")
            if key not in ("CONTENT_TYPE", "CONTENT_LENGTH"):
                key = f"HTTP_{key}"
                if key in environ:
                    value = f"{environ[key]},{value}"
            environ[key] = value

    def make_environ(self) -> WSGIEnvironment:
'''),
    ]},
    {"name": 'r3-wrap-in-method', "edits": [
        (S, r'''        if environ.get("HTTP_TRANSFER_ENCODING", "").strip().lower() == "chunked":
            environ["wsgi.input_terminated"] = True
            environ["wsgi.input"] = DechunkedInput(environ["wsgi.input"])
''', '        self._dechunk_input(environ)\n'),
        (S, '    def make_environ(self) -> WSGIEnvironment:\n', r'''    def _dechunk_input(self, environ: WSGIEnvironment) -> None:
        if environ.get("HTTP_TRANSFER_ENCODING", "").strip().lower() == "chunked":
            environ["wsgi.input_terminated"] = True
            environ["wsgi.input"] = DechunkedInput(environ["wsgi.input"])

    def make_environ(self) -> WSGIEnvironment:
'''),
    ]},
    {"name": 'r3-chunk-write-in-method', "edits": [
        (S, _R3H_OLD_2, r'''            if data:
                if chunk_response:
                    self._write_chunk(data)
                else:
                    self.wfile.write(data)
'''),
        (S, '    def make_environ(self) -> WSGIEnvironment:\n', r'''    def _write_chunk(self, data: bytes) -> None:
        self.wfile.write(hex(len(data))[2:].encode())
        self.wfile.write(b"\r\n")
        self.wfile.write(data)
        self.wfile.write(b"\r\n")

    def make_environ(self) -> WSGIEnvironment:
'''),
    ]},
]

# ---- round 5: the chunk-size reader must accept every well-formed size line the terminator check would accept (CRLF / LF) ----
_RD_LINE = '            line = self._rfile.readline().decode("latin1")\n'
_RD_INT = "            _len = int(line.strip(), 16)\n"
_RD_TRY = "        try:\n" + _RD_LINE + _RD_INT
MUTANTS += [
    {"name": "size-line-must-end-in-crlf", "expect": "R19.3", "edits": [(S, _RD_TRY, '        line = self._rfile.readline().decode("latin1")\n\n        if not line.endswith("\\r\\n"):\n            raise OSError("Unexpected end of chunked data")\n\n        try:\n' + _RD_INT)]},
    {"name": "size-line-raw-tail-compared-with-crlf", "expect": "R19.3", "edits": [(S, _RD_LINE, '            raw = self._rfile.readline()\n            if raw[-2:] != b"\\r\\n":\n                raise OSError("Invalid chunk header")\n            line = raw.decode("latin1")\n')]},
    {"name": "size-line-split-at-crlf-only", "expect": "R19.3", "edits": [(S, _RD_INT, '            digits, sep, _rest = line.partition("\\r\\n")\n            if not sep:\n                raise OSError("Invalid chunk header")\n            _len = int(digits.strip(), 16)\n')]},
    {"name": "size-line-assumes-two-terminator-bytes", "expect": "R19.3", "edits": [(S, _RD_INT, "            _len = int(line[:-2], 16)\n")]},
    {"name": "size-line-decimal-digits-only", "expect": "R19.3", "edits": [(S, _RD_INT, '            if not line.strip().isdigit():\n                raise OSError("Invalid chunk header")\n            _len = int(line.strip(), 16)\n')]},
    {"name": "size-line-of-more-than-one-digit-refused", "expect": "R19.3", "edits": [(S, _RD_INT, '            if len(line.strip()) > 1:\n                raise OSError("Chunk too large")\n            _len = int(line.strip(), 16)\n')]},
]
TWINS += [
    {"name": "size-line-parsed-without-strip", "edits": [(S, _RD_INT, "            _len = int(line, 16)\n")]},
    {"name": "size-line-empty-refused-before-parsing", "edits": [(S, _RD_INT, '            if not line:\n                raise OSError("Unexpected end of chunked data")\n            _len = int(line.strip(), 16)\n')]},
    {"name": "size-line-read-then-decoded", "edits": [(S, _RD_LINE, '            raw = self._rfile.readline()\n            line = raw.decode("latin1")\n')]},
    {"name": "size-line-terminator-stripped-first", "edits": [(S, _RD_INT, '            line = line.rstrip("\\r\\n")\n            _len = int(line.strip(), 16)\n')]},
    {"name": "size-line-read-outside-the-try", "edits": [(S, _RD_TRY, '        line = self._rfile.readline().decode("latin1")\n\n        try:\n' + _RD_INT)]},
    {"name": "size-line-text-in-a-local", "edits": [(S, _RD_INT, "            digits = line.strip()\n            _len = int(digits, 16)\n")]},
]

# ---- round 6 (stress): refactorings in ordinary maintainer style written by authors who had not seen the checker ----
_STRESS_TWINS = [
    {'name': 'stress-1-reader-locals-renamed-text-hoisted', 'edits': [('serving.py',
  '    def read_chunk_len(self) -> int:\n'
  '        try:\n'
  '            line = self._rfile.readline().decode("latin1")\n'
  '            _len = int(line.strip(), 16)\n'
  '        except ValueError as e:\n'
  '            raise OSError("Invalid chunk header") from e\n'
  '        if _len < 0:\n'
  '            raise OSError("Negative chunk length not allowed")\n'
  '        return _len\n'
  '\n'
  '    def readinto(self, buf: bytearray) -> int:  # type: ignore\n',
  '    def read_chunk_len(self) -> int:\n'
  '        try:\n'
  '            header = self._rfile.readline().decode("latin1")\n'
  '            hex_size = header.strip()\n'
  '            chunk_size = int(hex_size, 16)\n'
  '        except ValueError as e:\n'
  '            raise OSError("Invalid chunk header") from e\n'
  '        if chunk_size < 0:\n'
  '            raise OSError("Negative chunk length not allowed")\n'
  '        return chunk_size\n'
  '\n'
  '    def readinto(self, buf: bytearray) -> int:  # type: ignore\n')]},
    {'name': 'stress-2-reader-try-else-nonnegative-returned', 'edits': [('serving.py',
  '        except ValueError as e:\n'
  '            raise OSError("Invalid chunk header") from e\n'
  '        if _len < 0:\n'
  '            raise OSError("Negative chunk length not allowed")\n'
  '        return _len\n'
  '\n'
  '    def readinto(self, buf: bytearray) -> int:  # type: ignore\n',
  '        except ValueError as e:\n'
  '            raise OSError("Invalid chunk header") from e\n'
  '        else:\n'
  '            if _len >= 0:\n'
  '                return _len\n'
  '        raise OSError("Negative chunk length not allowed")\n'
  '\n'
  '    def readinto(self, buf: bytearray) -> int:  # type: ignore\n')]},
    {'name': 'stress-3-reader-module-level-size-parser', 'edits': [('serving.py',
  '\n\nclass DechunkedInput(io.RawIOBase):\n    """An input stream that handles Transfer-Encoding \'chunked\'"""\n',
  '\n'
  '\n'
  'def _parse_chunk_size(line: bytes) -> int:\n'
  '    """Parse the hexadecimal size from the first line of a chunk. Raises\n'
  '    ``ValueError`` if the line is not a hexadecimal number.\n'
  '    """\n'
  '    return int(line.decode("latin-1").strip(), 16)\n'
  '\n'
  '\n'
  'class DechunkedInput(io.RawIOBase):\n'
  '    """An input stream that handles Transfer-Encoding \'chunked\'"""\n'),
 ('serving.py',
  '    def read_chunk_len(self) -> int:\n        try:\n            line = self._rfile.readline().decode("latin1")\n            _len = int(line.strip(), 16)\n        except ValueError as e:\n            raise OSError("Invalid chunk header") from e\n',
  '    def read_chunk_len(self) -> int:\n        try:\n            _len = _parse_chunk_size(self._rfile.readline())\n        except ValueError as e:\n            raise OSError("Invalid chunk header") from e\n')]},
    {'name': 'stress-4-readinto-size-hoisted-single-min', 'edits': [('serving.py',
  '    def readinto(self, buf: bytearray) -> int:  # type: ignore\n        read = 0\n        while not self._done and read < len(buf):\n            if self._len == 0:\n                # This is the first chunk or we fully consumed the previous\n',
  '    def readinto(self, buf: bytearray) -> int:  # type: ignore\n'
  '        read = 0\n'
  '        size = len(buf)\n'
  '        while not self._done and read < size:\n'
  '            if self._len == 0:\n'
  '                # This is the first chunk or we fully consumed the previous\n'),
 ('serving.py',
  '                # There is data (left) in this chunk, so append it to the\n'
  '                # buffer. If this operation fully consumes the chunk, this will\n'
  '                # reset self._len to 0.\n'
  '                n = min(len(buf), self._len)\n'
  '\n'
  '                # If (read + chunk size) becomes more than len(buf), buf will\n'
  '                # grow beyond the original size and read more data than\n'
  '                # required. So only read as much data as can fit in buf.\n'
  '                if read + n > len(buf):\n'
  '                    n = len(buf) - read\n'
  '\n'
  '                data = self._rfile.read(n)\n'
  '\n',
  '                # There is data (left) in this chunk, so append it to the\n'
  '                # buffer. If this operation fully consumes the chunk, this will\n'
  '                # reset self._len to 0. If (read + chunk size) becomes more\n'
  '                # than len(buf), buf will grow beyond the original size and\n'
  '                # read more data than required. So only read as much data as\n'
  '                # can fit in buf.\n'
  '                n = min(size - read, self._len)\n'
  '                data = self._rfile.read(n)\n'
  '\n')]},
    {'name': 'stress-5-readinto-terminator-constant-and-method', 'edits': [('serving.py',
  '\n\nclass DechunkedInput(io.RawIOBase):\n    """An input stream that handles Transfer-Encoding \'chunked\'"""\n',
  '\n\n# Line endings accepted after the data of a chunk.\n_CHUNK_TERMINATORS = (b"\\n", b"\\r\\n", b"\\r")\n\n\nclass DechunkedInput(io.RawIOBase):\n    """An input stream that handles Transfer-Encoding \'chunked\'"""\n'),
 ('serving.py',
  '                # but there is still a final newline that should be consumed\n'
  '                self._done = True\n'
  '\n'
  '            if self._len > 0:\n'
  '                # There is data (left) in this chunk, so append it to the\n'
  '                # buffer. If this operation fully consumes the chunk, this will\n',
  '                # but there is still a final newline that should be consumed\n'
  '                self._done = True\n'
  '            elif self._len > 0:\n'
  '                # There is data (left) in this chunk, so append it to the\n'
  '                # buffer. If this operation fully consumes the chunk, this will\n'),
 ('serving.py',
  '                # Skip the terminating newline of a chunk that has been fully\n'
  '                # consumed. This also applies to the 0-sized final chunk\n'
  '                terminator = self._rfile.readline()\n'
  '                if terminator not in (b"\\n", b"\\r\\n", b"\\r"):\n'
  '                    raise OSError("Missing chunk terminating newline")\n'
  '\n'
  '        return read\n'
  '\n'
  '\n',
  '                # Skip the terminating newline of a chunk that has been fully\n'
  '                # consumed. This also applies to the 0-sized final chunk\n'
  '                self._skip_terminator()\n'
  '\n'
  '        return read\n'
  '\n'
  '    def _skip_terminator(self) -> None:\n'
  '        if self._rfile.readline() not in _CHUNK_TERMINATORS:\n'
  '            raise OSError("Missing chunk terminating newline")\n'
  '\n'
  '\n')]},
    {'name': 'stress-6-write-status-split-by-length-tuple-latch', 'edits': [('serving.py',
  '            assert headers_set is not None, "write() before start_response"\n'
  '            if status_sent is None:\n'
  '                status_sent = status_set\n'
  '                headers_sent = headers_set\n'
  '                try:\n'
  '                    code_str, msg = status_sent.split(None, 1)\n'
  '                except ValueError:\n'
  '                    code_str, msg = status_sent, ""\n'
  '                code = int(code_str)\n'
  '                self.send_response(code, msg)\n',
  '            assert headers_set is not None, "write() before start_response"\n'
  '            if status_sent is None:\n'
  '                status_sent, headers_sent = status_set, headers_set\n'
  '                status_parts = status_sent.split(None, 1)\n'
  '\n'
  '                if len(status_parts) == 2:\n'
  '                    code_str, msg = status_parts\n'
  '                else:\n'
  '                    code_str, msg = status_sent, ""\n'
  '\n'
  '                code = int(code_str)\n'
  '                self.send_response(code, msg)\n')]},
    {'name': 'stress-7-write-chunk-test-de-morgan', 'edits': [('serving.py',
  '                # https://httpwg.org/specs/rfc7230.html#rfc.section.3.3.1\n'
  '                if (\n'
  '                    not (\n'
  '                        "content-length" in header_keys\n'
  '                        or environ["REQUEST_METHOD"] == "HEAD"\n'
  '                        or (100 <= code < 200)\n'
  '                        or code in {204, 304}\n'
  '                    )\n'
  '                    and self.protocol_version >= "HTTP/1.1"\n'
  '                ):\n',
  '                # https://httpwg.org/specs/rfc7230.html#rfc.section.3.3.1\n'
  '                if (\n'
  '                    "content-length" not in header_keys\n'
  '                    and environ["REQUEST_METHOD"] != "HEAD"\n'
  '                    and (code < 100 or code >= 200)\n'
  '                    and code not in {204, 304}\n'
  '                    and self.protocol_version >= "HTTP/1.1"\n'
  '                ):\n'),
 ('serving.py',
  '        def start_response(status, headers, exc_info=None):  # type: ignore\n            nonlocal status_set, headers_set\n            if exc_info:\n                try:\n                    if headers_sent:\n',
  '        def start_response(status, headers, exc_info=None):  # type: ignore\n'
  '            nonlocal status_set, headers_set\n'
  '            if not exc_info:\n'
  '                if headers_set:\n'
  '                    raise AssertionError("Headers already set")\n'
  '            else:\n'
  '                try:\n'
  '                    if headers_sent:\n'),
 ('serving.py',
  '                finally:\n                    exc_info = None\n            elif headers_set:\n                raise AssertionError("Headers already set")\n            status_set = status\n            headers_set = headers\n',
  '                finally:\n                    exc_info = None\n            status_set = status\n            headers_set = headers\n')]},
    {'name': 'stress-8-write-header-block-in-nested-helper', 'edits': [('serving.py',
  '        chunk_response: bool = False\n'
  '\n'
  '        def write(data: bytes) -> None:\n'
  '            nonlocal status_sent, headers_sent, chunk_response\n'
  '            assert status_set is not None, "write() before start_response"\n'
  '            assert headers_set is not None, "write() before start_response"\n'
  '            if status_sent is None:\n'
  '                status_sent = status_set\n'
  '                headers_sent = headers_set\n'
  '                try:\n'
  '                    code_str, msg = status_sent.split(None, 1)\n'
  '                except ValueError:\n'
  '                    code_str, msg = status_sent, ""\n'
  '                code = int(code_str)\n'
  '                self.send_response(code, msg)\n'
  '                header_keys = set()\n'
  '                for key, value in headers_sent:\n'
  '                    self.send_header(key, value)\n'
  '                    header_keys.add(key.lower())\n'
  '\n'
  '                # Use chunked transfer encoding if there is no content\n'
  '                # length. Do not use for 1xx and 204 responses. 304\n'
  '                # responses and HEAD requests are also excluded, which\n'
  '                # is the more conservative behavior and matches other\n'
  '                # parts of the code.\n'
  '                # https://httpwg.org/specs/rfc7230.html#rfc.section.3.3.1\n'
  '                if (\n'
  '                    not (\n'
  '                        "content-length" in header_keys\n'
  '                        or environ["REQUEST_METHOD"] == "HEAD"\n'
  '                        or (100 <= code < 200)\n'
  '                        or code in {204, 304}\n'
  '                    )\n'
  '                    and self.protocol_version >= "HTTP/1.1"\n'
  '                ):\n'
  '                    chunk_response = True\n'
  '                    self.send_header("Transfer-Encoding", "chunked")\n'
  '\n'
  '                # Always close the connection. This disables HTTP/1.1\n'
  "                # keep-alive connections. They aren't handled well by\n"
  "                # Python's http.server because it doesn't know how to\n"
  '                # drain the stream before the next request line.\n'
  '                self.send_header("Connection", "close")\n'
  '                self.end_headers()\n'
  '\n'
  '            assert isinstance(data, bytes), "applications must write bytes"\n'
  '\n',
  '        chunk_response: bool = False\n'
  '\n'
  '        def send_headers(status: str, headers: list[tuple[str, str]]) -> None:\n'
  '            """Send the status line and the header block, once."""\n'
  '            nonlocal status_sent, headers_sent, chunk_response\n'
  '\n'
  '            if status_sent is not None:\n'
  '                return\n'
  '\n'
  '            status_sent = status\n'
  '            headers_sent = headers\n'
  '            try:\n'
  '                code_str, msg = status_sent.split(None, 1)\n'
  '            except ValueError:\n'
  '                code_str, msg = status_sent, ""\n'
  '            code = int(code_str)\n'
  '            self.send_response(code, msg)\n'
  '            header_keys = set()\n'
  '            for key, value in headers_sent:\n'
  '                self.send_header(key, value)\n'
  '                header_keys.add(key.lower())\n'
  '\n'
  '            # Use chunked transfer encoding if there is no content\n'
  '            # length. Do not use for 1xx and 204 responses. 304\n'
  '            # responses and HEAD requests are also excluded, which\n'
  '            # is the more conservative behavior and matches other\n'
  '            # parts of the code.\n'
  '            # https://httpwg.org/specs/rfc7230.html#rfc.section.3.3.1\n'
  '            if (\n'
  '                not (\n'
  '                    "content-length" in header_keys\n'
  '                    or environ["REQUEST_METHOD"] == "HEAD"\n'
  '                    or (100 <= code < 200)\n'
  '                    or code in {204, 304}\n'
  '                )\n'
  '                and self.protocol_version >= "HTTP/1.1"\n'
  '            ):\n'
  '                chunk_response = True\n'
  '                self.send_header("Transfer-Encoding", "chunked")\n'
  '\n'
  '            # Always close the connection. This disables HTTP/1.1\n'
  "            # keep-alive connections. They aren't handled well by\n"
  "            # Python's http.server because it doesn't know how to\n"
  '            # drain the stream before the next request line.\n'
  '            self.send_header("Connection", "close")\n'
  '            self.end_headers()\n'
  '\n'
  '        def write(data: bytes) -> None:\n'
  '            assert status_set is not None, "write() before start_response"\n'
  '            assert headers_set is not None, "write() before start_response"\n'
  '            send_headers(status_set, headers_set)\n'
  '            assert isinstance(data, bytes), "applications must write bytes"\n'
  '\n')]},
    {'name': 'stress-9-environ-header-dict-merged-by-update', 'edits': [('serving.py',
  '        }\n\n        for key, value in self.headers.items():\n            if "_" in key:\n',
  '        }\n'
  '\n'
  '        # None of the keys set above can clash with a key derived from a\n'
  '        # header, collect those separately and add them in one go.\n'
  '        header_environ: dict[str, str] = {}\n'
  '\n'
  '        for key, value in self.headers.items():\n'
  '            if "_" in key:\n'),
 ('serving.py',
  '            if key not in ("CONTENT_TYPE", "CONTENT_LENGTH"):\n'
  '                key = f"HTTP_{key}"\n'
  '                if key in environ:\n'
  '                    value = f"{environ[key]},{value}"\n'
  '            environ[key] = value\n'
  '\n'
  '        if environ.get("HTTP_TRANSFER_ENCODING", "").strip().lower() == "chunked":\n',
  '            if key not in ("CONTENT_TYPE", "CONTENT_LENGTH"):\n'
  '                key = f"HTTP_{key}"\n'
  '                if key in header_environ:\n'
  '                    value = f"{header_environ[key]},{value}"\n'
  '            header_environ[key] = value\n'
  '\n'
  '        environ.update(header_environ)\n'
  '\n'
  '        if environ.get("HTTP_TRANSFER_ENCODING", "").strip().lower() == "chunked":\n')]},
    {'name': 'stress-10-environ-transfer-encoding-local-casefold-update', 'edits': [('serving.py',
  '            environ[key] = value\n'
  '\n'
  '        if environ.get("HTTP_TRANSFER_ENCODING", "").strip().lower() == "chunked":\n'
  '            environ["wsgi.input_terminated"] = True\n'
  '            environ["wsgi.input"] = DechunkedInput(environ["wsgi.input"])\n'
  '\n'
  '        # Per RFC 2616, if the URL is absolute, use that as the host.\n',
  '            environ[key] = value\n'
  '\n'
  '        transfer_encoding = environ.get("HTTP_TRANSFER_ENCODING", "")\n'
  '\n'
  '        if transfer_encoding.strip().casefold() == "chunked":\n'
  '            environ.update(\n'
  '                {\n'
  '                    "wsgi.input_terminated": True,\n'
  '                    "wsgi.input": DechunkedInput(environ["wsgi.input"]),\n'
  '                }\n'
  '            )\n'
  '\n'
  '        # Per RFC 2616, if the URL is absolute, use that as the host.\n')]},
    {'name': 'stress-11-environ-scheme-netloc-tuple-path-conditional', 'edits': [('serving.py',
  '    def make_environ(self) -> WSGIEnvironment:\n        request_url = urlsplit(self.path)\n        url_scheme = "http" if self.server.ssl_context is None else "https"\n\n        if not self.client_address:\n',
  '    def make_environ(self) -> WSGIEnvironment:\n'
  '        request_url = urlsplit(self.path)\n'
  '        scheme, netloc = request_url.scheme, request_url.netloc\n'
  '        url_scheme = "https" if self.server.ssl_context is not None else "http"\n'
  '\n'
  '        if not self.client_address:\n'),
 ('serving.py',
  '        # the first segment may have been incorrectly parsed as the\n'
  '        # netloc, prepend it to the path again.\n'
  '        if not request_url.scheme and request_url.netloc:\n'
  '            path_info = f"/{request_url.netloc}{request_url.path}"\n'
  '        else:\n'
  '            path_info = request_url.path\n'
  '\n'
  '        path_info = unquote(path_info)\n'
  '\n'
  '        environ: WSGIEnvironment = {\n',
  '        # the first segment may have been incorrectly parsed as the\n'
  '        # netloc, prepend it to the path again.\n'
  '        path_info = unquote(\n'
  '            request_url.path\n'
  '            if scheme or not netloc\n'
  '            else f"/{netloc}{request_url.path}"\n'
  '        )\n'
  '\n'
  '        environ: WSGIEnvironment = {\n'),
 ('serving.py',
  '        # Per RFC 2616, if the URL is absolute, use that as the host.\n'
  '        # We\'re using "has a scheme" to indicate an absolute URL.\n'
  '        if request_url.scheme and request_url.netloc:\n'
  '            environ["HTTP_HOST"] = request_url.netloc\n'
  '\n'
  '        try:\n',
  '        # Per RFC 2616, if the URL is absolute, use that as the host.\n        # We\'re using "has a scheme" to indicate an absolute URL.\n        if scheme and netloc:\n            environ["HTTP_HOST"] = netloc\n\n        try:\n')]},
    {'name': 'stress-12-handle-and-server-init-guards-flipped', 'edits': [('serving.py',
  '            self.connection_dropped(e)\n'
  '        except Exception as e:\n'
  '            if self.server.ssl_context is not None and is_ssl_error(e):\n'
  '                self.log_error("SSL error occurred: %s", e)\n'
  '            else:\n'
  '                raise\n'
  '\n'
  '    def connection_dropped(\n',
  '            self.connection_dropped(e)\n'
  '        except Exception as e:\n'
  '            if self.server.ssl_context is None or not is_ssl_error(e):\n'
  '                raise\n'
  '\n'
  '            self.log_error("SSL error occurred: %s", e)\n'
  '\n'
  '    def connection_dropped(\n'),
 ('serving.py',
  '        fd: int | None = None,\n'
  '    ) -> None:\n'
  '        if handler is None:\n'
  '            handler = WSGIRequestHandler\n'
  '\n'
  "        # If the handler doesn't directly set a protocol version and\n"
  '        # thread or process workers are used, then allow chunked\n'
  '        # responses and keep-alive connections by enabling HTTP/1.1.\n'
  '        if "protocol_version" not in vars(handler) and (\n'
  '            self.multithread or self.multiprocess\n'
  '        ):\n'
  '            handler.protocol_version = "HTTP/1.1"\n'
  '\n'
  '        self.host = host\n',
  '        fd: int | None = None,\n'
  '    ) -> None:\n'
  '        handler = WSGIRequestHandler if handler is None else handler\n'
  '\n'
  "        # If the handler doesn't directly set a protocol version and\n"
  '        # thread or process workers are used, then allow chunked\n'
  '        # responses and keep-alive connections by enabling HTTP/1.1.\n'
  '        if "protocol_version" not in vars(handler):\n'
  '            if self.multithread or self.multiprocess:\n'
  '                handler.protocol_version = "HTTP/1.1"\n'
  '\n'
  '        self.host = host\n')]},
]


def _stress_mut(name, expect, twin, old, new):
    """the refactored shape `twin` with one more edit that breaks the property in that shape."""
    tw = next(t_ for t_ in _STRESS_TWINS if t_["name"].startswith(twin))
    assert sum(n_.count(old) for _, _, n_ in tw["edits"]) == 1, (name, old)
    return {"name": name, "expect": expect, "edits": [(f_, o_, n_.replace(old, new)) for f_, o_, n_ in tw["edits"]]}


TWINS += _STRESS_TWINS
MUTANTS += [
    _stress_mut("stress-2-try-else-admits-minus-one", "R19.3", "stress-2-", "if _len >= 0:", "if _len >= -1:"),
    _stress_mut("stress-3-module-parser-reads-decimal", "R19.3", "stress-3-", '.strip(), 16)', '.strip(), 10)'),
    _stress_mut("stress-3-module-parser-error-not-converted", "R19.3", "stress-3-", "_len = _parse_chunk_size(self._rfile.readline())\n        except ValueError as e:", "_len = _parse_chunk_size(self._rfile.readline())\n        except TypeError as e:"),
    _stress_mut("stress-4-single-min-ignores-fill-position", "R19.3", "stress-4-", "n = min(size - read, self._len)", "n = min(size, self._len)"),
    _stress_mut("stress-5-terminator-constant-admits-empty-line", "R19.3", "stress-5-", '_CHUNK_TERMINATORS = (b"\\n", b"\\r\\n", b"\\r")', '_CHUNK_TERMINATORS = (b"\\n", b"\\r\\n", b"\\r", b"")'),
    _stress_mut("stress-6-tuple-latch-left-open", "R19.2", "stress-6-", "status_sent, headers_sent = status_set, headers_set", "status_sent, headers_sent = None, headers_set"),
    _stress_mut("stress-6-status-code-from-second-token", "R19.2", "stress-6-", "code_str, msg = status_parts\n", "msg, code_str = status_parts\n"),
    _stress_mut("stress-7-de-morgan-admits-199", "R19.1", "stress-7-", "(code < 100 or code >= 200)", "(code < 100 or code >= 199)"),
    _stress_mut("stress-7-de-morgan-or-for-and", "R19.1", "stress-7-", "and (code < 100 or code >= 200)\n", "or (code < 100 or code >= 200)\n"),
    _stress_mut("stress-8-nested-helper-latch-on-header-list", "R19.2", "stress-8-", "if status_sent is not None:\n                return\n", "if headers_sent:\n                return\n"),
    _stress_mut("stress-8-nested-helper-chunks-1xx", "R19.1", "stress-8-", "or (100 <= code < 200)\n", "or (100 < code < 200)\n"),
    _stress_mut("stress-9-header-dict-never-merged", "R19.4", "stress-9-", "\n        environ.update(header_environ)\n", "\n"),
    _stress_mut("stress-10-casefolded-value-compared-with-capital", "R19.4", "stress-10-", '.casefold() == "chunked"', '.casefold() == "Chunked"'),
    _stress_mut("stress-11-netloc-dropped-without-scheme", "R19.4", "stress-11-", "if scheme or not netloc\n", "if not scheme or not netloc\n"),
]

# own variants of the shapes accepted in round 6
_STRESS_OWN = [
    {'name': 'own-reader-multi-statement-parser-method', 'edits': [('serving.py',
  '        return True\n'
  '\n'
  '    def read_chunk_len(self) -> int:\n'
  '        try:\n'
  '            line = self._rfile.readline().decode("latin1")\n'
  '            _len = int(line.strip(), 16)\n'
  '        except ValueError as e:\n'
  '            raise OSError("Invalid chunk header") from e\n',
  '        return True\n'
  '\n'
  '    def _parse_size(self, line: bytes) -> int:\n'
  '        text = line.decode("latin1")\n'
  '        return int(text.strip(), 16)\n'
  '\n'
  '    def read_chunk_len(self) -> int:\n'
  '        try:\n'
  '            _len = self._parse_size(self._rfile.readline())\n'
  '        except ValueError as e:\n'
  '            raise OSError("Invalid chunk header") from e\n')]},
    {'name': 'own-reader-parser-method-converts-error-itself', 'edits': [('serving.py',
  '        return True\n'
  '\n'
  '    def read_chunk_len(self) -> int:\n'
  '        try:\n'
  '            line = self._rfile.readline().decode("latin1")\n'
  '            _len = int(line.strip(), 16)\n'
  '        except ValueError as e:\n'
  '            raise OSError("Invalid chunk header") from e\n'
  '        if _len < 0:\n'
  '            raise OSError("Negative chunk length not allowed")\n',
  '        return True\n'
  '\n'
  '    def _parse_size(self, line: bytes) -> int:\n'
  '        try:\n'
  '            return int(line.decode("latin1").strip(), 16)\n'
  '        except ValueError as e:\n'
  '            raise OSError("Invalid chunk header") from e\n'
  '\n'
  '    def read_chunk_len(self) -> int:\n'
  '        try:\n'
  '            raw = self._rfile.readline()\n'
  '        except ValueError as e:\n'
  '            raise OSError("Invalid chunk header") from e\n'
  '        _len = self._parse_size(raw)\n'
  '        if _len < 0:\n'
  '            raise OSError("Negative chunk length not allowed")\n')]},
    {'name': 'own-header-block-in-closure-helper-guard-in-writer', 'edits': [('serving.py',
  '        chunk_response: bool = False\n'
  '\n'
  '        def write(data: bytes) -> None:\n'
  '            nonlocal status_sent, headers_sent, chunk_response\n'
  '            assert status_set is not None, "write() before start_response"\n'
  '            assert headers_set is not None, "write() before start_response"\n'
  '            if status_sent is None:\n'
  '                status_sent = status_set\n'
  '                headers_sent = headers_set\n'
  '                try:\n'
  '                    code_str, msg = status_sent.split(None, 1)\n'
  '                except ValueError:\n'
  '                    code_str, msg = status_sent, ""\n'
  '                code = int(code_str)\n'
  '                self.send_response(code, msg)\n'
  '                header_keys = set()\n'
  '                for key, value in headers_sent:\n'
  '                    self.send_header(key, value)\n'
  '                    header_keys.add(key.lower())\n'
  '\n'
  '                # Use chunked transfer encoding if there is no content\n'
  '                # length. Do not use for 1xx and 204 responses. 304\n'
  '                # responses and HEAD requests are also excluded, which\n'
  '                # is the more conservative behavior and matches other\n'
  '                # parts of the code.\n'
  '                # https://httpwg.org/specs/rfc7230.html#rfc.section.3.3.1\n'
  '                if (\n'
  '                    not (\n'
  '                        "content-length" in header_keys\n'
  '                        or environ["REQUEST_METHOD"] == "HEAD"\n'
  '                        or (100 <= code < 200)\n'
  '                        or code in {204, 304}\n'
  '                    )\n'
  '                    and self.protocol_version >= "HTTP/1.1"\n'
  '                ):\n'
  '                    chunk_response = True\n'
  '                    self.send_header("Transfer-Encoding", "chunked")\n'
  '\n'
  '                # Always close the connection. This disables HTTP/1.1\n'
  "                # keep-alive connections. They aren't handled well by\n"
  "                # Python's http.server because it doesn't know how to\n"
  '                # drain the stream before the next request line.\n'
  '                self.send_header("Connection", "close")\n'
  '                self.end_headers()\n'
  '\n'
  '            assert isinstance(data, bytes), "applications must write bytes"\n',
  '        chunk_response: bool = False\n'
  '\n'
  '        def send_status_and_headers() -> None:\n'
  '            nonlocal status_sent, headers_sent, chunk_response\n'
  '            status_sent = status_set\n'
  '            headers_sent = headers_set\n'
  '            try:\n'
  '                code_str, msg = status_sent.split(None, 1)\n'
  '            except ValueError:\n'
  '                code_str, msg = status_sent, ""\n'
  '            code = int(code_str)\n'
  '            self.send_response(code, msg)\n'
  '            header_keys = set()\n'
  '            for key, value in headers_sent:\n'
  '                self.send_header(key, value)\n'
  '                header_keys.add(key.lower())\n'
  '\n'
  '            # Use chunked transfer encoding if there is no content\n'
  '            # length. Do not use for 1xx and 204 responses. 304\n'
  '            # responses and HEAD requests are also excluded, which\n'
  '            # is the more conservative behavior and matches other\n'
  '            # parts of the code.\n'
  '            # https://httpwg.org/specs/rfc7230.html#rfc.section.3.3.1\n'
  '            if (\n'
  '                not (\n'
  '                    "content-length" in header_keys\n'
  '                    or environ["REQUEST_METHOD"] == "HEAD"\n'
  '                    or (100 <= code < 200)\n'
  '                    or code in {204, 304}\n'
  '                )\n'
  '                and self.protocol_version >= "HTTP/1.1"\n'
  '            ):\n'
  '                chunk_response = True\n'
  '                self.send_header("Transfer-Encoding", "chunked")\n'
  '\n'
  '            # Always close the connection. This disables HTTP/1.1\n'
  "            # keep-alive connections. They aren't handled well by\n"
  "            # Python's http.server because it doesn't know how to\n"
  '            # drain the stream before the next request line.\n'
  '            self.send_header("Connection", "close")\n'
  '            self.end_headers()\n'
  '\n'
  '        def write(data: bytes) -> None:\n'
  '            assert status_set is not None, "write() before start_response"\n'
  '            assert headers_set is not None, "write() before start_response"\n'
  '            if status_sent is None:\n'
  '                send_status_and_headers()\n'
  '\n'
  '            assert isinstance(data, bytes), "applications must write bytes"\n')]},
    {'name': 'own-latch-tuple-other-order', 'edits': [('serving.py',
  '            assert headers_set is not None, "write() before start_response"\n'
  '            if status_sent is None:\n'
  '                status_sent = status_set\n'
  '                headers_sent = headers_set\n'
  '                try:\n'
  '                    code_str, msg = status_sent.split(None, 1)\n',
  '            assert headers_set is not None, "write() before start_response"\n'
  '            if status_sent is None:\n'
  '                headers_sent, status_sent = headers_set, status_set\n'
  '                try:\n'
  '                    code_str, msg = status_sent.split(None, 1)\n')]},
    {'name': 'own-setup-override-delegates', 'edits': [('serving.py',
  '    def server_version(self) -> str:  # type: ignore\n        return self.server._server_version\n\n    def make_environ(self) -> WSGIEnvironment:\n',
  '    def server_version(self) -> str:  # type: ignore\n        return self.server._server_version\n\n    def setup(self) -> None:\n        super().setup()\n\n    def make_environ(self) -> WSGIEnvironment:\n')]},
]


def _own_mut(name, expect, twin, old, new):
    tw = next(t_ for t_ in _STRESS_OWN if t_["name"] == twin)
    assert sum(n_.count(old) for _, _, n_ in tw["edits"]) == 1, (name, old)
    return {"name": name, "expect": expect, "edits": [(f_, o_, n_.replace(old, new)) for f_, o_, n_ in tw["edits"]]}


TWINS += _STRESS_OWN
MUTANTS += [
    _own_mut("own-parser-method-reads-decimal", "R19.3", "own-reader-multi-statement-parser-method", "return int(text.strip(), 16)", "return int(text.strip())"),
    _own_mut("own-parser-method-lets-value-error-out", "R19.3", "own-reader-parser-method-converts-error-itself", 'return int(line.decode("latin1").strip(), 16)\n        except ValueError as e:', 'return int(line.decode("latin1").strip(), 16)\n        except TypeError as e:'),
    _own_mut("own-closure-helper-chunks-304", "R19.1", "own-header-block-in-closure-helper-guard-in-writer", "or code in {204, 304}", "or code in {204}"),
    _own_mut("own-closure-helper-guard-on-header-list", "R19.2", "own-header-block-in-closure-helper-guard-in-writer", "            if status_sent is None:\n                send_status_and_headers()\n", "            if not headers_sent:\n                send_status_and_headers()\n"),
    _own_mut("own-latch-tuple-other-order-left-open", "R19.2", "own-latch-tuple-other-order", "headers_sent, status_sent = headers_set, status_set", "headers_sent, status_sent = headers_set, None"),
    _own_mut("own-setup-override-unbuffers-first", "R19.5", "own-setup-override-delegates", "        super().setup()\n", "        self.rbufsize = 0\n        super().setup()\n"),
]

# ---- round 6b (stress, second author): different restructurings of the same functions ----
_STRESS_TWINS_B = [
    {'name': 'stress-b1-reader-multi-statement-parse-method', 'edits': [('serving.py',
  '        return True\n'
  '\n'
  '    def read_chunk_len(self) -> int:\n'
  '        try:\n'
  '            line = self._rfile.readline().decode("latin1")\n'
  '            _len = int(line.strip(), 16)\n'
  '        except ValueError as e:\n'
  '            raise OSError("Invalid chunk header") from e\n',
  '        return True\n'
  '\n'
  '    def _parse_size(self, line: bytes) -> int:\n'
  '        """Parse the hexadecimal size out of a raw chunk header line."""\n'
  '        text = line.decode("latin1")\n'
  '        text = text.strip()\n'
  '        return int(text, 16)\n'
  '\n'
  '    def read_chunk_len(self) -> int:\n'
  '        try:\n'
  '            _len = self._parse_size(self._rfile.readline())\n'
  '        except ValueError as e:\n'
  '            raise OSError("Invalid chunk header") from e\n')]},
    {'name': 'stress-b2-reader-module-function-reads-and-converts', 'edits': [('serving.py',
  '\n\nclass DechunkedInput(io.RawIOBase):\n    """An input stream that handles Transfer-Encoding \'chunked\'"""\n',
  '\n'
  '\n'
  'def _read_chunk_header(rfile: t.IO[bytes]) -> int:\n'
  '    """Read one chunk header line from ``rfile`` and return the size it\n'
  '    announces. A line that is not a hexadecimal number is an ``OSError``.\n'
  '    """\n'
  '    try:\n'
  '        line = rfile.readline().decode("latin1")\n'
  '        return int(line.strip(), 16)\n'
  '    except ValueError as e:\n'
  '        raise OSError("Invalid chunk header") from e\n'
  '\n'
  '\n'
  'class DechunkedInput(io.RawIOBase):\n'
  '    """An input stream that handles Transfer-Encoding \'chunked\'"""\n'),
 ('serving.py',
  '\n'
  '    def read_chunk_len(self) -> int:\n'
  '        try:\n'
  '            line = self._rfile.readline().decode("latin1")\n'
  '            _len = int(line.strip(), 16)\n'
  '        except ValueError as e:\n'
  '            raise OSError("Invalid chunk header") from e\n'
  '        if _len < 0:\n'
  '            raise OSError("Negative chunk length not allowed")\n',
  '\n    def read_chunk_len(self) -> int:\n        _len = _read_chunk_header(self._rfile)\n        if _len < 0:\n            raise OSError("Negative chunk length not allowed")\n')]},
    {'name': 'stress-b3-readinto-while-true-break', 'edits': [('serving.py',
  '    def readinto(self, buf: bytearray) -> int:  # type: ignore\n        read = 0\n        while not self._done and read < len(buf):\n            if self._len == 0:\n                # This is the first chunk or we fully consumed the previous\n',
  '    def readinto(self, buf: bytearray) -> int:  # type: ignore\n'
  '        read = 0\n'
  '        while True:\n'
  '            # Stop once the final chunk was seen or buf has been filled.\n'
  '            if self._done or read >= len(buf):\n'
  '                break\n'
  '\n'
  '            if self._len == 0:\n'
  '                # This is the first chunk or we fully consumed the previous\n')]},
    {'name': 'stress-b4-readinto-min-as-conditional-slice-end-local', 'edits': [('serving.py',
  '                # buffer. If this operation fully consumes the chunk, this will\n'
  '                # reset self._len to 0.\n'
  '                n = min(len(buf), self._len)\n'
  '\n'
  '                # If (read + chunk size) becomes more than len(buf), buf will\n',
  '                # buffer. If this operation fully consumes the chunk, this will\n'
  '                # reset self._len to 0.\n'
  '                n = self._len if self._len < len(buf) else len(buf)\n'
  '\n'
  '                # If (read + chunk size) becomes more than len(buf), buf will\n'),
 ('serving.py',
  '                    raise OSError("Unexpected end of chunked data")\n\n                buf[read : read + n] = data\n                self._len -= n\n                read += n\n\n            if self._len == 0:\n',
  '                    raise OSError("Unexpected end of chunked data")\n\n                end = read + n\n                buf[read:end] = data\n                read = end\n                self._len -= n\n\n            if self._len == 0:\n')]},
    {'name': 'stress-b5-readinto-done-test-nested-terminator-unrolled', 'edits': [('serving.py',
  '                self._len = self.read_chunk_len()\n'
  '\n'
  '            if self._len == 0:\n'
  '                # Found the final chunk of size 0. The stream is now exhausted,\n'
  '                # but there is still a final newline that should be consumed\n'
  '                self._done = True\n'
  '\n'
  '            if self._len > 0:\n',
  '                self._len = self.read_chunk_len()\n'
  '\n'
  '                if self._len == 0:\n'
  '                    # Found the final chunk of size 0. The stream is now\n'
  '                    # exhausted, but there is still a final newline that\n'
  '                    # should be consumed\n'
  '                    self._done = True\n'
  '\n'
  '            if self._len > 0:\n'),
 ('serving.py',
  '                # consumed. This also applies to the 0-sized final chunk\n'
  '                terminator = self._rfile.readline()\n'
  '                if terminator not in (b"\\n", b"\\r\\n", b"\\r"):\n'
  '                    raise OSError("Missing chunk terminating newline")\n'
  '\n',
  '                # consumed. This also applies to the 0-sized final chunk\n'
  '                terminator = self._rfile.readline()\n'
  '                if (\n'
  '                    terminator != b"\\n"\n'
  '                    and terminator != b"\\r\\n"\n'
  '                    and terminator != b"\\r"\n'
  '                ):\n'
  '                    raise OSError("Missing chunk terminating newline")\n'
  '\n')]},
    {'name': 'stress-b6-write-should-chunk-predicate', 'edits': [('serving.py',
  '        chunk_response: bool = False\n\n        def write(data: bytes) -> None:\n            nonlocal status_sent, headers_sent, chunk_response\n',
  '        chunk_response: bool = False\n'
  '\n'
  '        def should_chunk(code: int, header_keys: set[str]) -> bool:\n'
  '            # Use chunked transfer encoding if there is no content\n'
  '            # length. Do not use for 1xx and 204 responses. 304\n'
  '            # responses and HEAD requests are also excluded, which\n'
  '            # is the more conservative behavior and matches other\n'
  '            # parts of the code.\n'
  '            # https://httpwg.org/specs/rfc7230.html#rfc.section.3.3.1\n'
  '            return (\n'
  '                not (\n'
  '                    "content-length" in header_keys\n'
  '                    or environ["REQUEST_METHOD"] == "HEAD"\n'
  '                    or (100 <= code < 200)\n'
  '                    or code in {204, 304}\n'
  '                )\n'
  '                and self.protocol_version >= "HTTP/1.1"\n'
  '            )\n'
  '\n'
  '        def write(data: bytes) -> None:\n'
  '            nonlocal status_sent, headers_sent, chunk_response\n'),
 ('serving.py',
  '                    header_keys.add(key.lower())\n'
  '\n'
  '                # Use chunked transfer encoding if there is no content\n'
  '                # length. Do not use for 1xx and 204 responses. 304\n'
  '                # responses and HEAD requests are also excluded, which\n'
  '                # is the more conservative behavior and matches other\n'
  '                # parts of the code.\n'
  '                # https://httpwg.org/specs/rfc7230.html#rfc.section.3.3.1\n'
  '                if (\n'
  '                    not (\n'
  '                        "content-length" in header_keys\n'
  '                        or environ["REQUEST_METHOD"] == "HEAD"\n'
  '                        or (100 <= code < 200)\n'
  '                        or code in {204, 304}\n'
  '                    )\n'
  '                    and self.protocol_version >= "HTTP/1.1"\n'
  '                ):\n'
  '                    chunk_response = True\n'
  '                    self.send_header("Transfer-Encoding", "chunked")\n',
  '                    header_keys.add(key.lower())\n\n                if should_chunk(code, header_keys):\n                    chunk_response = True\n                    self.send_header("Transfer-Encoding", "chunked")\n')]},
    {'name': 'stress-b7-write-use-chunked-local-branches-merged-format-x', 'edits': [('serving.py',
  '                # parts of the code.\n                # https://httpwg.org/specs/rfc7230.html#rfc.section.3.3.1\n                if (\n                    not (\n                        "content-length" in header_keys\n',
  '                # parts of the code.\n                # https://httpwg.org/specs/rfc7230.html#rfc.section.3.3.1\n                use_chunked = (\n                    not (\n                        "content-length" in header_keys\n'),
 ('serving.py',
  '                    )\n                    and self.protocol_version >= "HTTP/1.1"\n                ):\n                    chunk_response = True\n                    self.send_header("Transfer-Encoding", "chunked")\n',
  '                    )\n'
  '                    and self.protocol_version >= "HTTP/1.1"\n'
  '                )\n'
  '\n'
  '                if use_chunked:\n'
  '                    chunk_response = True\n'
  '                    self.send_header("Transfer-Encoding", "chunked")\n'),
 ('serving.py',
  '\n'
  '            if data:\n'
  '                if chunk_response:\n'
  '                    self.wfile.write(hex(len(data))[2:].encode())\n'
  '                    self.wfile.write(b"\\r\\n")\n'
  '\n'
  '                self.wfile.write(data)\n'
  '\n'
  '                if chunk_response:\n'
  '                    self.wfile.write(b"\\r\\n")\n'
  '\n',
  '\n'
  '            if data:\n'
  '                if not chunk_response:\n'
  '                    self.wfile.write(data)\n'
  '                else:\n'
  '                    self.wfile.write(f"{len(data):x}".encode())\n'
  '                    self.wfile.write(b"\\r\\n")\n'
  '                    self.wfile.write(data)\n'
  '                    self.wfile.write(b"\\r\\n")\n'
  '\n')]},
    {'name': 'stress-b8-execute-drain-helper-start-response-tuple', 'edits': [('serving.py',
  '            elif headers_set:\n                raise AssertionError("Headers already set")\n            status_set = status\n            headers_set = headers\n            return write\n\n        def execute(app: WSGIApplication) -> None:\n',
  '            elif headers_set:\n'
  '                raise AssertionError("Headers already set")\n'
  '            status_set, headers_set = status, headers\n'
  '            return write\n'
  '\n'
  '        def drain_input() -> None:\n'
  '            # Check for any remaining data in the read socket, and discard it. This\n'
  '            # will read past request.max_content_length, but lets the client see a\n'
  '            # 413 response instead of a connection reset failure. If we supported\n'
  '            # keep-alive connections, this naive approach would break by reading the\n'
  '            # next request line. Since we know that write (above) closes every\n'
  '            # connection we can read everything.\n'
  '            selector = selectors.DefaultSelector()\n'
  '            selector.register(self.connection, selectors.EVENT_READ)\n'
  '            total_size = 0\n'
  '            total_reads = 0\n'
  '\n'
  '            # A timeout of 0 tends to fail because a client needs a small amount of\n'
  '            # time to continue sending its data.\n'
  '            while selector.select(timeout=0.01):\n'
  '                # Only read 10MB into memory at a time.\n'
  '                data = self.rfile.read(10_000_000)\n'
  '                total_size += len(data)\n'
  '                total_reads += 1\n'
  '\n'
  '                # Stop reading on no data, >=10GB, or 1000 reads. If a client sends\n'
  "                # more than that, they'll get a connection reset failure.\n"
  '                if not data or total_size >= 10_000_000_000 or total_reads > 1000:\n'
  '                    break\n'
  '\n'
  '            selector.close()\n'
  '\n'
  '        def execute(app: WSGIApplication) -> None:\n'),
 ('serving.py',
  '                    self.wfile.write(b"0\\r\\n\\r\\n")\n'
  '            finally:\n'
  '                # Check for any remaining data in the read socket, and discard it. This\n'
  '                # will read past request.max_content_length, but lets the client see a\n'
  '                # 413 response instead of a connection reset failure. If we supported\n'
  '                # keep-alive connections, this naive approach would break by reading the\n'
  '                # next request line. Since we know that write (above) closes every\n'
  '                # connection we can read everything.\n'
  '                selector = selectors.DefaultSelector()\n'
  '                selector.register(self.connection, selectors.EVENT_READ)\n'
  '                total_size = 0\n'
  '                total_reads = 0\n'
  '\n'
  '                # A timeout of 0 tends to fail because a client needs a small amount of\n'
  '                # time to continue sending its data.\n'
  '                while selector.select(timeout=0.01):\n'
  '                    # Only read 10MB into memory at a time.\n'
  '                    data = self.rfile.read(10_000_000)\n'
  '                    total_size += len(data)\n'
  '                    total_reads += 1\n'
  '\n'
  '                    # Stop reading on no data, >=10GB, or 1000 reads. If a client sends\n'
  "                    # more than that, they'll get a connection reset failure.\n"
  '                    if not data or total_size >= 10_000_000_000 or total_reads > 1000:\n'
  '                        break\n'
  '\n'
  '                selector.close()\n'
  '\n'
  '                if hasattr(application_iter, "close"):\n',
  '                    self.wfile.write(b"0\\r\\n\\r\\n")\n            finally:\n                drain_input()\n\n                if hasattr(application_iter, "close"):\n')]},
    {'name': 'stress-b9-environ-underscore-guard-flipped-name-steps', 'edits': [('serving.py',
  '\n'
  '        for key, value in self.headers.items():\n'
  '            if "_" in key:\n'
  '                continue\n'
  '\n'
  '            key = key.upper().replace("-", "_")\n'
  '            value = value.replace("\\r\\n", "")\n'
  '            if key not in ("CONTENT_TYPE", "CONTENT_LENGTH"):\n'
  '                key = f"HTTP_{key}"\n'
  '                if key in environ:\n'
  '                    value = f"{environ[key]},{value}"\n'
  '            environ[key] = value\n'
  '\n'
  '        if environ.get("HTTP_TRANSFER_ENCODING", "").strip().lower() == "chunked":\n',
  '\n'
  '        for key, value in self.headers.items():\n'
  '            # Header names with underscores are dropped, they would be\n'
  '            # ambiguous once dashes are mapped to underscores.\n'
  '            if "_" not in key:\n'
  '                name = key.upper()\n'
  '                name = name.replace("-", "_")\n'
  '                value = value.replace("\\r\\n", "")\n'
  '                if name not in ("CONTENT_TYPE", "CONTENT_LENGTH"):\n'
  '                    name = f"HTTP_{name}"\n'
  '                    if name in environ:\n'
  '                        value = f"{environ[name]},{value}"\n'
  '                environ[name] = value\n'
  '\n'
  '        if environ.get("HTTP_TRANSFER_ENCODING", "").strip().lower() == "chunked":\n')]},
    {'name': 'stress-b10-environ-unprefixed-frozenset-items-hoisted-join', 'edits': [('serving.py',
  '\nLISTEN_QUEUE = 128\n\n_TSSLContextArg = t.Optional[\n',
  '\nLISTEN_QUEUE = 128\n\n# CGI variables that are copied from request headers without the\n# ``HTTP_`` prefix.\n_UNPREFIXED_HEADER_VARS = frozenset({"CONTENT_TYPE", "CONTENT_LENGTH"})\n\n_TSSLContextArg = t.Optional[\n'),
 ('serving.py',
  '        }\n\n        for key, value in self.headers.items():\n            if "_" in key:\n                continue\n',
  '        }\n\n        header_items = self.headers.items()\n\n        for key, value in header_items:\n            if "_" in key:\n                continue\n'),
 ('serving.py',
  '            key = key.upper().replace("-", "_")\n'
  '            value = value.replace("\\r\\n", "")\n'
  '            if key not in ("CONTENT_TYPE", "CONTENT_LENGTH"):\n'
  '                key = f"HTTP_{key}"\n'
  '                if key in environ:\n'
  '                    value = f"{environ[key]},{value}"\n'
  '            environ[key] = value\n'
  '\n',
  '            key = key.upper().replace("-", "_")\n'
  '            value = value.replace("\\r\\n", "")\n'
  '            if key not in _UNPREFIXED_HEADER_VARS:\n'
  '                key = f"HTTP_{key}"\n'
  '                if key in environ:\n'
  '                    value = ",".join((environ[key], value))\n'
  '            environ[key] = value\n'
  '\n')]},
    {'name': 'stress-b11-environ-transfer-encoding-try-keyerror-stores-swapped', 'edits': [('serving.py',
  '            environ[key] = value\n'
  '\n'
  '        if environ.get("HTTP_TRANSFER_ENCODING", "").strip().lower() == "chunked":\n'
  '            environ["wsgi.input_terminated"] = True\n'
  '            environ["wsgi.input"] = DechunkedInput(environ["wsgi.input"])\n'
  '\n'
  '        # Per RFC 2616, if the URL is absolute, use that as the host.\n',
  '            environ[key] = value\n'
  '\n'
  '        try:\n'
  '            transfer_encoding = environ["HTTP_TRANSFER_ENCODING"]\n'
  '        except KeyError:\n'
  '            transfer_encoding = ""\n'
  '\n'
  '        if transfer_encoding.strip().lower() == "chunked":\n'
  '            environ["wsgi.input"] = DechunkedInput(self.rfile)\n'
  '            environ["wsgi.input_terminated"] = True\n'
  '\n'
  '        # Per RFC 2616, if the URL is absolute, use that as the host.\n')]},
    {'name': 'stress-b12-handle-uses-ssl-local-init-tests-flipped', 'edits': [('serving.py',
  '            self.connection_dropped(e)\n        except Exception as e:\n            if self.server.ssl_context is not None and is_ssl_error(e):\n                self.log_error("SSL error occurred: %s", e)\n            else:\n',
  '            self.connection_dropped(e)\n'
  '        except Exception as e:\n'
  '            uses_ssl = self.server.ssl_context is not None\n'
  '\n'
  '            if uses_ssl and is_ssl_error(e):\n'
  '                self.log_error("SSL error occurred: %s", e)\n'
  '            else:\n'),
 ('serving.py',
  '        )\n\n        if fd is None:\n            # No existing socket descriptor, do bind_and_activate=True.\n            try:\n',
  '        )\n'
  '\n'
  '        if fd is not None:\n'
  '            # TCPServer automatically opens a socket even if bind_and_activate is False.\n'
  '            # Close it to silence a ResourceWarning.\n'
  '            self.server_close()\n'
  '\n'
  '            # Use the passed in socket directly.\n'
  '            self.socket = socket.fromfd(fd, address_family, socket.SOCK_STREAM)\n'
  '            self.server_address = self.socket.getsockname()\n'
  '        else:\n'
  '            # No existing socket descriptor, do bind_and_activate=True.\n'
  '            try:\n'),
 ('serving.py',
  '                self.server_close()\n'
  '                raise\n'
  '        else:\n'
  '            # TCPServer automatically opens a socket even if bind_and_activate is False.\n'
  '            # Close it to silence a ResourceWarning.\n'
  '            self.server_close()\n'
  '\n'
  '            # Use the passed in socket directly.\n'
  '            self.socket = socket.fromfd(fd, address_family, socket.SOCK_STREAM)\n'
  '            self.server_address = self.socket.getsockname()\n'
  '\n'
  '        if address_family != af_unix:\n',
  '                self.server_close()\n                raise\n\n        if address_family != af_unix:\n'),
 ('serving.py',
  '            self.port = self.server_address[1]\n\n        if ssl_context is not None:\n            if isinstance(ssl_context, tuple):\n                ssl_context = load_ssl_context(*ssl_context)\n',
  '            self.port = self.server_address[1]\n'
  '\n'
  '        if ssl_context is None:\n'
  '            self.ssl_context: ssl.SSLContext | None = None\n'
  '        else:\n'
  '            if isinstance(ssl_context, tuple):\n'
  '                ssl_context = load_ssl_context(*ssl_context)\n'),
 ('serving.py',
  '\n            self.socket = ssl_context.wrap_socket(self.socket, server_side=True)\n            self.ssl_context: ssl.SSLContext | None = ssl_context\n        else:\n            self.ssl_context = None\n\n        import importlib.metadata\n',
  '\n            self.socket = ssl_context.wrap_socket(self.socket, server_side=True)\n            self.ssl_context = ssl_context\n\n        import importlib.metadata\n')]},
]


def _stress_mut_b(name, expect, twin, old, new):
    tw = next(t_ for t_ in _STRESS_TWINS_B if t_["name"].startswith(twin))
    assert sum(n_.count(old) for _, _, n_ in tw["edits"]) == 1, (name, old)
    return {"name": name, "expect": expect, "edits": [(f_, o_, n_.replace(old, new)) for f_, o_, n_ in tw["edits"]]}


TWINS += _STRESS_TWINS_B
MUTANTS += [
    _stress_mut_b("stress-b2-module-reader-parses-octal", "R19.3", "stress-b2-", "return int(line.strip(), 16)", "return int(line.strip(), 8)"),
    _stress_mut_b("stress-b2-module-reader-lets-value-error-out", "R19.3", "stress-b2-", "    except ValueError as e:\n        raise OSError", "    except UnicodeError as e:\n        raise OSError"),
    _stress_mut_b("stress-b3-while-true-header-read-with-a-byte-left", "R19.3", "stress-b3-", "break\n\n            if self._len == 0:\n", "break\n\n            if self._len <= 1:\n"),
    _stress_mut_b("stress-b5-unrolled-terminator-test-admits-anything-but-lf", "R19.3", "stress-b5-", '                    and terminator != b"\\r\\n"\n', ""),
    _stress_mut_b("stress-b6-predicate-chunks-304", "R19.1", "stress-b6-", "or code in {204, 304}", "or code in {204}"),
    _stress_mut_b("stress-b11-missing-header-reads-as-chunked", "R19.4", "stress-b11-", '        except KeyError:\n            transfer_encoding = ""\n', '        except KeyError:\n            transfer_encoding = "chunked"\n'),
]


# =====================================================================
# third detection round: R19.6 (the authority of an absolute-form request target is HTTP_HOST on return; nothing of the URL
# is written over the Host header otherwise) and the end-flag latch of R19.3 (nothing is read once the flag is set).
# Own variants first (mutants and neutral twins of the Host override in different spellings), then the 15 fresh
# refactorings of make_environ / readinto written without knowledge of the checker, each shape with a mutant.
_D3_HOST = '        if request_url.scheme and request_url.netloc:\n            environ["HTTP_HOST"] = request_url.netloc\n'
_D3_SPLIT = '        request_url = urlsplit(self.path)\n'
_D3_LOOP = '        for key, value in self.headers.items():\n            if "_" in key:\n'
_D3_TE = '        if environ.get("HTTP_TRANSFER_ENCODING", "").strip().lower() == "chunked":\n'
_D3_RET = '        return environ\n\n    def run_wsgi(self) -> None:\n'
_D3_STORE = '            environ[key] = value\n'
_D3_LIT_END = '            "SERVER_PROTOCOL": self.request_version,\n        }\n'


def _d3m(name, *edits):
    return {"name": name, "expect": "R19.6", "edits": list(edits)}


def _d3t(name, *edits):
    return {"name": name, "edits": list(edits)}


_D3_OWN = [
 _d3m("d3-m-setdefault", (S, _D3_HOST, '        if request_url.scheme and request_url.netloc:\n            environ.setdefault("HTTP_HOST", request_url.netloc)\n')),
 _d3m("d3-m-not-in-guard", (S, _D3_HOST, '        if request_url.scheme and request_url.netloc and "HTTP_HOST" not in environ:\n            environ["HTTP_HOST"] = request_url.netloc\n')),
 _d3m("d3-m-nested-not-in", (S, _D3_HOST, '        if request_url.scheme and request_url.netloc:\n            if "HTTP_HOST" not in environ.keys():\n                environ["HTTP_HOST"] = request_url.netloc\n')),
 _d3m("d3-m-before-loop", (S, _D3_HOST, ''), (S, _D3_LOOP, _D3_HOST + '\n' + _D3_LOOP)),
 _d3m("d3-m-get-or", (S, _D3_HOST, '        if request_url.scheme and request_url.netloc:\n            environ["HTTP_HOST"] = environ.get("HTTP_HOST") or request_url.netloc\n')),
 _d3m("d3-m-no-scheme-test", (S, _D3_HOST, '        if request_url.netloc:\n            environ["HTTP_HOST"] = request_url.netloc\n')),
 _d3m("d3-m-removed", (S, _D3_HOST, '')),
 _d3m("d3-m-inverted", (S, _D3_HOST, '        if not (request_url.scheme and request_url.netloc):\n            environ["HTTP_HOST"] = request_url.netloc\n')),
 _d3m("d3-m-elif-te", (S, _D3_HOST, ''), (S, '            environ["wsgi.input"] = DechunkedInput(environ["wsgi.input"])\n', '            environ["wsgi.input"] = DechunkedInput(environ["wsgi.input"])\n        elif request_url.scheme and request_url.netloc:\n            environ["HTTP_HOST"] = request_url.netloc\n')),
 _d3m("d3-m-in-literal", (S, _D3_HOST, ''), (S, _D3_LIT_END, '            "SERVER_PROTOCOL": self.request_version,\n        }\n        if request_url.scheme and request_url.netloc:\n            environ.update({"HTTP_HOST": request_url.netloc})\n')),
 _d3m("d3-m-update-reversed", (S, _D3_HOST, '        if request_url.scheme and request_url.netloc:\n            environ = {"HTTP_HOST": request_url.netloc, **environ}\n')),
 _d3m("d3-m-or-instead-of-and", (S, _D3_HOST, '        if request_url.scheme or request_url.netloc:\n            environ["HTTP_HOST"] = request_url.netloc\n')),
 _d3m("d3-m-local-flag-setdefault", (S, _D3_SPLIT, _D3_SPLIT + '        is_absolute = bool(request_url.scheme and request_url.netloc)\n'), (S, _D3_HOST, '        if is_absolute:\n            environ.setdefault("HTTP_HOST", request_url.netloc)\n')),
 _d3m("d3-m-stores-path", (S, _D3_HOST, '        if request_url.scheme and request_url.netloc:\n            environ["HTTP_HOST"] = request_url.path\n')),
 _d3t("d3-t-local-flag", (S, _D3_SPLIT, _D3_SPLIT + '        is_absolute = bool(request_url.scheme and request_url.netloc)\n'), (S, _D3_HOST, '        if is_absolute:\n            environ["HTTP_HOST"] = request_url.netloc\n')),
 _d3t("d3-t-nested-ifs", (S, _D3_HOST, '        if request_url.scheme:\n            if request_url.netloc:\n                environ["HTTP_HOST"] = request_url.netloc\n')),
 _d3t("d3-t-update-literal", (S, _D3_HOST, '        if request_url.scheme and request_url.netloc:\n            environ.update({"HTTP_HOST": request_url.netloc})\n')),
 _d3t("d3-t-update-kw", (S, _D3_HOST, '        if request_url.scheme and request_url.netloc:\n            environ.update(HTTP_HOST=request_url.netloc)\n')),
 _d3t("d3-t-ior", (S, _D3_HOST, '        if request_url.scheme and request_url.netloc:\n            environ |= {"HTTP_HOST": request_url.netloc}\n')),
 _d3t("d3-t-unpack", (S, _D3_HOST, '        scheme, netloc, _path, _query, _frag = request_url\n        if scheme and netloc:\n            environ["HTTP_HOST"] = netloc\n')),
 _d3t("d3-t-after-try", (S, _D3_HOST, ''), (S, _D3_RET, _D3_HOST + '\n' + _D3_RET)),
 _d3t("d3-t-before-te", (S, _D3_HOST, ''), (S, _D3_TE, _D3_HOST + '\n' + _D3_TE)),
 _d3t("d3-t-condexp", (S, _D3_HOST, '        authority = request_url.netloc if request_url.scheme and request_url.netloc else None\n        if authority is not None:\n            environ["HTTP_HOST"] = authority\n')),
 _d3t("d3-t-condexp-truthy", (S, _D3_HOST, '        authority = request_url.scheme and request_url.netloc\n        if authority:\n            environ["HTTP_HOST"] = authority\n')),
 _d3t("d3-t-flipped", (S, _D3_HOST, '        if not request_url.scheme or not request_url.netloc:\n            pass\n        else:\n            environ["HTTP_HOST"] = request_url.netloc\n')),
 _d3t("d3-t-local-const", (S, _D3_HOST, '        host_key = "HTTP_HOST"\n        if request_url.scheme and request_url.netloc:\n            environ[host_key] = request_url.netloc\n')),
 _d3t("d3-t-module-const", (S, 'class WSGIRequestHandler(BaseHTTPRequestHandler):\n', '_HOST_KEY = "HTTP_HOST"\n\n\nclass WSGIRequestHandler(BaseHTTPRequestHandler):\n'), (S, _D3_HOST, '        if request_url.scheme and request_url.netloc:\n            environ[_HOST_KEY] = request_url.netloc\n')),
 _d3t("d3-t-method-helper", (S, _D3_HOST, '        self._apply_absolute_host(environ, request_url)\n'), (S, '    def run_wsgi(self) -> None:\n', '    def _apply_absolute_host(self, environ, request_url) -> None:\n        if request_url.scheme and request_url.netloc:\n            environ["HTTP_HOST"] = request_url.netloc\n\n    def run_wsgi(self) -> None:\n')),
 _d3t("d3-t-method-helper-guard", (S, _D3_HOST, '        self._apply_absolute_host(environ, request_url)\n'), (S, '    def run_wsgi(self) -> None:\n', '    def _apply_absolute_host(self, env, url) -> None:\n        if not url.scheme or not url.netloc:\n            return\n        env["HTTP_HOST"] = url.netloc\n\n    def run_wsgi(self) -> None:\n')),
 _d3t("d3-t-module-predicate", (S, 'class WSGIRequestHandler(BaseHTTPRequestHandler):\n', 'def _is_absolute_form(url) -> bool:\n    return bool(url.scheme and url.netloc)\n\n\nclass WSGIRequestHandler(BaseHTTPRequestHandler):\n'), (S, _D3_HOST, '        if _is_absolute_form(request_url):\n            environ["HTTP_HOST"] = request_url.netloc\n')),
 _d3t("d3-t-module-helper-stmt", (S, 'class WSGIRequestHandler(BaseHTTPRequestHandler):\n', 'def _apply_absolute_host(environ, url) -> None:\n    if url.scheme and url.netloc:\n        environ["HTTP_HOST"] = url.netloc\n\n\nclass WSGIRequestHandler(BaseHTTPRequestHandler):\n'), (S, _D3_HOST, '        _apply_absolute_host(environ, request_url)\n')),
 _d3t("d3-t-pop-then-set", (S, _D3_HOST, '        if request_url.scheme and request_url.netloc:\n            environ.pop("HTTP_HOST", None)\n            environ["HTTP_HOST"] = request_url.netloc\n')),
 _d3t("d3-t-setdefault-after-pop", (S, _D3_HOST, '        if request_url.scheme and request_url.netloc:\n            environ.pop("HTTP_HOST", None)\n            environ.setdefault("HTTP_HOST", request_url.netloc)\n')),
 _d3t("d3-t-rebuild", (S, _D3_HOST, '        if request_url.scheme and request_url.netloc:\n            environ = {**environ, "HTTP_HOST": request_url.netloc}\n')),
 _d3t("d3-t-host-local", (S, _D3_HOST, '        netloc = request_url.netloc\n        if request_url.scheme and netloc:\n            environ["HTTP_HOST"] = netloc\n')),
 _d3t("d3-t-loop-skips-host", (S, _D3_SPLIT, _D3_SPLIT + '        absolute = bool(request_url.scheme and request_url.netloc)\n'), (S, _D3_STORE, '            if absolute and key == "HTTP_HOST":\n                continue\n' + _D3_STORE), (S, _D3_HOST, '        if absolute:\n            environ["HTTP_HOST"] = request_url.netloc\n')),
 _d3t("d3-t-loop-skips-host-literal", (S, _D3_SPLIT, _D3_SPLIT + '        absolute = bool(request_url.scheme and request_url.netloc)\n'), (S, _D3_STORE, '            if absolute and key == "HTTP_HOST":\n                continue\n' + _D3_STORE), (S, _D3_HOST, ''), (S, _D3_LIT_END, _D3_LIT_END + '        if absolute:\n            environ["HTTP_HOST"] = request_url.netloc\n')),
]

# the two variants in which the header loop itself leaves the Host header out for an absolute-form target are not neutral
# for the loop clauses of R19.4 ("every other header is stored"), which judge one iteration without the URL: not listed
_D3_OWN = [v_ for v_ in _D3_OWN if not v_["name"].startswith("d3-t-loop-skips-host")]
MUTANTS += [v_ for v_ in _D3_OWN if "expect" in v_]
TWINS += [v_ for v_ in _D3_OWN if "expect" not in v_]

_DET3_TWINS = [{'edits': [('serving.py',
             '        request_url = urlsplit(self.path)\n        url_scheme = "http" if self.server.ssl_context is None else "https"\n',
             '        request_url = urlsplit(self.path)\n'
             '        # An absolute-form request target carries its own authority.\n'
             '        is_absolute = bool(request_url.scheme and request_url.netloc)\n'
             '        url_scheme = "http" if self.server.ssl_context is None else "https"\n'),
            ('serving.py',
             '        # We\'re using "has a scheme" to indicate an absolute URL.\n'
             '        if request_url.scheme and request_url.netloc:\n'
             '            environ["HTTP_HOST"] = request_url.netloc\n',
             '        # We\'re using "has a scheme" to indicate an absolute URL.\n'
             '        if is_absolute:\n'
             '            environ["HTTP_HOST"] = request_url.netloc\n')],
  'name': 'det3-p1-make_environ: compute boolean local is_absolute right after urlsplit and test it at the Ho'},
 {'edits': [('serving.py',
             '    def make_environ(self) -> WSGIEnvironment:\n'
             '        request_url = urlsplit(self.path)\n'
             '        url_scheme = "http" if self.server.ssl_context is None else "https"\n',
             '    def make_environ(self) -> WSGIEnvironment:\n'
             '        scheme, netloc, path, query, _ = urlsplit(self.path)\n'
             '        url_scheme = "http" if self.server.ssl_context is None else "https"\n'),
            ('serving.py',
             '        # netloc, prepend it to the path again.\n'
             '        if not request_url.scheme and request_url.netloc:\n'
             '            path_info = f"/{request_url.netloc}{request_url.path}"\n'
             '        else:\n'
             '            path_info = request_url.path\n'
             '\n',
             '        # netloc, prepend it to the path again.\n'
             '        if not scheme and netloc:\n'
             '            path_info = f"/{netloc}{path}"\n'
             '        else:\n'
             '            path_info = path\n'
             '\n'),
            ('serving.py',
             '            "PATH_INFO": _wsgi_encoding_dance(path_info),\n'
             '            "QUERY_STRING": _wsgi_encoding_dance(request_url.query),\n'
             '            # Non-standard, added by mod_wsgi, uWSGI\n',
             '            "PATH_INFO": _wsgi_encoding_dance(path_info),\n'
             '            "QUERY_STRING": _wsgi_encoding_dance(query),\n'
             '            # Non-standard, added by mod_wsgi, uWSGI\n'),
            ('serving.py',
             '        # We\'re using "has a scheme" to indicate an absolute URL.\n'
             '        if request_url.scheme and request_url.netloc:\n'
             '            environ["HTTP_HOST"] = request_url.netloc\n'
             '\n',
             '        # We\'re using "has a scheme" to indicate an absolute URL.\n'
             '        if scheme and netloc:\n'
             '            environ["HTTP_HOST"] = netloc\n'
             '\n')],
  'name': 'det3-p2-make_environ: unpack the urlsplit result into locals (scheme, netloc, path, query, _) and '},
 {'edits': [('serving.py',
             '\n        for key, value in self.headers.items():\n',
             '\n'
             '        # Collect the request headers separately, none of the keys above\n'
             '        # start with HTTP_, so repeated headers only need to be looked up here.\n'
             '        header_environ: dict[str, str] = {}\n'
             '\n'
             '        for key, value in self.headers.items():\n'),
            ('serving.py',
             '                key = f"HTTP_{key}"\n'
             '                if key in environ:\n'
             '                    value = f"{environ[key]},{value}"\n'
             '            environ[key] = value\n'
             '\n',
             '                key = f"HTTP_{key}"\n'
             '                if key in header_environ:\n'
             '                    value = f"{header_environ[key]},{value}"\n'
             '            header_environ[key] = value\n'
             '\n'
             '        environ.update(header_environ)\n'
             '\n')],
  'name': 'det3-p3-make_environ: collect the request headers in a local dict (header_environ) first, then mer'},
 {'edits': [('serving.py',
             '        # We\'re using "has a scheme" to indicate an absolute URL.\n'
             '        if request_url.scheme and request_url.netloc:\n'
             '            environ["HTTP_HOST"] = request_url.netloc\n'
             '\n',
             '        # We\'re using "has a scheme" to indicate an absolute URL.\n'
             '        host = (\n'
             '            request_url.netloc\n'
             '            if request_url.scheme and request_url.netloc\n'
             '            else environ.get("HTTP_HOST")\n'
             '        )\n'
             '\n'
             '        if host is not None:\n'
             '            environ["HTTP_HOST"] = host\n'
             '\n')],
  'name': 'det3-p4-make_environ: choose the host value with a conditional expression (netloc if absolute-form'},
 {'edits': [('serving.py',
             '    from cryptography.x509 import Certificate\n\n',
             '    from cryptography.x509 import Certificate\n\n\n#: WSGI environ key holding the request\'s Host header.\nHOST_KEY = "HTTP_HOST"\n\n'),
            ('serving.py',
             '        # We\'re using "has a scheme" to indicate an absolute URL.\n'
             '        if request_url.scheme and request_url.netloc:\n'
             '            environ["HTTP_HOST"] = request_url.netloc\n'
             '\n',
             '        # We\'re using "has a scheme" to indicate an absolute URL.\n'
             '        if request_url.scheme:\n'
             '            # A scheme without an authority ("http:/path") says nothing\n'
             '            # about the host, keep the Host header in that case.\n'
             '            if request_url.netloc:\n'
             '                environ[HOST_KEY] = request_url.netloc\n'
             '\n')],
  'name': 'det3-p5-make_environ: hoist module constant HOST_KEY = "HTTP_HOST" and split the absolute-form con'},
 {'edits': [('serving.py',
             '\n'
             '        # Per RFC 2616, if the URL is absolute, use that as the host.\n'
             '        # We\'re using "has a scheme" to indicate an absolute URL.\n'
             '        if request_url.scheme and request_url.netloc:\n'
             '            environ["HTTP_HOST"] = request_url.netloc\n'
             '\n'
             '        try:\n',
             '\n        try:\n'),
            ('serving.py',
             '            # Not using TLS, the socket will not have getpeercert().\n            pass\n\n        return environ\n',
             '            # Not using TLS, the socket will not have getpeercert().\n'
             '            pass\n'
             '\n'
             '        # Per RFC 2616, if the URL is absolute, use that as the host.\n'
             '        # We\'re using "has a scheme" to indicate an absolute URL.\n'
             '        if request_url.scheme and request_url.netloc:\n'
             '            environ["HTTP_HOST"] = request_url.netloc\n'
             '\n'
             '        return environ\n')],
  'name': 'det3-p6-make_environ: reorder independent statements - move the absolute-form Host override after '},
 {'edits': [('serving.py',
             '\n'
             '        for key, value in self.headers.items():\n'
             '            if "_" in key:\n'
             '                continue\n'
             '\n'
             '            key = key.upper().replace("-", "_")\n'
             '            value = value.replace("\\r\\n", "")\n'
             '            if key not in ("CONTENT_TYPE", "CONTENT_LENGTH"):\n'
             '                key = f"HTTP_{key}"\n'
             '                if key in environ:\n'
             '                    value = f"{environ[key]},{value}"\n'
             '            environ[key] = value\n'
             '\n',
             '\n        self._add_request_headers(environ)\n\n'),
            ('serving.py',
             '\n    def make_environ(self) -> WSGIEnvironment:\n',
             '\n'
             '    def _add_request_headers(self, environ: WSGIEnvironment) -> None:\n'
             '        """Copy the request headers into ``environ`` using the CGI naming\n'
             '        rules. Repeated headers are joined with a comma.\n'
             '        """\n'
             '        for key, value in self.headers.items():\n'
             '            if "_" in key:\n'
             '                continue\n'
             '\n'
             '            key = key.upper().replace("-", "_")\n'
             '            value = value.replace("\\r\\n", "")\n'
             '            if key not in ("CONTENT_TYPE", "CONTENT_LENGTH"):\n'
             '                key = f"HTTP_{key}"\n'
             '                if key in environ:\n'
             '                    value = f"{environ[key]},{value}"\n'
             '            environ[key] = value\n'
             '\n'
             '    def make_environ(self) -> WSGIEnvironment:\n')],
  'name': 'det3-p7-make_environ: extract the header-copy loop into a private handler method _add_request_head'},
 {'edits': [('serving.py',
             '\nclass WSGIRequestHandler(BaseHTTPRequestHandler):\n',
             '\n'
             'def _use_target_authority(environ: WSGIEnvironment, scheme: str, netloc: str) -> None:\n'
             '    """Per RFC 2616, if the request URL is absolute, use its authority as\n'
             '    the host, ignoring any ``Host`` header.\n'
             '\n'
             '    We\'re using "has a scheme" to indicate an absolute URL.\n'
             '    """\n'
             '    if not scheme or not netloc:\n'
             '        # origin-form, asterisk-form, or "//host/path" without a scheme\n'
             '        return\n'
             '\n'
             '    environ["HTTP_HOST"] = netloc\n'
             '\n'
             '\n'
             'class WSGIRequestHandler(BaseHTTPRequestHandler):\n'),
            ('serving.py',
             '\n'
             '        # Per RFC 2616, if the URL is absolute, use that as the host.\n'
             '        # We\'re using "has a scheme" to indicate an absolute URL.\n'
             '        if request_url.scheme and request_url.netloc:\n'
             '            environ["HTTP_HOST"] = request_url.netloc\n'
             '\n',
             '\n        _use_target_authority(environ, request_url.scheme, request_url.netloc)\n\n')],
  'name': 'det3-p8-make_environ: extract the Host override into a module-level helper _use_target_authority(e'},
 {'edits': [('serving.py',
             '            "werkzeug.socket": self.connection,\n            "SERVER_SOFTWARE": self.server_version,\n',
             '            "werkzeug.socket": self.connection,\n'
             '        }\n'
             '        # CGI-style request and server variables.\n'
             '        environ |= {\n'
             '            "SERVER_SOFTWARE": self.server_version,\n')],
  'name': 'det3-p9-make_environ: build environ in two steps - the wsgi.* keys as a dict literal, then the CGI'},
 {'edits': [('serving.py',
             '        for key, value in self.headers.items():\n'
             '            if "_" in key:\n'
             '                continue\n'
             '\n'
             '            key = key.upper().replace("-", "_")\n'
             '            value = value.replace("\\r\\n", "")\n'
             '            if key not in ("CONTENT_TYPE", "CONTENT_LENGTH"):\n'
             '                key = f"HTTP_{key}"\n'
             '                if key in environ:\n'
             '                    value = f"{environ[key]},{value}"\n'
             '            environ[key] = value\n'
             '\n',
             '        for key, value in self.headers.items():\n'
             '            if "_" not in key:\n'
             '                key = key.upper().replace("-", "_")\n'
             '                value = value.replace("\\r\\n", "")\n'
             '\n'
             '                if key in ("CONTENT_TYPE", "CONTENT_LENGTH"):\n'
             '                    # These two are passed without the HTTP_ prefix, and the\n'
             '                    # last one wins.\n'
             '                    environ[key] = value\n'
             '                else:\n'
             '                    key = f"HTTP_{key}"\n'
             '\n'
             '                    if key not in environ:\n'
             '                        environ[key] = value\n'
             '                    else:\n'
             '                        environ[key] = f"{environ[key]},{value}"\n'
             '\n')],
  'name': 'det3-p10-make_environ: header loop without continue - flip the underscore test and the CONTENT_TYPE'},
 {'edits': [('serving.py',
             '\n'
             '        for key, value in self.headers.items():\n'
             '            if "_" in key:\n'
             '                continue\n'
             '\n'
             '            key = key.upper().replace("-", "_")\n'
             '            value = value.replace("\\r\\n", "")\n'
             '            if key not in ("CONTENT_TYPE", "CONTENT_LENGTH"):\n'
             '                key = f"HTTP_{key}"\n'
             '                if key in environ:\n'
             '                    value = f"{environ[key]},{value}"\n'
             '            environ[key] = value\n'
             '\n',
             '\n'
             '        # Header names containing an underscore are dropped, they would be\n'
             '        # indistinguishable from the dashed spelling.\n'
             '        cgi_headers = [\n'
             '            (name.upper().replace("-", "_"), field.replace("\\r\\n", ""))\n'
             '            for name, field in self.headers.items()\n'
             '            if "_" not in name\n'
             '        ]\n'
             '\n'
             '        for name, field in cgi_headers:\n'
             '            if name not in ("CONTENT_TYPE", "CONTENT_LENGTH"):\n'
             '                name = f"HTTP_{name}"\n'
             '                if name in environ:\n'
             '                    field = f"{environ[name]},{field}"\n'
             '            environ[name] = field\n'
             '\n')],
  'name': 'det3-p11-make_environ: rename loop locals (key/value -> name/field) and normalise/filter the header'},
 {'edits': [('serving.py',
             '                key = f"HTTP_{key}"\n'
             '                if key in environ:\n'
             '                    value = f"{environ[key]},{value}"\n'
             '            environ[key] = value\n',
             '                key = f"HTTP_{key}"\n'
             '                try:\n'
             '                    value = f"{environ[key]},{value}"\n'
             '                except KeyError:\n'
             '                    # First occurrence of this header.\n'
             '                    pass\n'
             '            environ[key] = value\n'),
            ('serving.py',
             '        # We\'re using "has a scheme" to indicate an absolute URL.\n'
             '        if request_url.scheme and request_url.netloc:\n'
             '            environ["HTTP_HOST"] = request_url.netloc\n'
             '\n',
             '        # We\'re using "has a scheme" to indicate an absolute URL.\n'
             '        target_host = request_url.netloc if request_url.scheme else ""\n'
             '\n'
             '        if target_host:\n'
             '            environ.update(HTTP_HOST=target_host)\n'
             '\n')],
  'name': 'det3-p12-make_environ: repeated-header pre-check (key in environ) replaced by try/except KeyError; '},
 {'edits': [('serving.py',
             '        read = 0\n        while not self._done and read < len(buf):\n            if self._len == 0:\n',
             '        read = 0\n'
             '        # The buffer is filled in place and never resized.\n'
             '        size = len(buf)\n'
             '\n'
             '        while not (self._done or read >= size):\n'
             '            if self._len == 0:\n'),
            ('serving.py',
             '                # reset self._len to 0.\n                n = min(len(buf), self._len)\n\n',
             '                # reset self._len to 0.\n                n = min(size, self._len)\n\n'),
            ('serving.py',
             '                # required. So only read as much data as can fit in buf.\n'
             '                if read + n > len(buf):\n'
             '                    n = len(buf) - read\n'
             '\n',
             '                # required. So only read as much data as can fit in buf.\n'
             '                if read + n > size:\n'
             '                    n = size - read\n'
             '\n')],
  'name': 'det3-p13-DechunkedInput.readinto: hoist size = len(buf) into a local and rewrite the loop condition'},
 {'edits': [('serving.py',
             '        read = 0\n        while not self._done and read < len(buf):\n            if self._len == 0:\n',
             '        read = 0\n        while read < len(buf):\n            if self._done:\n                break\n\n            if self._len == 0:\n'),
            ('serving.py',
             '\n'
             '            if self._len == 0:\n'
             '                # Found the final chunk of size 0. The stream is now exhausted,\n'
             '                # but there is still a final newline that should be consumed\n'
             '                self._done = True\n'
             '\n',
             '\n'
             '                if self._len == 0:\n'
             '                    # Found the final chunk of size 0. The stream is now\n'
             '                    # exhausted, but there is still a final newline that\n'
             '                    # should be consumed\n'
             '                    self._done = True\n'
             '\n')],
  'name': "det3-p14-DechunkedInput.readinto: split the loop condition (while read < len(buf), with 'if self._d"},
 {'edits': [('serving.py',
             '\n'
             '    def readinto(self, buf: bytearray) -> int:  # type: ignore\n'
             '        read = 0\n'
             '        while not self._done and read < len(buf):\n'
             '            if self._len == 0:\n',
             '\n'
             '    def _skip_chunk_terminator(self) -> None:\n'
             '        terminator = self._rfile.readline()\n'
             '        if terminator not in (b"\\n", b"\\r\\n", b"\\r"):\n'
             '            raise OSError("Missing chunk terminating newline")\n'
             '\n'
             '    def readinto(self, buf: bytearray) -> int:  # type: ignore\n'
             '        if self._done:\n'
             '            # The final chunk was already seen by an earlier call.\n'
             '            return 0\n'
             '\n'
             '        read = 0\n'
             '        while read < len(buf):\n'
             '            if self._len == 0:\n'),
            ('serving.py',
             '                # consumed. This also applies to the 0-sized final chunk\n'
             '                terminator = self._rfile.readline()\n'
             '                if terminator not in (b"\\n", b"\\r\\n", b"\\r"):\n'
             '                    raise OSError("Missing chunk terminating newline")\n'
             '\n',
             '                # consumed. This also applies to the 0-sized final chunk\n'
             '                self._skip_chunk_terminator()\n'
             '\n'
             '            if self._done:\n'
             '                break\n'
             '\n')],
  'name': "det3-p15-DechunkedInput.readinto: early 'if self._done: return 0' guard, loop on read < len(buf) on"}]


def _det3_mut(name, expect, twin, old, new):
    tw = next(t_ for t_ in _DET3_TWINS if t_["name"].startswith(twin))
    assert sum(n_.count(old) for _, _, n_ in tw["edits"]) == 1, (name, old)
    return {"name": name, "expect": expect, "edits": [(f_, o_, n_.replace(old, new)) for f_, o_, n_ in tw["edits"]]}


TWINS += _DET3_TWINS
_D3_SET = '            environ["HTTP_HOST"] = request_url.netloc\n'
_D3_SETDEFAULT = '        if request_url.scheme and request_url.netloc:\n            environ.setdefault("HTTP_HOST", request_url.netloc)\n'
_D3_WHILE = "        while not self._done and read < len(buf):\n"


def _det3_mut2(name, expect, twin, *extra):
    tw = next(t_ for t_ in _DET3_TWINS if t_["name"].startswith(twin))
    return {"name": name, "expect": expect, "edits": list(tw["edits"]) + list(extra)}


MUTANTS += [
    # the end flag is a latch (R19.3): the original shape and the three fresh shapes of the loop
    {"name": "d3-latch-while-forgets-the-end-flag", "expect": "R19.3", "edits": [(S, _D3_WHILE, "        while read < len(buf):\n")]},
    {"name": "d3-latch-flag-tested-only-with-data-read", "expect": "R19.3", "edits": [(S, _D3_WHILE, "        while not (self._done and read) and read < len(buf):\n")]},
    {"name": "d3-latch-flag-tested-after-the-header-read", "expect": "R19.3", "edits": [(S, _D3_WHILE, "        while read < len(buf):\n"), (S, "                self._len = self.read_chunk_len()\n\n", "                self._len = self.read_chunk_len()\n\n            if self._done:\n                break\n\n")]},
    _det3_mut("det3-p13-de-morgan-loop-forgets-the-end-flag", "R19.3", "det3-p13-", "while not (self._done or read >= size):", "while not (read >= size):"),
    _det3_mut("det3-p14-break-on-end-flag-removed", "R19.3", "det3-p14-", "            if self._done:\n                break\n", "            if self._done and read:\n                break\n"),
    _det3_mut("det3-p15-no-guard-for-a-later-call", "R19.3", "det3-p15-", "        if self._done:\n            # The final chunk was already seen by an earlier call.\n            return 0\n", "        if self._done and not buf:\n            # The final chunk was already seen by an earlier call.\n            return 0\n"),
    # R19.6 in the fresh shapes
    _det3_mut("det3-p1-flag-local-then-setdefault", "R19.6", "det3-p1-", "        if is_absolute:\n", "        if is_absolute and \"HTTP_HOST\" not in environ:\n"),
    _det3_mut("det3-p2-unpacked-netloc-alone-overrides", "R19.6", "det3-p2-", "        if scheme and netloc:\n", "        if netloc:\n"),
    _det3_mut2("det3-p3-header-dict-merged-over-a-default-host", "R19.6", "det3-p3-", (S, _D3_HOST, _D3_SETDEFAULT)),
    _det3_mut("det3-p4-conditional-host-only-fills-in", "R19.6", "det3-p4-", '            environ["HTTP_HOST"] = host\n', '            environ.setdefault("HTTP_HOST", host)\n'),
    _det3_mut("det3-p5-module-constant-key-setdefault", "R19.6", "det3-p5-", "                environ[HOST_KEY] = request_url.netloc\n", "                environ.setdefault(HOST_KEY, request_url.netloc)\n"),
    _det3_mut("det3-p6-override-after-try-keeps-client-host", "R19.6", "det3-p6-", '        if request_url.scheme and request_url.netloc:\n            environ["HTTP_HOST"] = request_url.netloc\n', '        if request_url.scheme and request_url.netloc:\n            environ["HTTP_HOST"] = environ.get("HTTP_HOST", request_url.netloc)\n'),
    _det3_mut2("det3-p7-host-stored-before-the-header-method", "R19.6", "det3-p7-", (S, _D3_HOST, ""), (S, "        self._add_request_headers(environ)\n", _D3_HOST + "        self._add_request_headers(environ)\n")),
    _det3_mut("det3-p8-module-helper-yields-to-host-header", "R19.6", "det3-p8-", "    if not scheme or not netloc:\n", "    if not scheme or not netloc or \"HTTP_HOST\" in environ:\n"),
    _det3_mut2("det3-p9-continued-literal-uppercases-method", "R19.4", "det3-p9-", (S, '            "REQUEST_METHOD": self.command,\n', '            "REQUEST_METHOD": self.command.upper(),\n')),
    _det3_mut("det3-p10-branching-loop-drops-repeated-header", "R19.4", "det3-p10-", '                        environ[key] = f"{environ[key]},{value}"\n', "                        pass\n"),
    _det3_mut("det3-p11-comprehension-keeps-underscore-names", "R19.4", "det3-p11-", '            if "_" not in name\n', ""),
    _det3_mut("det3-p12-keyerror-join-reversed", "R19.4", "det3-p12-", 'value = f"{environ[key]},{value}"', 'value = f"{value},{environ[key]}"'),
    _det3_mut("det3-p12-host-from-scheme-only", "R19.6", "det3-p12-", 'target_host = request_url.netloc if request_url.scheme else ""', 'target_host = request_url.netloc or request_url.scheme'),
]

_D3_RI = "    def readinto(self, buf: bytearray) -> int:  # type: ignore\n"
_D3_LATCH_TWINS = [
    {"name": "d3-latch-predicate-method-with-arguments", "edits": [(S, _D3_WHILE, "        while self._more(read, buf):\n"), (S, _D3_RI, "    def _more(self, read, buf) -> bool:\n        return not self._done and read < len(buf)\n\n" + _D3_RI)]},
    {"name": "d3-latch-predicate-method-no-arguments", "edits": [(S, _D3_WHILE, "        while not self._finished() and read < len(buf):\n"), (S, _D3_RI, "    def _finished(self) -> bool:\n        return self._done\n\n" + _D3_RI)]},
    {"name": "d3-latch-property", "edits": [(S, _D3_WHILE, "        while not self.finished and read < len(buf):\n"), (S, _D3_RI, "    @property\n    def finished(self) -> bool:\n        return self._done\n\n" + _D3_RI)]},
    {"name": "d3-latch-local-copy", "edits": [(S, _D3_WHILE, "        done = self._done\n        while not done and read < len(buf):\n"), (S, "                self._done = True\n", "                self._done = done = True\n")]},
    {"name": "d3-latch-is-false", "edits": [(S, _D3_WHILE, "        while self._done is False and read < len(buf):\n")]},
    {"name": "d3-latch-while-true-break", "edits": [(S, _D3_WHILE, "        while True:\n            if self._done or read >= len(buf):\n                break\n")]},
]
TWINS += _D3_LATCH_TWINS
MUTANTS += [
    {"name": "d3-latch-while-true-break-forgets-the-flag", "expect": "R19.3", "edits": [(S, _D3_WHILE, "        while True:\n            if read >= len(buf):\n                break\n")]},
    {"name": "d3-latch-predicate-method-forgets-the-flag", "expect": "R19.3", "edits": [(S, _D3_WHILE, "        while not self._finished() and read < len(buf):\n"), (S, _D3_RI, "    def _finished(self) -> bool:\n        return self._done and self._len > 0\n\n" + _D3_RI)]},
]

# further own variants of the Host override (walrus, get-then-override, other spellings of the absolute-form test, header dict)
_D3_HLOOP = '''        for key, value in self.headers.items():
            if "_" in key:
                continue

            key = key.upper().replace("-", "_")
            value = value.replace("\\r\\n", "")
            if key not in ("CONTENT_TYPE", "CONTENT_LENGTH"):
                key = f"HTTP_{key}"
                if key in environ:
                    value = f"{environ[key]},{value}"
            environ[key] = value
'''
_D3_HD = '''        received: dict[str, str] = {}
        for key, value in self.headers.items():
            if "_" in key:
                continue

            key = key.upper().replace("-", "_")
            value = value.replace("\\r\\n", "")
            if key not in ("CONTENT_TYPE", "CONTENT_LENGTH"):
                key = f"HTTP_{key}"
                if key in received:
                    value = f"{received[key]},{value}"
            received[key] = value
'''
_D3_OWN2 = [
 _d3t("d3-t-hd-host-into-dict", (S, _D3_HLOOP, _D3_HD + '        if request_url.scheme and request_url.netloc:\n            received["HTTP_HOST"] = request_url.netloc\n        environ.update(received)\n'), (S, _D3_HOST, '')),
 _d3m("d3-m-hd-merge-after-host", (S, _D3_HLOOP, _D3_HD), (S, _D3_HOST, _D3_HOST + '        environ.update(received)\n')),
 _d3m("d3-m-hd-setdefault-into-dict", (S, _D3_HLOOP, _D3_HD + '        if request_url.scheme and request_url.netloc:\n            received.setdefault("HTTP_HOST", request_url.netloc)\n        environ.update(received)\n'), (S, _D3_HOST, '')),
 _d3t("d3-t-walrus", (S, _D3_HOST, '        if request_url.scheme and (authority := request_url.netloc):\n            environ["HTTP_HOST"] = authority\n')),
 _d3t("d3-t-get-then-override", (S, _D3_HOST, '        host = environ.get("HTTP_HOST")\n        if request_url.scheme and request_url.netloc:\n            host = request_url.netloc\n        if host is not None:\n            environ["HTTP_HOST"] = host\n')),
 _d3t("d3-t-compare-empty", (S, _D3_HOST, '        if request_url.scheme != "" and request_url.netloc != "":\n            environ["HTTP_HOST"] = request_url.netloc\n')),
 _d3t("d3-t-all", (S, _D3_HOST, '        if all((request_url.scheme, request_url.netloc)):\n            environ["HTTP_HOST"] = request_url.netloc\n')),
 _d3t("d3-t-len", (S, _D3_HOST, '        if len(request_url.scheme) > 0 and len(request_url.netloc) > 0:\n            environ["HTTP_HOST"] = request_url.netloc\n')),
 _d3t("d3-t-index", (S, _D3_HOST, '        if request_url[0] and request_url[1]:\n            environ["HTTP_HOST"] = request_url[1]\n')),
 _d3t("d3-t-resplit", (S, _D3_HOST, '        target = urlsplit(self.path)\n        if target.scheme and target.netloc:\n            environ["HTTP_HOST"] = target.netloc\n')),
 _d3t("d3-t-del-then-set", (S, _D3_HOST, '        if request_url.scheme and request_url.netloc:\n            if "HTTP_HOST" in environ:\n                del environ["HTTP_HOST"]\n            environ["HTTP_HOST"] = request_url.netloc\n')),
 _d3m("d3-m-get-default", (S, _D3_HOST, '        if request_url.scheme and request_url.netloc:\n            environ["HTTP_HOST"] = environ.get("HTTP_HOST", request_url.netloc)\n')),
 _d3m("d3-m-if-not-get", (S, _D3_HOST, '        if request_url.scheme and request_url.netloc and not environ.get("HTTP_HOST"):\n            environ["HTTP_HOST"] = request_url.netloc\n')),
 _d3m("d3-m-only-https", (S, _D3_HOST, '        if request_url.scheme == "https" and request_url.netloc:\n            environ["HTTP_HOST"] = request_url.netloc\n')),
]

# storing the authority into the local header dict before the merge is outside what the header-dict clause of R19.4 models (analysis error): not listed
_D3_OWN2 = [v_ for v_ in _D3_OWN2 if v_["name"] not in ("d3-t-hd-host-into-dict", "d3-m-hd-setdefault-into-dict")]
MUTANTS += [v_ for v_ in _D3_OWN2 if "expect" in v_]
TWINS += [v_ for v_ in _D3_OWN2 if "expect" not in v_]
_DET3_TWINS_Q = [{'edits': [('serving.py',
             '        # netloc, prepend it to the path again.\n'
             '        if not request_url.scheme and request_url.netloc:\n'
             '            path_info = f"/{request_url.netloc}{request_url.path}"\n'
             '        else:\n'
             '            path_info = request_url.path\n'
             '\n',
             '        # netloc, prepend it to the path again.\n'
             '        netloc = request_url.netloc\n'
             '        host_override: str | None = None\n'
             '\n'
             '        if not netloc:\n'
             '            path_info = request_url.path\n'
             '        elif request_url.scheme:\n'
             '            # Absolute URL, its authority replaces the Host header below.\n'
             '            path_info = request_url.path\n'
             '            host_override = netloc\n'
             '        else:\n'
             '            path_info = f"/{netloc}{request_url.path}"\n'
             '\n'),
            ('serving.py',
             '        # We\'re using "has a scheme" to indicate an absolute URL.\n'
             '        if request_url.scheme and request_url.netloc:\n'
             '            environ["HTTP_HOST"] = request_url.netloc\n'
             '\n',
             '        # We\'re using "has a scheme" to indicate an absolute URL.\n'
             '        if host_override is not None:\n'
             '            environ["HTTP_HOST"] = host_override\n'
             '\n')],
  'name': 'det3-q1-one if/elif/else on (netloc, scheme) decides path_info and a deferred host_override local '},
 {'edits': [('serving.py',
             '\n    def make_environ(self) -> WSGIEnvironment:\n',
             '\n'
             '    @staticmethod\n'
             '    def _absolute_authority(request_url: t.Any) -> str | None:\n'
             '        """The authority of an absolute-form request target, otherwise\n'
             '        ``None``. "Has a scheme" indicates an absolute URL.\n'
             '        """\n'
             '        if not request_url.scheme:\n'
             '            return None\n'
             '\n'
             '        return request_url.netloc or None\n'
             '\n'
             '    def make_environ(self) -> WSGIEnvironment:\n'),
            ('serving.py',
             '        # We\'re using "has a scheme" to indicate an absolute URL.\n'
             '        if request_url.scheme and request_url.netloc:\n'
             '            environ["HTTP_HOST"] = request_url.netloc\n'
             '\n',
             '        # We\'re using "has a scheme" to indicate an absolute URL.\n'
             '        if (authority := self._absolute_authority(request_url)) is not None:\n'
             '            environ["HTTP_HOST"] = authority\n'
             '\n')],
  'name': 'det3-q2-private staticmethod _absolute_authority(url) returning netloc or None, tested with a walr'},
 {'edits': [('serving.py',
             '        # We\'re using "has a scheme" to indicate an absolute URL.\n'
             '        if request_url.scheme and request_url.netloc:\n'
             '            environ["HTTP_HOST"] = request_url.netloc\n'
             '\n',
             '        # We\'re using "has a scheme" to indicate an absolute URL.\n'
             '        scheme, netloc = request_url.scheme, request_url.netloc\n'
             '\n'
             '        if scheme != "" and netloc != "":\n'
             '            environ["HTTP_HOST"] = netloc\n'
             '\n')],
  'name': 'det3-q4-tuple assignment of scheme/netloc just before the override and != "" spelling of both test'},
 {'edits': [('serving.py',
             '\n        path_info = unquote(path_info)\n',
             '\n        authority = request_url.netloc if request_url.scheme else None\n\n        path_info = unquote(path_info)\n'),
            ('serving.py',
             '        # We\'re using "has a scheme" to indicate an absolute URL.\n'
             '        if request_url.scheme and request_url.netloc:\n'
             '            environ["HTTP_HOST"] = request_url.netloc\n'
             '\n',
             '        # We\'re using "has a scheme" to indicate an absolute URL.\n        if authority:\n            environ["HTTP_HOST"] = authority\n\n')],
  'name': 'det3-q5-authority = netloc if scheme else None computed next to path_info, truthiness test at the '},
 {'edits': [('serving.py',
             '                if key in environ:\n                    value = f"{environ[key]},{value}"\n            environ[key] = value\n',
             '                if key in environ:\n                    value = ",".join((environ[key], value))\n            environ[key] = value\n'),
            ('serving.py',
             '        # We\'re using "has a scheme" to indicate an absolute URL.\n'
             '        if request_url.scheme and request_url.netloc:\n'
             '            environ["HTTP_HOST"] = request_url.netloc\n'
             '\n',
             '        # We\'re using "has a scheme" to indicate an absolute URL.\n'
             '        if request_url.scheme and (netloc := request_url.netloc):\n'
             '            environ["HTTP_HOST"] = netloc\n'
             '\n')],
  'name': 'det3-q7-walrus binding of netloc inside the override condition; header join written with str.join'},
 {'edits': [('serving.py',
             '        read = 0\n        while not self._done and read < len(buf):\n            if self._len == 0:\n',
             '        read = 0\n'
             '        rfile = self._rfile\n'
             '\n'
             '        while True:\n'
             '            if self._done:\n'
             '                break\n'
             '\n'
             '            if read >= len(buf):\n'
             '                break\n'
             '\n'
             '            if self._len == 0:\n'),
            ('serving.py', '\n                data = self._rfile.read(n)\n\n', '\n                data = rfile.read(n)\n\n'),
            ('serving.py',
             '                # consumed. This also applies to the 0-sized final chunk\n'
             '                terminator = self._rfile.readline()\n'
             '                if terminator not in (b"\\n", b"\\r\\n", b"\\r"):\n',
             '                # consumed. This also applies to the 0-sized final chunk\n'
             '                terminator = rfile.readline()\n'
             '                if terminator not in (b"\\n", b"\\r\\n", b"\\r"):\n')],
  'name': 'det3-q8-readinto: while True with two explicit breaks (done flag, buffer full) and a local alias f'},
 {'edits': [('serving.py',
             '\n    def read_chunk_len(self) -> int:\n',
             '\n'
             '    @property\n'
             '    def exhausted(self) -> bool:\n'
             '        """Whether the final zero-sized chunk has been seen."""\n'
             '        return self._done\n'
             '\n'
             '    def read_chunk_len(self) -> int:\n'),
            ('serving.py',
             '        read = 0\n        while not self._done and read < len(buf):\n            if self._len == 0:\n',
             '        read = 0\n        while not self.exhausted and read < len(buf):\n            if self._len == 0:\n')],
  'name': 'det3-q9-readinto: _done tested through a read-only property `exhausted`'}]


def _det3_mut_q(name, expect, twin, old, new):
    tw = next(t_ for t_ in _DET3_TWINS_Q if t_["name"].startswith(twin))
    assert sum(n_.count(old) for _, _, n_ in tw["edits"]) == 1, (name, old)
    return {"name": name, "expect": expect, "edits": [(f_, o_, n_.replace(old, new)) for f_, o_, n_ in tw["edits"]]}


TWINS += _DET3_TWINS_Q
MUTANTS += [
    _det3_mut_q("det3-q1-deferred-host-only-fills-in", "R19.6", "det3-q1-", '            environ["HTTP_HOST"] = host_override\n', '            environ.setdefault("HTTP_HOST", host_override)\n'),
    _det3_mut_q("det3-q1-deferred-host-for-slash-slash-path", "R19.6", "det3-q1-", "            path_info = f\"/{netloc}{request_url.path}\"\n", "            path_info = f\"/{netloc}{request_url.path}\"\n            host_override = netloc\n"),
    _det3_mut_q("det3-q2-static-helper-ignores-scheme", "R19.6", "det3-q2-", "        if not request_url.scheme:\n            return None\n", "        if not request_url.netloc:\n            return None\n"),
    _det3_mut_q("det3-q2-static-helper-result-only-fills-in", "R19.6", "det3-q2-", '            environ["HTTP_HOST"] = authority\n', '            environ["HTTP_HOST"] = environ.get("HTTP_HOST", authority)\n'),
    _det3_mut_q("det3-q5-authority-local-without-scheme-test", "R19.6", "det3-q5-", "authority = request_url.netloc if request_url.scheme else None", "authority = request_url.netloc or None"),
    _det3_mut_q("det3-q7-walrus-host-not-in-guard", "R19.6", "det3-q7-", "        if request_url.scheme and (netloc := request_url.netloc):\n", "        if request_url.scheme and (netloc := request_url.netloc) and \"HTTP_HOST\" not in environ:\n"),
    _det3_mut_q("det3-q8-stream-alias-loop-forgets-the-end-flag", "R19.3", "det3-q8-", "            if self._done:\n                break\n", "            if self._done and read:\n                break\n"),
    _det3_mut_q("det3-q9-property-flag-dropped-from-loop", "R19.3", "det3-q9-", "while not self.exhausted and read < len(buf)", "while read < len(buf)"),
]
