"""self-validation battery for C13 (see wzsa/selftest.py)."""
H = "http.py"
MUTANTS = [
    {"name": "range-typo-x1e", "expect": "R13.1", "edits": [(H, r'rb"[\x00-\x1f\",;\\\x7f-\xff]"', r'rb"[\x00-\x1e\",;\\\x7f-\xff]"')]},
    {"name": "semicolon-dropped", "expect": "R13.1", "edits": [(H, r'rb"[\x00-\x1f\",;\\\x7f-\xff]"', r'rb"[\x00-\x1f\",\\\x7f-\xff]"')]},
    {"name": "del-not-escaped", "expect": "R13.1", "edits": [(H, r'rb"[\x00-\x1f\",;\\\x7f-\xff]"', r'rb"[\x00-\x1f\",;\\\x80-\xff]"')]},
    {"name": "octal-two-digits", "expect": "R13.2", "edits": [(H, 'b"\\\\%03o" % v', 'b"\\\\%02o" % v')]},
    {"name": "map-misses-comma", "expect": "R13.2", "edits": [(H, '*b",;", *range(0x7F, 256)', '*b";", *range(0x7F, 256)')]},
    {"name": "no-re-A", "expect": "R13.3", "edits": [(H, r"""_cookie_no_quote_re = re.compile(r"[\w!#$%&'()*+\-./:<=>?@\[\]^`{|}~]*", re.A)""", r"""_cookie_no_quote_re = re.compile(r"[\w!#$%&'()*+\-./:<=>?@\[\]^`{|}~]*")""")]},
    {"name": "fast-path-admits-comma", "expect": "R13.3", "edits": [(H, r"""[\w!#$%&'()*+\-./:<=>?@\[\]^`{|}~]*""", r"""[\w!#$%&'()*+,\-./:<=>?@\[\]^`{|}~]*""")]},
    {"name": "fast-path-match", "expect": "R13.3", "edits": [(H, "if not _cookie_no_quote_re.fullmatch(value):", "if not _cookie_no_quote_re.match(value):")]},
    {"name": "attr-order", "expect": "R13.5", "edits": [(H, '        ("Secure", secure),\n        ("HttpOnly", httponly),', '        ("HttpOnly", httponly),\n        ("Secure", secure),')]},
    {"name": "samesite-unchecked", "expect": "R13.5", "edits": [(H, '        if samesite not in {"Strict", "Lax", "None"}:\n            raise ValueError("SameSite must be \'Strict\', \'Lax\', or \'None\'.")\n', '')]},
    {"name": "path-safe-semicolon", "expect": "R13.5", "edits": [(H, """safe="%!$&'()*+,/:=@\"""", """safe="%!$&'()*+,/:;=@\"""")]},
    {"name": "unslash-regex-two-digit", "expect": "R13.2", "edits": [("sansio/http.py", r'rb"\\([0-3][0-7]{2}|.)"', r'rb"\\([0-7]{2}|.)"')]},
    {"name": "set-cookie-drops-samesite", "expect": "R13.6", "edits": [("sansio/response.py", "                samesite=samesite,\n                partitioned=partitioned,\n            ),\n        )\n\n    def delete_cookie", "                partitioned=partitioned,\n            ),\n        )\n\n    def delete_cookie")]},
]
TWINS = [
    {"name": "escape-more", "edits": [(H, r'rb"[\x00-\x1f\",;\\\x7f-\xff]"', r'rb"[\x00-\x1f\",;\\\x7f-\xff ]"'), (H, '*b",;", *range(0x7F, 256)', '*b",; ", *range(0x7F, 256)')]},
    {"name": "rename-regex", "edits": [(H, "_cookie_slash_re = re.compile", "_cookie_escape_re = re.compile"), (H, "value = _cookie_slash_re.sub(", "value = _cookie_escape_re.sub(")]},
    {"name": "narrower-fast-path", "edits": [(H, r"""[\w!#$%&'()*+\-./:<=>?@\[\]^`{|}~]*""", r"""[\w!#$%&'()*+\-./:<>?@\[\]^`{|}~]*""")]},
]
