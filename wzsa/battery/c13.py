"""self-validation battery for C13 (see wzsa/selftest.py)."""
H = "http.py"
S = "sansio/http.py"
T = "test.py"
R = "sansio/response.py"

# ---- anchors in today's tree ------------------------------------------------
LOOP_HEAD = '    for k, v in (\n        ("Domain", domain),'
LOOP_TAIL = '    ):\n        if v is None or v is False:\n            continue\n\n        if v is True:\n            buf.append(k)\n            continue\n\n        buf.append(f"{k}={v}")\n\n    rv = "; ".join(buf)\n'
PAIR = """    buf = [f"{key.encode().decode('latin1')}={value}"]\n"""
QUOTE = (
    "    if not _cookie_no_quote_re.fullmatch(value):\n"
    "        # Work with bytes here, since a UTF-8 character could be multiple bytes.\n"
    "        value = _cookie_slash_re.sub(\n"
    "            lambda m: _cookie_slash_map[m.group()], value.encode()\n"
    '        ).decode("ascii")\n'
    "        value = f'\"{value}\"'\n"
)
READER = (
    "    for ck, cv in _cookie_re.findall(cookie):\n"
    "        ck = ck.strip()\n"
    "        cv = cv.strip()\n"
    "\n"
    "        if not ck:\n"
    "            continue\n"
    "\n"
    "        if len(cv) >= 2 and cv[0] == cv[-1] == '\"':\n"
    "            # Work with bytes here, since a UTF-8 character could be multiple bytes.\n"
    "            cv = _cookie_unslash_re.sub(\n"
    "                _cookie_unslash_replace, cv[1:-1].encode()\n"
    '            ).decode(errors="replace")\n'
    "\n"
    "        out.append((ck, cv))\n"
    "\n"
    "    return cls(out)\n"
)
CALLBACK = '    v = m.group(1)\n\n    if len(v) == 1:\n        return v\n\n    return int(v, 8).to_bytes(1, "big")\n'
CLIENT = '        header, _, parameters_str = header.partition(";")\n        key, _, value = header.partition("=")\n        decoded_key, decoded_value = next(parse_cookie(header).items())  # type: ignore[call-overload]\n'
SETCOOKIE = (
    "        self.headers.add(\n"
    '            "Set-Cookie",\n'
    "            dump_cookie(\n"
    "                key,\n"
    "                value=value,\n"
    "                max_age=max_age,\n"
    "                expires=expires,\n"
    "                path=path,\n"
    "                domain=domain,\n"
    "                secure=secure,\n"
    "                httponly=httponly,\n"
    "                max_size=self.max_cookie_size,\n"
    "                samesite=samesite,\n"
    "                partitioned=partitioned,\n"
    "            ),\n"
    "        )\n"
)
SANITISE_PATH = "    if path is not None:\n        # safe = https://url.spec.whatwg.org/#url-path-segment-string\n        # as well as percent for things that are already quoted\n        # excluding semicolon since it's part of the header syntax\n        path = quote(path, safe=\"%!$&'()*+,/:=@\")\n"
SANITISE_DOMAIN = '    if domain:\n        domain = domain.partition(":")[0].lstrip(".").encode("idna").decode("ascii")\n'
ENVIRON = '    if isinstance(header, dict):\n        cookie = header.get("HTTP_COOKIE")\n    else:\n        cookie = header\n'


# ---- neutral shapes (each is used by a twin, and by a mutant that breaks the property in that shape) ------------
def comprehension(cond: str) -> list:
    """the attribute loop as a generator fed to list.extend"""
    return [
        (H, LOOP_HEAD, '    buf.extend(\n        k if v is True else f"{k}={v}"\n        for k, v in (\n        ("Domain", domain),'),
        (H, LOOP_TAIL, f'    )\n        if {cond}\n    )\n\n    rv = "; ".join(buf)\n'),
    ]


def accumulate(sep: str) -> list:
    """the header accumulated as a string, no list, no join"""
    return [
        (H, PAIR, """    rv = f"{key.encode().decode('latin1')}={value}"\n"""),
        (H, LOOP_TAIL, f'    ):\n        if v is None or v is False:\n            continue\n\n        rv += "{sep}" + (k if v is True else "%s=%s" % (k, v))\n'),
    ]


def attrs_local(secure_pair: str) -> list:
    """attribute table bound to a local, str.format, list +=, the pair appended after the list was created"""
    return [
        (H, PAIR, """    pieces = []\n    pieces.append("{}={}".format(key.encode().decode('latin1'), value))\n"""),
        (H, LOOP_HEAD, '    table = [\n        ["Domain", domain],'),
        (H, '        ("Secure", secure),\n        ("HttpOnly", httponly),', secure_pair),
        (
            H,
            LOOP_TAIL,
            '    ]\n\n    for name, val in table:\n        if val is True:\n            pieces += [name]\n        elif not (val is None or val is False):\n            pieces += ["{}={}".format(name, val)]\n\n    rv = "; ".join(pieces)\n',
        ),
    ]


def quote_helper(test: str) -> list:
    """value quoting in a nested function, match object in a local compared with None, quotes added by join"""
    return [
        (
            H,
            QUOTE,
            "    def quoted(text: str) -> str:\n"
            "        found = _cookie_no_quote_re.fullmatch(text)\n"
            "\n"
            f"        if {test}:\n"
            "            return text\n"
            "\n"
            "        data = text.encode()\n"
            "        data = _cookie_slash_re.sub(lambda m: _cookie_slash_map[m[0]], data)\n"
            "        return \"\".join(['\"', data.decode(\"ascii\"), '\"'])\n"
            "\n"
            "    value = quoted(value)\n",
        )
    ]


def reader_helper(test: str) -> list:
    """parser: generator of stripped pairs + list comprehension + extracted unquote helper with the negated quote test"""
    return [
        (
            S,
            "def parse_cookie(\n    cookie: str | None = None,",
            "def _cookie_unquote(text: str) -> str:\n"
            f"    if {test}:\n"
            "        return text\n"
            "\n"
            "    data = text[1:-1].encode()\n"
            '    return _cookie_unslash_re.sub(_cookie_unslash_replace, data).decode(errors="replace")\n'
            "\n"
            "\n"
            "def parse_cookie(\n    cookie: str | None = None,",
        ),
        (
            S,
            READER,
            "    stripped = ((ck.strip(), cv.strip()) for ck, cv in _cookie_re.findall(cookie))\n"
            "    return cls([(name, _cookie_unquote(text)) for name, text in stripped if name])\n",
        ),
    ]


def callback(expr: str) -> list:
    """unslash callback: subscript instead of group(1), length 3 test, chr/encode instead of to_bytes"""
    return [(S, CALLBACK, f"    digits = m[1]\n    return {expr} if len(digits) == 3 else digits\n")]


def client_split(call: str) -> list:
    """test client: split(';', 1) instead of partition, no rebinding of the parameter"""
    return [
        (
            T,
            CLIENT,
            f"        pieces = header.{call}\n"
            "        pair = pieces[0]\n"
            '        parameters_str = pieces[1] if len(pieces) > 1 else ""\n'
            '        key, _, value = pair.partition("=")\n'
            "        decoded_key, decoded_value = next(parse_cookie(pair).items())  # type: ignore[call-overload]\n",
        )
    ]


def set_cookie_positional(order: str) -> list:
    """set_cookie: positional arguments, result in a local"""
    return [
        (
            R,
            SETCOOKIE,
            f"        header_value = dump_cookie(\n            key, value, max_age, expires, path, domain, {order},\n"
            "            max_size=self.max_cookie_size, samesite=samesite, partitioned=partitioned,\n        )\n"
            '        self.headers.add("Set-Cookie", header_value)\n',
        )
    ]


def fresh_locals(path_wired: str) -> list:
    """sanitisers stop rebinding the parameters: conditional expressions into new locals"""
    return [
        (H, SANITISE_PATH, "    quoted_path = None if path is None else quote(path, safe=\"%!$&'()*+,/:=@\")\n"),
        (H, SANITISE_DOMAIN, '    ascii_domain = domain.partition(":")[0].lstrip(".").encode("idna").decode("ascii") if domain else domain\n'),
        (H, '        ("Domain", domain),', '        ("Domain", ascii_domain),'),
        (H, '        ("Path", path),', f'        ("Path", {path_wired}),'),
    ]


BODY = '        if v is None or v is False:\n            continue\n\n        if v is True:\n            buf.append(k)\n            continue\n\n        buf.append(f"{k}={v}")\n'
TABLE_REST = '        ("Expires", expires),\n        ("Max-Age", max_age),\n        ("Secure", secure),\n        ("HttpOnly", httponly),\n        ("Path", path),\n        ("SameSite", samesite),\n        ("Partitioned", partitioned),\n    ):'
SAMESITE = '        samesite = samesite.title()\n\n        if samesite not in {"Strict", "Lax", "None"}:\n            raise ValueError("SameSite must be \'Strict\', \'Lax\', or \'None\'.")\n'


def dict_items(max_age_name: str) -> list:
    """attribute table as a dict literal iterated with .items()"""
    return [
        (H, LOOP_HEAD, '    for k, v in {\n        "Domain": domain,'),
        (H, TABLE_REST, f'        "Expires": expires,\n        "{max_age_name}": max_age,\n        "Secure": secure,\n        "HttpOnly": httponly,\n        "Path": path,\n        "SameSite": samesite,\n        "Partitioned": partitioned,\n    }}.items():'),
    ]


def bool_first(other_test: str) -> list:
    """loop body: isinstance(v, bool) decides flags, everything else that is not None is name=value"""
    return [(H, BODY, f'        if isinstance(v, bool):\n            if v:\n                buf.append(k)\n        elif {other_test}:\n            buf.append(f"{{k}}={{v}}")\n')]


def filter_join(valued: str) -> list:
    """every attribute appends an item or None; the join filters the None items out"""
    return [(H, BODY + '\n    rv = "; ".join(buf)\n', f'        buf.append(None if v is None or v is False else k if v is True else {valued})\n\n    rv = "; ".join(filter(None, buf))\n')]


def samesite_table(none_value: str) -> list:
    """SameSite normalised through a lookup table, KeyError turned into ValueError"""
    return [(H, SAMESITE, f'        try:\n            samesite = {{"strict": "Strict", "lax": "Lax", "none": "{none_value}"}}[samesite.lower()]\n        except KeyError:\n            raise ValueError("SameSite must be \'Strict\', \'Lax\', or \'None\'.") from None\n')]


def reader_generator(value_expr: str) -> list:
    """parser: pair splitting and stripping extracted into a generator function"""
    return [
        (S, "def parse_cookie(\n    cookie: str | None = None,", f"def _iter_cookie_pairs(cookie: str) -> t.Iterator[tuple[str, str]]:\n    for ck, cv in _cookie_re.findall(cookie):\n        ck = ck.strip()\n\n        if ck:\n            yield ck, {value_expr}\n\n\ndef parse_cookie(\n    cookie: str | None = None,"),
        (S, READER, "    for ck, cv in _iter_cookie_pairs(cookie):\n        if len(cv) >= 2 and cv[0] == cv[-1] == '\"':\n            cv = _cookie_unslash_re.sub(\n                _cookie_unslash_replace, cv[1:-1].encode()\n            ).decode(errors=\"replace\")\n\n        out.append((ck, cv))\n\n    return cls(out)\n"),
    ]


def reader_add(early: bool) -> list:
    """parser: result object created first, pairs stored with .add()"""
    ed = [(S, "    out = []\n", "    rv = cls()\n")]
    if early:
        ed += [(S, "        if len(cv) >= 2 and cv[0] == cv[-1] == '\"':", "        rv.add(ck, cv)\n\n        if len(cv) >= 2 and cv[0] == cv[-1] == '\"':"), (S, "        out.append((ck, cv))\n\n    return cls(out)\n", "    return rv\n")]
    else:
        ed += [(S, "        out.append((ck, cv))\n\n    return cls(out)\n", "        rv.add(ck, cv)\n\n    return rv\n")]
    return ed


def callback_table(upto: int) -> list:
    """unslash callback: precomputed inverse table for the octal escapes, group(1) for quoted pairs"""
    return [
        (S, CALLBACK, "    return _cookie_unslash_map.get(m.group(), m.group(1))\n"),
        (S, "def _cookie_unslash_replace(", f'_cookie_unslash_map = {{b"\\\\%03o" % n: bytes([n]) for n in range({upto})}}\n\n\ndef _cookie_unslash_replace('),
    ]


def re_functions(kind: str) -> list:
    """module-level re functions with the compiled pattern as first argument, str(bytes, codec)"""
    return [
        (H, "    if not _cookie_no_quote_re.fullmatch(value):\n", f"    if re.{kind}(_cookie_no_quote_re, value) is None:\n"),
        (H, '        value = _cookie_slash_re.sub(\n            lambda m: _cookie_slash_map[m.group()], value.encode()\n        ).decode("ascii")', '        value = str(re.sub(\n            _cookie_slash_re, lambda m: _cookie_slash_map[m.group()], bytes(value, "utf-8")\n        ), "ascii")'),
    ]


def public_helper(kind: str) -> list:
    """value quoting extracted into a module-level function without a leading underscore"""
    return [
        (H, "def dump_cookie(\n    key: str,", f'def quote_cookie_value(value: str) -> str:\n    if _cookie_no_quote_re.{kind}(value):\n        return value\n\n    data = _cookie_slash_re.sub(lambda m: _cookie_slash_map[m.group()], value.encode())\n    return f\'"{{data.decode("ascii")}}"\'\n\n\ndef dump_cookie(\n    key: str,'),
        (H, QUOTE, "    value = quote_cookie_value(value)\n"),
    ]


def named_groups(value_expr: str) -> list:
    """pair regex with named groups, finditer, groups read by name"""
    return [
        (S, "    ([^=;]*)\n    (?:\\s*=\\s*\n      (\n", "    (?P<name>[^=;]*)\n    (?:\\s*=\\s*\n      (?P<val>\n"),
        (S, "    for ck, cv in _cookie_re.findall(cookie):\n        ck = ck.strip()\n        cv = cv.strip()\n", f"    for m in _cookie_re.finditer(cookie):\n        ck = m.group('name').strip()\n        cv = {value_expr}.strip()\n"),
    ]


def join_star(order: str) -> list:
    """the pair is not in the list; it is prepended in the join"""
    return [(H, PAIR, "    buf = []\n"), (H, '    rv = "; ".join(buf)\n', f"""    pair = f"{{key.encode().decode('latin1')}}={{value}}"\n    rv = "; ".join([{order}])\n""")]


def while_index(step: str) -> list:
    """parser: captured pairs in a list, walked with an index"""
    return [(S, "    for ck, cv in _cookie_re.findall(cookie):\n", f"    found = _cookie_re.findall(cookie)\n    i = 0\n\n    while i < len(found):\n        ck, cv = found[i]\n        i += {step}\n")]


NQ_DEF = r"""_cookie_no_quote_re = re.compile(r"[\w!#$%&'()*+\-./:<=>?@\[\]^`{|}~]*", re.A)"""
NQ_TEST = "    if not _cookie_no_quote_re.fullmatch(value):\n"
SAFE = r"""\w!#$%&'()*+\-./:<=>?@\[\]^`{|}~"""


def fast_path(pattern: str, method: str, flags: str = ", re.A") -> list:
    """the fast-path test spelled with another method / other anchors / other flags (``{C}`` = the safe class)"""
    return [
        (H, NQ_DEF, '_cookie_no_quote_re = re.compile(r"' + pattern.replace("{C}", "[" + SAFE + "]") + '"' + flags + ")"),
        (H, NQ_TEST, f"    if not _cookie_no_quote_re.{method}(value):\n"),
    ]


def unsafe_search(cls: str, method: str = "search", subject: str = "value", prefix: str = "r") -> list:
    """quote when an unsafe character is found (instead of: unless the whole value is safe)"""
    return [
        (H, NQ_DEF, f'_cookie_quote_needed_re = re.compile({prefix}"{cls}", re.A)'),
        (H, NQ_TEST, f"    if _cookie_quote_needed_re.{method}({subject}):\n"),
    ]


def inline_pattern(call: str) -> list:
    """module-level re function with the pattern text and the flags at the call"""
    return [(H, NQ_TEST, f"    if {call} is None:\n")]


MUTANTS = [
    {"name": "range-typo-x1e", "expect": "R13.1", "edits": [(H, r'rb"[\x00-\x1f\",;\\\x7f-\xff]"', r'rb"[\x00-\x1e\",;\\\x7f-\xff]"')]},
    {"name": "semicolon-dropped", "expect": "R13.1", "edits": [(H, r'rb"[\x00-\x1f\",;\\\x7f-\xff]"', r'rb"[\x00-\x1f\",\\\x7f-\xff]"')]},
    {"name": "del-not-escaped", "expect": "R13.1", "edits": [(H, r'rb"[\x00-\x1f\",;\\\x7f-\xff]"', r'rb"[\x00-\x1f\",;\\\x80-\xff]"')]},
    {"name": "octal-two-digits", "expect": "R13.2", "edits": [(H, 'b"\\\\%03o" % v', 'b"\\\\%02o" % v')]},
    {"name": "map-misses-comma", "expect": "R13.2", "edits": [(H, '*b",;", *range(0x7F, 256)', '*b";", *range(0x7F, 256)')]},
    {"name": "no-re-A", "expect": "R13.3", "edits": [(H, r"""_cookie_no_quote_re = re.compile(r"[\w!#$%&'()*+\-./:<=>?@\[\]^`{|}~]*", re.A)""", r"""_cookie_no_quote_re = re.compile(r"[\w!#$%&'()*+\-./:<=>?@\[\]^`{|}~]*")""")]},
    {"name": "fast-path-admits-comma", "expect": "R13.3", "edits": [(H, r"""[\w!#$%&'()*+\-./:<=>?@\[\]^`{|}~]*""", r"""[\w!#$%&'()*+,\-./:<=>?@\[\]^`{|}~]*""")]},
    {"name": "fast-path-match", "expect": "R13.3", "edits": [(H, "if not _cookie_no_quote_re.fullmatch(value):", "if not _cookie_no_quote_re.match(value):")]},
    {"name": "attr-order", "expect": "R13.5", "edits": [(H, '        ("Secure", secure),\n        ("HttpOnly", httponly),', '        ("HttpOnly", httponly),\n        ("Secure", secure),')]},
    {"name": "samesite-unchecked", "expect": "R13.5", "edits": [(H, '        if samesite not in {"Strict", "Lax", "None"}:\n            raise ValueError("SameSite must be \'Strict\', \'Lax\', or \'None\'.")\n', '')]},
    {"name": "path-safe-semicolon", "expect": "R13.5", "edits": [(H, """safe="%!$&'()*+,/:=@\"""", """safe="%!$&'()*+,/:;=@\"""")]},
    {"name": "unslash-regex-two-digit", "expect": "R13.2", "edits": [("sansio/http.py", r'rb"\\([0-3][0-7]{2}|.)"', r'rb"\\([0-7]{2}|.)"')]},
    {"name": "set-cookie-drops-samesite", "expect": "R13.6", "edits": [("sansio/response.py", "                samesite=samesite,\n                partitioned=partitioned,\n            ),\n        )\n\n    def delete_cookie", "                partitioned=partitioned,\n            ),\n        )\n\n    def delete_cookie")]},
    # ---- defects on today's shape that the value-level rules must see ----
    {"name": "falsy-attribute-dropped", "expect": "R13.5", "edits": [(H, "        if v is None or v is False:\n            continue\n", "        if not v:\n            continue\n")]},
    {"name": "true-by-equality", "expect": "R13.5", "edits": [(H, "        if v is True:\n            buf.append(k)", "        if v == True:\n            buf.append(k)")]},
    {"name": "join-without-space", "expect": "R13.5", "edits": [(H, '    rv = "; ".join(buf)', '    rv = ";".join(buf)')]},
    {"name": "samesite-not-titled", "expect": "R13.5", "edits": [(H, "        samesite = samesite.title()\n", "        samesite = samesite.strip()\n")]},
    {"name": "domain-not-idna", "expect": "R13.5", "edits": [(H, '.lstrip(".").encode("idna").decode("ascii")', '.lstrip(".")')]},
    {"name": "partitioned-without-secure", "expect": "R13.5", "edits": [(H, "    if partitioned:\n        secure = True\n", "")]},
    {"name": "escape-latin1-bytes", "expect": "R13.4", "edits": [(H, "lambda m: _cookie_slash_map[m.group()], value.encode()", 'lambda m: _cookie_slash_map[m.group()], value.encode("latin1", "replace")')]},
    {"name": "quotes-forgotten", "expect": "R13.4", "edits": [(H, "        value = f'\"{value}\"'\n", "        value = f'{value}'\n")]},
    {"name": "fast-path-polarity", "expect": "R13.3", "edits": [(H, "if not _cookie_no_quote_re.fullmatch(value):", "if _cookie_no_quote_re.fullmatch(value):")]},
    {"name": "reader-strips-after-unescape", "expect": "R13.2", "edits": [(S, "        out.append((ck, cv))", "        out.append((ck, cv.strip()))")]},
    {"name": "reader-no-length-check", "expect": "R13.2", "edits": [(S, "if len(cv) >= 2 and cv[0] == cv[-1] == '\"':", "if cv[:1] == cv[-1:] == '\"':")]},
    {"name": "reader-latin1-bytes", "expect": "R13.2", "edits": [(S, "_cookie_unslash_replace, cv[1:-1].encode()", '_cookie_unslash_replace, cv[1:-1].encode("latin1", "replace")')]},
    {"name": "reader-keeps-quotes", "expect": "R13.2", "edits": [(S, "_cookie_unslash_replace, cv[1:-1].encode()", "_cookie_unslash_replace, cv.encode()")]},
    {"name": "callback-decimal", "expect": "R13.2", "edits": [(S, 'return int(v, 8).to_bytes(1, "big")', 'return int(v, 10).to_bytes(1, "big")')]},
    {"name": "environ-parser-bypasses-sansio", "expect": "R13.6", "edits": [(H, "    return _sansio_http.parse_cookie(cookie=cookie, cls=cls)", "    return (cls or ds.MultiDict)([tuple(cookie.partition('='))[::2]] if cookie else [])")]},
    {"name": "client-parses-whole-header", "expect": "R13.6", "edits": [(T, "        header, _, parameters_str = header.partition(\";\")\n", "        whole = header\n        header, _, parameters_str = header.partition(\";\")\n"), (T, "next(parse_cookie(header).items())", "next(parse_cookie(whole).items())")]},
    # ---- the same property broken inside each neutral shape of TWINS ----
    {"name": "comprehension-drops-falsy", "expect": "R13.5", "edits": comprehension("v")},
    {"name": "accumulate-without-space", "expect": "R13.5", "edits": accumulate(";")},
    {"name": "attrs-local-flags-crossed", "expect": "R13.5", "edits": attrs_local('        ["Secure", httponly],\n        ["HttpOnly", secure],')},
    {"name": "quote-helper-polarity", "expect": "R13.3", "edits": quote_helper("found is None")},
    {"name": "reader-helper-no-length-check", "expect": "R13.2", "edits": reader_helper("text[:1] != '\"' or text[-1:] != '\"'")},
    {"name": "callback-chr-utf8", "expect": "R13.2", "edits": callback('chr(int(digits, 8)).encode("utf-8")')},
    {"name": "client-split-at-last-semicolon", "expect": "R13.6", "edits": client_split('rsplit(";", 1)')},
    {"name": "set-cookie-positional-crossed", "expect": "R13.6", "edits": set_cookie_positional("httponly, secure")},
    {"name": "fresh-locals-raw-path-wired", "expect": "R13.5", "edits": fresh_locals("path")},
    {"name": "dict-items-name-typo", "expect": "R13.5", "edits": dict_items("Max-age")},
    {"name": "bool-first-drops-zero", "expect": "R13.5", "edits": bool_first("v")},
    {"name": "filter-join-drops-zero", "expect": "R13.5", "edits": filter_join('(f"{k}={v}" if v else None)')},
    {"name": "samesite-table-typo", "expect": "R13.5", "edits": samesite_table("none")},
    {"name": "reader-generator-value-not-stripped", "expect": "R13.2", "edits": reader_generator("cv")},
    {"name": "reader-add-before-unescape", "expect": "R13.2", "edits": reader_add(True)},
    {"name": "callback-table-ascii-only", "expect": "R13.2", "edits": callback_table(128)},
    {"name": "re-functions-match", "expect": "R13.3", "edits": re_functions("match")},
    {"name": "public-helper-match", "expect": "R13.3", "edits": public_helper("match")},
    {"name": "named-groups-absent-value-crashes", "expect": "R13.2", "edits": named_groups("m['val']")},
    {"name": "join-star-pair-last", "expect": "R13.5", "edits": join_star("*buf, pair")},
    {"name": "while-index-skips-every-second-pair", "expect": "R13.2", "edits": while_index("2")},
    # ---- the set of values that take the fast path (language of the test actually used) ----
    {"name": "fast-path-match-dollar", "expect": "R13.3", "edits": fast_path("{C}*$", "match")},
    {"name": "fast-path-search-caret-dollar", "expect": "R13.3", "edits": fast_path("^{C}*$", "search")},
    {"name": "fast-path-search-multiline", "expect": "R13.3", "edits": fast_path(r"\A{C}*$", "search", ", re.A | re.M")},
    {"name": "fast-path-match-scoped-multiline-dollar", "expect": "R13.3", "edits": fast_path("{C}*(?m:$)", "match")},
    {"name": "fast-path-search-unanchored-start", "expect": "R13.3", "edits": fast_path(r"{C}*\Z", "search")},
    {"name": "fast-path-optional-newline", "expect": "R13.3", "edits": fast_path(r"{C}*\n?", "fullmatch")},
    {"name": "fast-path-ignorecase-for-ascii", "expect": "R13.3", "edits": fast_path("{C}*", "fullmatch", ", re.I")},
    {"name": "fast-path-dot-tail", "expect": "R13.3", "edits": fast_path(r"{C}*.?\Z", "match")},
    {"name": "unsafe-search-forgets-comma", "expect": "R13.3", "edits": unsafe_search("[^" + SAFE + ",]")},
    {"name": "unsafe-match-first-character-only", "expect": "R13.3", "edits": unsafe_search("[^" + SAFE + "]", "match")},
    {"name": "unsafe-search-escape-class-leaves-space-raw", "expect": "R13.3", "edits": [(H, NQ_TEST, "    if _cookie_slash_re.search(value.encode()):\n")]},
    {"name": "unsafe-search-bytes-lead-bytes-only", "expect": "R13.3", "edits": unsafe_search(r"[\x00-\x20\",;\\\x7f\xc2-\xdf]", "search", "value.encode()", "rb")},
    {"name": "inline-pattern-no-flags", "expect": "R13.3", "edits": inline_pattern('re.fullmatch(r"[' + SAFE + ']*", value)')},
]
TWINS = [
    {"name": "escape-more", "edits": [(H, r'rb"[\x00-\x1f\",;\\\x7f-\xff]"', r'rb"[\x00-\x1f\",;\\\x7f-\xff ]"'), (H, '*b",;", *range(0x7F, 256)', '*b",; ", *range(0x7F, 256)')]},
    {"name": "rename-regex", "edits": [(H, "_cookie_slash_re = re.compile", "_cookie_escape_re = re.compile"), (H, "value = _cookie_slash_re.sub(", "value = _cookie_escape_re.sub(")]},
    {"name": "narrower-fast-path", "edits": [(H, r"""[\w!#$%&'()*+\-./:<=>?@\[\]^`{|}~]*""", r"""[\w!#$%&'()*+\-./:<>?@\[\]^`{|}~]*""")]},
    {"name": "comprehension", "edits": comprehension("v is not None and v is not False")},
    {"name": "accumulate-string", "edits": accumulate("; ")},
    {"name": "attrs-local-format", "edits": attrs_local('        ["Secure", secure],\n        ["HttpOnly", httponly],')},
    {"name": "quote-helper-nested", "edits": quote_helper("found is not None")},
    {"name": "reader-helper-comprehension", "edits": reader_helper("len(text) < 2 or text[0] != '\"' or text[-1] != '\"'")},
    {"name": "callback-chr-latin1", "edits": callback('chr(int(digits, 8)).encode("latin1")')},
    {"name": "client-split-once", "edits": client_split('split(";", 1)')},
    {"name": "set-cookie-positional", "edits": set_cookie_positional("secure, httponly")},
    {"name": "fresh-locals", "edits": fresh_locals("quoted_path")},
    {"name": "dict-items", "edits": dict_items("Max-Age")},
    {"name": "bool-first", "edits": bool_first("v is not None")},
    {"name": "filter-join", "edits": filter_join('f"{k}={v}"')},
    {"name": "samesite-table", "edits": samesite_table("None")},
    {"name": "reader-generator", "edits": reader_generator("cv.strip()")},
    {"name": "reader-add", "edits": reader_add(False)},
    {"name": "callback-table", "edits": callback_table(256)},
    {"name": "re-functions", "edits": re_functions("fullmatch")},
    {"name": "public-helper", "edits": public_helper("fullmatch")},
    {"name": "named-groups", "edits": named_groups("(m['val'] or '')")},
    {"name": "join-star", "edits": join_star("pair, *buf")},
    {"name": "while-index", "edits": while_index("1")},
    {"name": "environ-parser-conditional-expression", "edits": [(H, ENVIRON, '    cookie = header.get("HTTP_COOKIE") if isinstance(header, dict) else header\n'), (H, "    return _sansio_http.parse_cookie(cookie=cookie, cls=cls)", "    parsed = _sansio_http.parse_cookie(cookie, cls)\n    return parsed")]},
    # ---- the same set of fast-path values, spelled differently ----
    {"name": "fast-path-match-Z", "edits": fast_path(r"{C}*\Z", "match")},
    {"name": "fast-path-search-A-Z", "edits": fast_path(r"\A{C}*\Z", "search")},
    {"name": "fast-path-search-caret-Z", "edits": fast_path(r"^(?:{C})*\Z", "search")},
    {"name": "fast-path-fullmatch-dollar", "edits": fast_path("{C}*$", "fullmatch")},
    {"name": "fast-path-match-Z-multiline", "edits": fast_path(r"{C}*\Z", "match", ", re.A | re.M")},
    {"name": "fast-path-explicit-ascii-ranges", "edits": fast_path(r"[A-Za-z0-9_!#$%&'()*+\-./:<=>?@\[\]^`{|}~]*", "fullmatch", "")},
    {"name": "fast-path-plus-or-empty", "edits": fast_path(r"(?:{C}+)?\Z", "match")},
    {"name": "unsafe-search", "edits": unsafe_search("[^" + SAFE + "]")},
    {"name": "unsafe-search-utf8-bytes", "edits": unsafe_search("[^" + SAFE + "]", "search", "value.encode()", "rb")},
    {"name": "inline-pattern", "edits": inline_pattern('re.fullmatch(r"[' + SAFE + ']*", value, re.A)')},
]
