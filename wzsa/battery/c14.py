"""self-validation battery for C14."""
S = "security.py"
U = "utils.py"
M = "middleware/shared_data.py"

_NORM = '        if filename != "":\n            filename = posixpath.normpath(filename)\n\n'
_TEST = (
    "        if (\n"
    "            any(sep in filename for sep in _os_alt_seps)\n"
    "            or os.path.isabs(filename)\n"
    "            # ntpath.isabs doesn't catch this on Python < 3.11\n"
    '            or filename.startswith("/")\n'
    '            or filename == ".."\n'
    '            or filename.startswith("../")\n'
    "        ):\n"
    "            return None\n\n"
)
_SIG = "def safe_join(directory: str, *pathnames: str) -> str | None:"
# a predicate helper in early-return style, negated polarity (True = stays inside)
_INSIDE = (
    "def _stays_inside(name: str) -> bool:\n"
    "    for sep in _os_alt_seps:\n"
    "        if sep in name:\n"
    "            return False\n\n"
    "    if os.path.isabs(name) or name.startswith(\"/\"):\n"
    "        return False\n\n"
    "    return name != \"..\" and not name.startswith(\"../\")\n\n\n"
)
_SUB = 'filename = str(_filename_ascii_strip_re.sub("", "_".join(filename.split()))).strip(\n        "._"\n    )'

MUTANTS = [
    # ---- R14.1
    {"name": "dotdot-tests-before-normpath", "expect": "R14.1", "edits": [(S, _NORM + _TEST, _TEST + _NORM)]},
    {"name": "normalise-into-unused-name", "expect": "R14.1", "edits": [(S, "            filename = posixpath.normpath(filename)\n", "            cleaned = posixpath.normpath(filename)\n")]},
    {"name": "drop-dotdot-equality", "expect": "R14.1", "edits": [(S, '            or filename == ".."\n', "")]},
    {"name": "drop-dotdot-slash-prefix", "expect": "R14.1", "edits": [(S, '            or filename.startswith("../")\n', "")]},
    {"name": "drop-both-absolute-tests", "expect": "R14.1", "edits": [(S, '            or os.path.isabs(filename)\n            # ntpath.isabs doesn\'t catch this on Python < 3.11\n            or filename.startswith("/")\n', "")]},
    {"name": "dotdot-prefix-typo", "expect": "R14.1", "edits": [(S, 'filename.startswith("../")', 'filename.startswith(".../")')]},
    {"name": "loop-skips-first-component", "expect": "R14.1", "edits": [(S, "    for filename in pathnames:", "    for filename in pathnames[1:]:")]},
    {"name": "last-component-joined-unchecked", "expect": "R14.1", "edits": [(S, "    return posixpath.join(*parts)", "    return posixpath.join(*parts, pathnames[-1])")]},
    {"name": "reject-skips-instead-of-refusing", "expect": "R14.1", "edits": [(S, "        ):\n            return None\n\n        parts.append(filename)", "        ):\n            pass\n\n        parts.append(filename)")]},
    {"name": "test-other-variable", "expect": "R14.1", "edits": [(S, '            or filename == ".."\n            or filename.startswith("../")\n', '            or directory == ".."\n            or directory.startswith("../")\n')]},
    {"name": "conditional-normpath-inverted", "expect": "R14.1", "edits": [(S, _NORM, '        filename = posixpath.normpath(filename) if filename == "" else filename\n\n')]},
    {"name": "early-return-helper-forgets-dotdot-slash", "expect": "R14.1", "edits": [
        (S, _TEST, "        if not _stays_inside(filename):\n            return None\n\n"),
        (S, _SIG, _INSIDE.replace(' and not name.startswith("../")', "") + _SIG),
    ]},
    {"name": "early-return-helper-separator-loop-skips", "expect": "R14.1", "edits": [
        (S, _TEST, "        if not _stays_inside(filename):\n            return None\n\n"),
        (S, _SIG, _INSIDE.replace("            return False\n\n    if os.path.isabs", "            break\n\n    if os.path.isabs") + _SIG),
    ]},
    {"name": "flag-computed-before-normpath", "expect": "R14.1", "edits": [(S, _NORM + _TEST, _TEST.replace("        if (\n", "        rejected = (\n").replace("        ):\n            return None\n\n", "        )\n\n") + _NORM + "        if rejected:\n            return None\n\n")]},
    # ---- R14.2
    {"name": "expandvars-after-containment-check", "expect": "R14.2", "edits": [(U, "    return send_file(path_str, environ, **kwargs)\n\n\ndef import_string", "    return send_file(os.path.expandvars(path_str), environ, **kwargs)\n\n\ndef import_string")]},
    {"name": "directory-loader-decodes-after-check", "expect": "R14.2", "edits": [(M, "                return os.path.basename(path), self._opener(path)", '                return os.path.basename(path), self._opener(path.replace("%2e", "."))')]},
    {"name": "package-loader-normalises-after-check", "expect": "R14.2", "edits": [(M, "                resource = reader.open_resource(path)", "                resource = reader.open_resource(posixpath.normpath(path + \"/\"))")]},
    {"name": "directory-loader-plain-join", "expect": "R14.2", "edits": [(M, "                path = safe_join(directory, path)\n\n                if path is None:\n                    return None, None\n", "                path = posixpath.join(directory, path)\n")]},
    {"name": "send-from-directory-serves-raw-join", "expect": "R14.2", "edits": [(U, "    return send_file(path_str, environ, **kwargs)\n\n\ndef import_string", "    return send_file(os.path.join(directory, path), environ, **kwargs)\n\n\ndef import_string")]},
    {"name": "package-loader-opens-request-path", "expect": "R14.2", "edits": [(M, "            path = safe_join(package_path, path)\n\n            if path is None:\n                return None, None\n\n            basename = posixpath.basename(path)", "            checked = safe_join(package_path, path)\n\n            if checked is None:\n                return None, None\n\n            basename = posixpath.basename(path)")]},
    {"name": "safe-join-base-is-request-path", "expect": "R14.2", "edits": [(M, "                path = safe_join(directory, path)", "                path = safe_join(path, directory)")]},
    {"name": "file-loader-opens-lambda-argument", "expect": "R14.2", "edits": [(M, "return lambda x: (os.path.basename(filename), self._opener(filename))", "return lambda x: (os.path.basename(filename), self._opener(x or filename))")]},
    # ---- R14.3
    {"name": "send-from-directory-no-none-check", "expect": "R14.3", "edits": [(U, "    if path_str is None:\n        raise NotFound()\n\n    # Flask will pass", "    # Flask will pass")]},
    {"name": "package-loader-no-none-check", "expect": "R14.3", "edits": [(M, "            path = safe_join(package_path, path)\n\n            if path is None:\n                return None, None\n", "            path = safe_join(package_path, path)\n")]},
    {"name": "none-check-after-use", "expect": "R14.3", "edits": [(M, "                path = safe_join(directory, path)\n\n                if path is None:", "                path = safe_join(directory, path)\n                os.path.getsize(path)\n\n                if path is None:")]},
    {"name": "refusal-is-500", "expect": "R14.3", "edits": [(U, "    if path_str is None:\n        raise NotFound()", "    if path_str is None:\n        raise ValueError(path)")]},
    {"name": "call-opener-without-none-guard", "expect": "R14.3", "edits": [(M, "        if file_loader is None or not self.is_allowed(real_filename):  # type: ignore", "        if not self.is_allowed(real_filename):  # type: ignore")]},
    # ---- R14.4
    {"name": "kept-class-gains-slash", "expect": "R14.4", "edits": [(U, '_filename_ascii_strip_re = re.compile(r"[^A-Za-z0-9_.-]")', '_filename_ascii_strip_re = re.compile(r"[^A-Za-z0-9_./-]")')]},
    {"name": "kept-class-range-typo-admits-non-ascii", "expect": "R14.4", "edits": [(U, '_filename_ascii_strip_re = re.compile(r"[^A-Za-z0-9_.-]")', '_filename_ascii_strip_re = re.compile(r"[^A-\\u017f0-9_.-]")')]},
    {"name": "strip-only-underscore", "expect": "R14.4", "edits": [(U, _SUB, 'filename = str(_filename_ascii_strip_re.sub("", "_".join(filename.split()))).strip(\n        "_"\n    )')]},
    {"name": "strip-before-filter-inline", "expect": "R14.4", "edits": [(U, _SUB, 'filename = str(_filename_ascii_strip_re.sub("", "_".join(filename.split()).strip("._")))')]},
    {"name": "filter-dropped", "expect": "R14.4", "edits": [(U, _SUB, 'filename = "_".join(filename.split()).strip("._")')]},
    {"name": "only-trailing-strip", "expect": "R14.4", "edits": [(U, _SUB, 'filename = str(_filename_ascii_strip_re.sub("", "_".join(filename.split()))).rstrip(\n        "._"\n    )')]},
]

TWINS = [
    {"name": "safe-join-renamed-local-and-flipped-branch", "edits": [(S, _NORM + _TEST + "        parts.append(filename)\n", (_NORM + _TEST).replace("filename", "part").replace("        if (\n", "        if not (\n").replace("            return None\n\n", "            parts.append(part)\n        else:\n            return None\n")), (S, "    for filename in pathnames:", "    for part in pathnames:")]},
    {"name": "safe-join-stricter-dotdot-prefix", "edits": [(S, '            or filename == ".."\n            or filename.startswith("../")\n', '            or filename.startswith("..")\n')]},
    {"name": "safe-join-absolute-test-before-normpath", "edits": [(S, _NORM, '        if filename.startswith("/"):\n            return None\n\n' + _NORM)]},
    {"name": "safe-join-reject-helper-extracted", "edits": [
        (S, _TEST, "        if _unsafe_component(filename):\n            return None\n\n"),
        (S, "def safe_join(directory: str, *pathnames: str) -> str | None:", 'def _unsafe_component(name: str) -> bool:\n    return (\n        any(sep in name for sep in _os_alt_seps)\n        or os.path.isabs(name)\n        or name.startswith("/")\n        or name == ".."\n        or name.startswith("../")\n    )\n\n\ndef safe_join(directory: str, *pathnames: str) -> str | None:'),
    ]},
    {"name": "safe-join-early-return-helper-negated-and-conditional-normpath", "edits": [
        (S, _NORM + _TEST, "        filename = filename and posixpath.normpath(filename)\n\n        if not _stays_inside(filename):\n            return None\n\n"),
        (S, _SIG, _INSIDE + _SIG),
    ]},
    {"name": "safe-join-conditional-expression-normpath", "edits": [(S, _NORM, '        filename = filename if filename == "" else posixpath.normpath(filename)\n\n')]},
    {"name": "safe-join-flag-variable", "edits": [(S, _TEST, _TEST.replace("        if (\n", "        rejected = (\n").replace("        ):\n            return None\n\n", "        )\n\n        if rejected:\n            return None\n\n"))]},
    {"name": "send-from-directory-root-path-selection", "edits": [(U, '    if "_root_path" in kwargs:\n        path_str = os.path.join(kwargs["_root_path"], path_str)\n', '    served = os.path.join(kwargs["_root_path"], path_str) if "_root_path" in kwargs else path_str\n    path_str = os.fspath(served)\n')]},
    {"name": "safe-join-normalised-into-new-name", "edits": [(S, _NORM + _TEST + "        parts.append(filename)\n", (_NORM + _TEST + "        parts.append(cleaned)\n").replace("filename = posixpath.normpath(filename)", "cleaned = posixpath.normpath(filename)").replace('        if filename != "":', '        cleaned = filename\n\n        if filename != "":').replace("in filename for", "in cleaned for").replace("isabs(filename)", "isabs(cleaned)").replace("or filename.", "or cleaned.").replace("or filename ==", "or cleaned =="))]},
    {"name": "directory-loader-early-return-style", "edits": [(M, "            if path is not None:\n                path = safe_join(directory, path)\n\n                if path is None:\n                    return None, None\n            else:\n                path = directory\n", "            if path is None:\n                path = directory\n            else:\n                path = safe_join(directory, path)\n\n            if path is None:\n                return None, None\n")]},
    {"name": "send-from-directory-not-none-style", "edits": [(U, "    if path_str is None:\n        raise NotFound()\n\n    # Flask will pass", "    if path_str is not None:\n        pass\n    else:\n        raise NotFound()\n\n    # Flask will pass")]},
    {"name": "secure-filename-split-into-statements", "edits": [(U, _SUB, 'filename = "_".join(filename.split())\n    cleaned = _filename_ascii_strip_re.sub("", filename)\n    filename = cleaned.strip("._")')]},
    {"name": "secure-filename-helper-extracted", "edits": [
        (U, _SUB, "filename = _strip_unsafe(filename)"),
        (U, "def secure_filename(filename: str) -> str:", 'def _strip_unsafe(name: str) -> str:\n    name = "_".join(name.split())\n    return _filename_ascii_strip_re.sub("", name).strip("._")\n\n\ndef secure_filename(filename: str) -> str:'),
    ]},
    {"name": "secure-filename-strip-set-reordered", "edits": [(U, _SUB, 'filename = str(_filename_ascii_strip_re.sub("", "_".join(filename.split()))).strip(\n        "_."\n    )')]},
]

# ---------------------------------------------------------------------
# round 2: R14.2 / R14.3 decided on value origins (conditional arms, helpers, closures, flags)

DL = (
    "            if path is not None:\n"
    "                path = safe_join(directory, path)\n\n"
    "                if path is None:\n"
    "                    return None, None\n"
    "            else:\n"
    "                path = directory\n\n"
    "            if os.path.isfile(path):\n"
    "                return os.path.basename(path), self._opener(path)\n\n"
    "            return None, None\n"
)
DL_TAIL = (
    "            if os.path.isfile(target):\n"
    "                return os.path.basename(target), self._opener(target)\n\n"
    "            return None, None\n"
)
PL = (
    "            if path is None:\n"
    "                return None, None\n\n"
    "            path = safe_join(package_path, path)\n\n"
    "            if path is None:\n"
    "                return None, None\n\n"
    "            basename = posixpath.basename(path)\n\n"
    "            try:\n"
    "                resource = reader.open_resource(path)\n"
)
PL_TAIL = (
    "            basename = posixpath.basename(checked)\n\n"
    "            try:\n"
    "                resource = reader.open_resource(checked)\n"
)
SFD = (
    "    path_str = safe_join(os.fspath(directory), os.fspath(path))\n\n"
    "    if path_str is None:\n"
    "        raise NotFound()\n"
)
SFD_ROOT = (
    '    if "_root_path" in kwargs:\n'
    '        path_str = os.path.join(kwargs["_root_path"], path_str)\n\n'
    "    if not os.path.isfile(path_str):\n"
    "        raise NotFound()\n"
)
SFD_SIG = "def send_from_directory(\n"
GDL = "    def get_directory_loader(self, directory: str) -> _TLoader:\n"
LOADER_HEAD = (
    "        def loader(\n"
    "            path: str | None,\n"
    "        ) -> tuple[str | None, _TOpener | None]:\n"
)
GDL_ALL = GDL + LOADER_HEAD + DL + "\n        return loader\n"
CALL_TEST = "        if file_loader is None or not self.is_allowed(real_filename):  # type: ignore\n            return self.app(environ, start_response)\n"


def _contained(check: str) -> str:
    return (
        "def _contained_path(directory: t.Any, path: t.Any) -> str:\n"
        "    joined = safe_join(os.fspath(directory), os.fspath(path))\n\n"
        + check +
        "    return joined\n\n\n"
    )


def _resolve(ret: str) -> str:
    return (
        "    def _resolve(self, directory: str, path: str | None) -> str | None:\n"
        "        if path is None:\n"
        "            return directory\n\n"
        f"        return {ret}\n\n"
    )


_RESOLVE_USE = "            target = self._resolve(directory, path)\n\n            if target is None:\n                return None, None\n\n" + DL_TAIL


def _method(lam: str, body: str = DL) -> str:
    return (
        "    def _load_from_directory(\n"
        "        self, directory: str, path: str | None\n"
        "    ) -> tuple[str | None, _TOpener | None]:\n"
        + body.replace("            ", "        ", 1).replace("\n            ", "\n        ")
        + "\n" + GDL + f"        return {lam}\n"
    )


def _serve(test: str) -> str:
    return (
        "    def _serve_file(self, target: str | None) -> tuple[str | None, _TOpener | None]:\n"
        f"        if {test}:\n"
        "            return None, None\n\n"
        "        return os.path.basename(target), self._opener(target)\n\n"
    )


_SERVE_USE = "            target = directory if path is None else safe_join(directory, path)\n            return self._serve_file(target)\n"

TWINS += [
    {"name": "package-loader-merged-guard-flipped-arms", "edits": [(M, PL, "            checked = safe_join(package_path, path) if path is not None else None\n\n            if checked is None:\n                return None, None\n\n" + PL_TAIL)]},
    {"name": "directory-loader-walrus-elif", "edits": [(M, DL, "            if path is None:\n                target = directory\n            elif (target := safe_join(directory, path)) is None:\n                return None, None\n\n" + DL_TAIL)]},
    {"name": "send-from-directory-helper-raises", "edits": [(U, SFD, "    path_str = _contained_path(directory, path)\n"), (U, SFD_SIG, _contained("    if joined is None:\n        raise NotFound()\n\n") + SFD_SIG)]},
    {"name": "send-from-directory-helper-passes-none-on", "edits": [(U, SFD, "    path_str = _contained_path(directory, path)\n\n    if path_str is None:\n        raise NotFound()\n"), (U, SFD_SIG, _contained("    if joined is None:\n        return None\n\n") + SFD_SIG)]},
    {"name": "directory-loader-resolve-method", "edits": [(M, DL, _RESOLVE_USE), (M, GDL, _resolve("safe_join(directory, path)") + GDL)]},
    {"name": "directory-loader-conditional-return", "edits": [(M, "            if os.path.isfile(path):\n                return os.path.basename(path), self._opener(path)\n\n            return None, None\n", "            return (\n                (os.path.basename(path), self._opener(path))\n                if os.path.isfile(path)\n                else (None, None)\n            )\n")]},
    {"name": "directory-loader-none-test-in-conditional-return", "edits": [(M, DL, "            target = directory if path is None else safe_join(directory, path)\n            return (\n                (None, None)\n                if target is None or not os.path.isfile(target)\n                else (os.path.basename(target), self._opener(target))\n            )\n")]},
    {"name": "send-from-directory-flag-variable", "edits": [(U, SFD, "    path_str = safe_join(os.fspath(directory), os.fspath(path))\n    refused = path_str is None\n\n    if refused:\n        raise NotFound()\n")]},
    {"name": "directory-loader-method-and-lambda", "edits": [(M, GDL_ALL, _method("lambda path: self._load_from_directory(directory, path)"))]},
    {"name": "directory-loader-method-and-partial", "edits": [(M, GDL_ALL, _method("functools.partial(self._load_from_directory, directory)")), (M, "import importlib.util\n", "import functools\nimport importlib.util\n")]},
    {"name": "directory-loader-none-test-in-helper", "edits": [(M, DL, _SERVE_USE), (M, GDL, _serve("target is None or not os.path.isfile(target)") + GDL)]},
    {"name": "call-split-fallthrough-tests", "edits": [(M, CALL_TEST, "        if file_loader is None:\n            return self.app(environ, start_response)\n\n        if not self.is_allowed(real_filename):  # type: ignore\n            return self.app(environ, start_response)\n")]},
    {"name": "call-loader-answer-through-a-local", "edits": [(M, "                real_filename, file_loader = loader(None)\n", "                answer = loader(None)\n                real_filename, file_loader = answer\n")]},
    {"name": "send-from-directory-merged-none-and-isfile-test", "edits": [(U, SFD + "\n    # Flask will pass app.root_path, allowing its send_from_directory\n    # wrapper to not have to deal with paths.\n" + SFD_ROOT, "    path_str = safe_join(os.fspath(directory), os.fspath(path))\n\n    if path_str is not None and \"_root_path\" in kwargs:\n        path_str = os.path.join(kwargs[\"_root_path\"], path_str)\n\n    if path_str is None or not os.path.isfile(path_str):\n        raise NotFound()\n")]},
    {"name": "directory-loader-merged-none-and-isfile-test", "edits": [(M, DL, "            target = directory if path is None else safe_join(directory, path)\n\n            if target is None or not os.path.isfile(target):\n                return None, None\n\n            return os.path.basename(target), self._opener(target)\n")]},
    {"name": "package-loader-copy-tested-through-original", "edits": [(M, PL, "            if path is None:\n                return None, None\n\n            joined = safe_join(package_path, path)\n            checked = joined\n\n            if joined is None:\n                return None, None\n\n" + PL_TAIL)]},
]

MUTANTS += [
    {"name": "merged-guard-tests-the-raw-path", "expect": "R14.3", "edits": [(M, PL, "            checked = safe_join(package_path, path) if path is not None else None\n\n            if path is None:\n                return None, None\n\n" + PL_TAIL)]},
    {"name": "conditional-arm-leaks-raw-path", "expect": "R14.2", "edits": [(M, PL, "            if path is None:\n                return None, None\n\n            checked = safe_join(package_path, path) if package_path else path\n\n            if checked is None:\n                return None, None\n\n" + PL_TAIL)]},
    {"name": "walrus-test-polarity-inverted", "expect": "R14.3", "edits": [(M, DL, "            if path is None:\n                target = directory\n            elif (target := safe_join(directory, path)) is not None:\n                return None, None\n\n" + DL_TAIL)]},
    {"name": "helper-falls-back-to-raw-path", "expect": "R14.2", "edits": [(U, SFD, "    path_str = _contained_path(directory, path)\n"), (U, SFD_SIG, _contained("    if joined is None:\n        joined = os.fspath(path)\n\n") + SFD_SIG)]},
    {"name": "helper-result-not-tested-by-caller", "expect": "R14.3", "edits": [(U, SFD, "    path_str = _contained_path(directory, path)\n"), (U, SFD_SIG, _contained("    if joined is None:\n        return None\n\n") + SFD_SIG)]},
    {"name": "helper-without-none-test", "expect": "R14.3", "edits": [(U, SFD, "    path_str = _contained_path(directory, path)\n"), (U, SFD_SIG, _contained("") + SFD_SIG)]},
    {"name": "resolve-method-plain-join", "expect": "R14.2", "edits": [(M, DL, _RESOLVE_USE), (M, GDL, _resolve("posixpath.join(directory, path)") + GDL)]},
    {"name": "resolve-method-result-untested", "expect": "R14.3", "edits": [(M, DL, "            target = self._resolve(directory, path)\n\n" + DL_TAIL), (M, GDL, _resolve("safe_join(directory, path)") + GDL)]},
    {"name": "conditional-return-without-none-test", "expect": "R14.3", "edits": [(M, DL, "            target = directory if path is None else safe_join(directory, path)\n            return (\n                (None, None)\n                if not os.path.isfile(target)\n                else (os.path.basename(target), self._opener(target))\n            )\n")]},
    {"name": "conditional-return-none-arm-serves", "expect": "R14.3", "edits": [(M, DL, "            target = directory if path is None else safe_join(directory, path)\n            return (\n                (os.path.basename(directory), self._opener(directory))\n                if target is None or not os.path.isfile(target)\n                else (os.path.basename(target), self._opener(target))\n            )\n")]},
    {"name": "flag-computed-from-the-raw-path", "expect": "R14.3", "edits": [(U, SFD, "    path_str = safe_join(os.fspath(directory), os.fspath(path))\n    refused = path is None\n\n    if refused:\n        raise NotFound()\n")]},
    {"name": "flag-computed-before-the-join", "expect": "R14.3", "edits": [(U, SFD, "    path_str = None\n    refused = path_str is None\n    path_str = safe_join(os.fspath(directory), os.fspath(path))\n\n    if not refused:\n        raise NotFound()\n")]},
    {"name": "lambda-swaps-directory-and-path", "expect": "R14.2", "edits": [(M, GDL_ALL, _method("lambda path: self._load_from_directory(path, directory)"))]},
    {"name": "method-loader-plain-join", "expect": "R14.2", "edits": [(M, GDL_ALL, _method("lambda path: self._load_from_directory(directory, path)", DL.replace("path = safe_join(directory, path)", "path = posixpath.join(directory, path)")))]},
    {"name": "partial-method-loader-plain-join", "expect": "R14.2", "edits": [(M, GDL_ALL, _method("functools.partial(self._load_from_directory, directory)", DL.replace("path = safe_join(directory, path)", "path = posixpath.join(directory, path)"))), (M, "import importlib.util\n", "import functools\nimport importlib.util\n")]},
    {"name": "helper-forgets-none-test-of-its-parameter", "expect": "R14.3", "edits": [(M, DL, _SERVE_USE), (M, GDL, _serve("not os.path.isfile(target)") + GDL)]},
    {"name": "split-fallthrough-drops-none-test", "expect": "R14.3", "edits": [(M, CALL_TEST, "        if not self.is_allowed(real_filename):  # type: ignore\n            return self.app(environ, start_response)\n")]},
    {"name": "merged-test-drops-none-disjunct", "expect": "R14.3", "edits": [(M, DL, "            target = directory if path is None else safe_join(directory, path)\n\n            if not os.path.isfile(target):\n                return None, None\n\n            return os.path.basename(target), self._opener(target)\n")]},
    {"name": "copy-made-before-test-of-other-value", "expect": "R14.3", "edits": [(M, PL, "            if path is None:\n                return None, None\n\n            joined = safe_join(package_path, path)\n            checked = joined\n            joined = package_path\n\n            if joined is None:\n                return None, None\n\n" + PL_TAIL)]},
]

_OPENER_CLOSURE = (
    "            if os.path.isfile(path):\n"
    "                served = path\n\n"
    "                def opener() -> tuple[t.IO[bytes], datetime, int]:\n"
    "                    return (\n"
    "                        open(OPENED, \"rb\"),\n"
    "                        datetime.fromtimestamp(os.path.getmtime(served), tz=timezone.utc),\n"
    "                        int(os.path.getsize(served)),\n"
    "                    )\n\n"
    "                return os.path.basename(path), opener\n\n"
    "            return None, None\n"
)
_DL_TEST = "            if os.path.isfile(path):\n                return os.path.basename(path), self._opener(path)\n\n            return None, None\n"
SERVE_BLOCK_HEAD = "        guessed_type = mimetypes.guess_type(real_filename)  # type: ignore\n"
_SERVE_DEF = (
    "    def _serve(\n"
    "        self,\n"
    "        environ: WSGIEnvironment,\n"
    "        start_response: StartResponse,\n"
    "        real_filename: str,\n"
    "        file_loader: _TOpener,\n"
    "    ) -> t.Iterable[bytes]:\n"
)

TWINS += [
    {"name": "package-loader-walrus-in-merged-or-test", "edits": [(M, PL, "            if path is None or (path := safe_join(package_path, path)) is None:\n                return None, None\n\n            basename = posixpath.basename(path)\n\n            try:\n                resource = reader.open_resource(path)\n")]},
    {"name": "directory-loader-opener-inlined-as-closure", "edits": [(M, _DL_TEST, _OPENER_CLOSURE.replace("OPENED", "served"))]},
    {"name": "call-serving-block-extracted", "edits": [
        (M, CALL_TEST + "\n" + SERVE_BLOCK_HEAD, CALL_TEST.replace("file_loader is None or not self.is_allowed(real_filename)", "file_loader is not None and self.is_allowed(real_filename)").replace("return self.app(environ, start_response)", "return self._serve(environ, start_response, real_filename, file_loader)  # type: ignore") + "\n        return self.app(environ, start_response)\n\n" + _SERVE_DEF + SERVE_BLOCK_HEAD),
    ]},
    {"name": "send-from-directory-fspath-hoisted-and-root-via-get", "edits": [(U, SFD, "    base = os.fspath(directory)\n    requested = os.fspath(path)\n    path_str = safe_join(base, requested)\n\n    if path_str is None:\n        raise NotFound()\n")]},
    {"name": "send-from-directory-truthiness-none-test", "edits": [(U, SFD, "    path_str = safe_join(os.fspath(directory), os.fspath(path))\n\n    if not isinstance(path_str, str):\n        raise NotFound()\n")]},
]
MUTANTS += [
    {"name": "walrus-binds-another-name-raw-path-opened", "expect": "R14.2", "edits": [(M, PL, "            if path is None or (checked := safe_join(package_path, path)) is None:\n                return None, None\n\n            basename = posixpath.basename(path)\n\n            try:\n                resource = reader.open_resource(path)\n")]},
    {"name": "closure-opens-request-name", "expect": "R14.2", "edits": [(M, _DL_TEST, _OPENER_CLOSURE.replace("OPENED", "os.path.join(directory, requested)")), (M, "            if path is not None:\n                path = safe_join(directory, path)\n", "            requested = path\n\n            if path is not None:\n                path = safe_join(directory, path)\n")]},
    {"name": "extracted-serving-block-called-without-none-test", "expect": "R14.3", "edits": [
        (M, CALL_TEST + "\n" + SERVE_BLOCK_HEAD, CALL_TEST.replace("file_loader is None or not self.is_allowed(real_filename)", "self.is_allowed(real_filename)").replace("return self.app(environ, start_response)", "return self._serve(environ, start_response, real_filename, file_loader)  # type: ignore") + "\n        return self.app(environ, start_response)\n\n" + _SERVE_DEF + SERVE_BLOCK_HEAD),
    ]},
    {"name": "extracted-serving-block-none-edge-is-not-the-app", "expect": "R14.3", "edits": [
        (M, CALL_TEST + "\n" + SERVE_BLOCK_HEAD, CALL_TEST.replace("file_loader is None or not self.is_allowed(real_filename)", "file_loader is not None and self.is_allowed(real_filename)").replace("return self.app(environ, start_response)", "return self._serve(environ, start_response, real_filename, file_loader)  # type: ignore") + "\n        return []\n\n" + _SERVE_DEF + SERVE_BLOCK_HEAD),
    ]},
]

TWINS += [
    {"name": "directory-loader-refusal-tuple-hoisted", "edits": [(M, DL, "            nothing = None, None\n\n" + DL.replace("return None, None", "return nothing"))]},
    {"name": "send-from-directory-exception-built-once", "edits": [(U, SFD + "\n    # Flask will pass app.root_path, allowing its send_from_directory\n    # wrapper to not have to deal with paths.\n" + SFD_ROOT, "    missing = NotFound()\n" + SFD.replace("raise NotFound()", "raise missing") + "\n" + SFD_ROOT.replace("raise NotFound()", "raise missing"))]},
    {"name": "call-app-response-through-a-local", "edits": [(M, CALL_TEST, CALL_TEST.replace("            return self.app(environ, start_response)\n", "            fallback = self.app(environ, start_response)\n            return fallback\n"))]},
]
MUTANTS += [
    {"name": "hoisted-refusal-is-not-a-refusal", "expect": "R14.3", "edits": [(M, DL, "            nothing = os.path.basename(directory), self._opener(directory)\n\n" + DL.replace("                    return None, None", "                    return nothing"))]},
    {"name": "exception-built-once-is-not-not-found", "expect": "R14.3", "edits": [(U, SFD, "    missing = ValueError(path)\n" + SFD.replace("raise NotFound()", "raise missing"))]},
]

_CALL_HEAD = (
    "    def __call__(\n"
    "        self, environ: WSGIEnvironment, start_response: StartResponse\n"
    "    ) -> t.Iterable[bytes]:\n"
)
_CALL_LOOP = (
    "        path = get_path_info(environ)\n"
    "        file_loader = None\n\n"
    "        for search_path, loader in self.exports:\n"
    "            if search_path == path:\n"
    "                real_filename, file_loader = loader(None)\n\n"
    "                if file_loader is not None:\n"
    "                    break\n\n"
    "            if not search_path.endswith(\"/\"):\n"
    "                search_path += \"/\"\n\n"
    "            if path.startswith(search_path):\n"
    "                real_filename, file_loader = loader(path[len(search_path) :])\n\n"
    "                if file_loader is not None:\n"
    "                    break\n\n"
)


def _find(miss: str) -> str:
    return (
        "    def _find(self, path: str) -> tuple[str, _TOpener] | None:\n"
        "        for search_path, loader in self.exports:\n"
        "            if search_path == path:\n"
        "                real_filename, file_loader = loader(None)\n\n"
        "                if file_loader is not None:\n"
        "                    return real_filename, file_loader\n\n"
        "            if not search_path.endswith(\"/\"):\n"
        "                search_path += \"/\"\n\n"
        "            if path.startswith(search_path):\n"
        "                real_filename, file_loader = loader(path[len(search_path) :])\n\n"
        "                if file_loader is not None:\n"
        "                    return real_filename, file_loader\n\n"
        "        return None\n\n"
        + _CALL_HEAD +
        "        found = self._find(get_path_info(environ))\n\n"
        + miss +
        "        real_filename, file_loader = found\n\n"
        "        if not self.is_allowed(real_filename):\n"
        "            return self.app(environ, start_response)\n"
    )


TWINS += [
    {"name": "call-lookup-returns-optional-pair", "edits": [(M, _CALL_HEAD + _CALL_LOOP + CALL_TEST, _find("        if found is None:\n            return self.app(environ, start_response)\n\n"))]},
]
MUTANTS += [
    {"name": "optional-pair-miss-answers-empty-body", "expect": "R14.3", "edits": [(M, _CALL_HEAD + _CALL_LOOP + CALL_TEST, _find("        if found is None:\n            return []\n\n"))]},
]

TWINS += [
    {"name": "directory-loader-join-result-passed-straight-to-helper", "edits": [(M, DL, "            if path is None:\n                return self._serve_file(target=directory)\n\n            return self._serve_file(target=safe_join(directory, path))\n"), (M, GDL, _serve("target is None or not os.path.isfile(target)") + GDL)]},
]
MUTANTS += [
    {"name": "join-result-passed-straight-to-helper-that-does-not-test", "expect": "R14.3", "edits": [(M, DL, "            if path is None:\n                return self._serve_file(target=directory)\n\n            return self._serve_file(target=safe_join(directory, path))\n"), (M, GDL, _serve("not os.path.isfile(target)") + GDL)]},
]

# ---------------------------------------------------------------------
# round 2: R14.1 / R14.4 decided on what is computed (traversal / accumulation / filter / helpers spelled differently)

_LOOP = "    parts = [directory]\n\n    for filename in pathnames:\n" + _NORM + _TEST + "        parts.append(filename)\n\n    return posixpath.join(*parts)\n"
_COND = (
    "any(sep in NAME for sep in _os_alt_seps)\n"
    "            or os.path.isabs(NAME)\n"
    '            or NAME.startswith("/")\n'
    '            or NAME == ".."\n'
    '            or NAME.startswith("../")\n'
)
_WIN = (
    "    if (\n"
    '        os.name == "nt"\n'
    "        and filename\n"
    '        and filename.split(".")[0].upper() in _windows_device_files\n'
    "    ):\n"
    '        filename = f"_{filename}"\n\n'
    "    return filename\n"
)
_SEPS = "    for sep in os.sep, os.path.altsep:\n        if sep:\n            filename = filename.replace(sep, \" \")\n"
TWINS += [
    {"name": "sj-comprehension-form", "edits": [(S, _LOOP, '    cleaned = [posixpath.normpath(p) if p != "" else p for p in pathnames]\n\n    for filename in cleaned:\n' + _TEST + "    return posixpath.join(directory, *cleaned)\n")]},
    {"name": "sj-comprehension-any-form", "edits": [(S, _LOOP, '    cleaned = [posixpath.normpath(p) if p != "" else p for p in pathnames]\n\n    if any(\n        (\n            ' + _COND.replace("NAME", "p") + "        )\n        for p in cleaned\n    ):\n        return None\n\n    return posixpath.join(directory, *cleaned)\n")]},
    {"name": "sj-incremental-join", "edits": [(S, _LOOP, "    result = directory\n\n    for filename in pathnames:\n" + _NORM + _TEST + "        result = posixpath.join(result, filename)\n\n    return result\n")]},
    {"name": "sj-list-rebuilt", "edits": [(S, "        parts.append(filename)\n", "        parts = [*parts, filename]\n")]},
    {"name": "sj-augmented-list", "edits": [(S, "        parts.append(filename)\n", "        parts += [filename]\n")]},
    {"name": "sj-startswith-tuple", "edits": [(S, '            or filename.startswith("/")\n            or filename == ".."\n            or filename.startswith("../")\n', '            or filename.startswith(("/", "../"))\n            or filename == ".."\n')]},
    {"name": "sj-first-segment-test", "edits": [(S, '            or filename == ".."\n            or filename.startswith("../")\n', '            or filename.partition("/")[0] == ".."\n')]},
    {"name": "sj-index-loop", "edits": [(S, "    for filename in pathnames:\n", "    for index in range(len(pathnames)):\n        filename = pathnames[index]\n\n")]},
    {"name": "sj-enumerate-loop", "edits": [(S, "    for filename in pathnames:\n", "    for _index, filename in enumerate(pathnames):\n")]},
    {"name": "sj-directory-default-or", "edits": [(S, '    if not directory:\n        # Ensure we end up with ./path if directory="" is given,\n        # otherwise the first untrusted part could become trusted.\n        directory = "."\n\n    parts = [directory]\n', '    parts = [directory or "."]\n')]},
    {"name": "sj-flag-and-break", "edits": [(S, "    parts = [directory]\n\n    for filename in pathnames:\n" + _NORM + _TEST, "    parts = [directory]\n    refused = False\n\n    for filename in pathnames:\n" + _NORM + _TEST.replace("            return None\n", "            refused = True\n            break\n")), (S, "    return posixpath.join(*parts)\n", "    if refused:\n        return None\n\n    return posixpath.join(*parts)\n")]},
    {"name": "sj-normalise-in-separate-pass", "edits": [(S, "    for filename in pathnames:\n" + _NORM, '    normalised = [posixpath.normpath(p) if p != "" else "" for p in pathnames]\n\n    for filename in normalised:\n')]},
    {"name": "sj-in-tuple-dotdot", "edits": [(S, '            or filename == ".."\n', '            or filename in ("..",)\n')]},
    {"name": "sf-conditional-return", "edits": [(U, _WIN, "    reserved = (\n        os.name == \"nt\"\n        and filename\n        and filename.split(\".\")[0].upper() in _windows_device_files\n    )\n    return f\"_{filename}\" if reserved else filename\n")]},
    {"name": "sf-lstrip-rstrip", "edits": [(U, _SUB, 'filename = str(_filename_ascii_strip_re.sub("", "_".join(filename.split())))\n    filename = filename.lstrip("._").rstrip("._")')]},
    {"name": "sf-re-sub-function", "edits": [(U, _SUB, 'filename = re.sub(_filename_ascii_strip_re, "", "_".join(filename.split())).strip("._")')]},
    {"name": "sf-seps-comprehension", "edits": [(U, _SEPS, "    for sep in [s for s in (os.sep, os.path.altsep) if s]:\n        filename = filename.replace(sep, \" \")\n")]},
    {"name": "sf-seps-unrolled", "edits": [(U, _SEPS, "    filename = filename.replace(os.sep, \" \")\n\n    if os.path.altsep:\n        filename = filename.replace(os.path.altsep, \" \")\n")]},
    {"name": "sf-device-helper", "edits": [(U, _WIN, "    if _is_device_file(filename):\n        filename = f\"_{filename}\"\n\n    return filename\n"), (U, "def secure_filename(filename: str) -> str:\n", "def _is_device_file(name: str) -> bool:\n    return bool(\n        os.name == \"nt\"\n        and name\n        and name.split(\".\")[0].upper() in _windows_device_files\n    )\n\n\ndef secure_filename(filename: str) -> str:\n")]},
    {"name": "sf-prefix-by-concatenation", "edits": [(U, '        filename = f"_{filename}"\n', '        filename = "_" + filename\n')]},
    {"name": "sf-whitespace-regex", "edits": [(U, _SUB, 'filename = _filename_ascii_strip_re.sub("", re.sub(r"\\s+", "_", filename.strip())).strip("._")')]},
    {"name": "sf-char-filter-comprehension", "edits": [(U, _SUB, 'filename = "".join(\n        ch for ch in "_".join(filename.split()) if not _filename_ascii_strip_re.match(ch)\n    ).strip("._")')]},
]

_CLEANED = '    cleaned = [posixpath.normpath(p) if p != "" else p for p in pathnames]\n\n'
_ANY = "    if any(\n        (\n            " + _COND.replace("NAME", "p") + "        )\n        for p in SEQ\n    ):\n        return None\n\n"
TWINS += [
    {"name": "sj-head-slices", "edits": [(S, '            or filename.startswith("/")\n            or filename == ".."\n            or filename.startswith("../")\n', '            or filename[:1] == "/"\n            or filename == ".."\n            or filename[:3] == "../"\n')]},
    {"name": "sj-split-first-segment", "edits": [(S, '            or filename == ".."\n            or filename.startswith("../")\n', '            or filename.split("/", 1)[0] == ".."\n')]},
    {"name": "sj-all-form", "edits": [(S, _LOOP, _CLEANED + "    if not all(\n        not (\n            " + _COND.replace("NAME", "p") + "        )\n        for p in cleaned\n    ):\n        return None\n\n    return posixpath.join(directory, *cleaned)\n")]},
    {"name": "sj-check-pass-then-append-pass", "edits": [(S, _LOOP, "    parts = [directory]\n\n    for filename in pathnames:\n" + _NORM + _TEST + "    for filename in pathnames:\n        parts.append(filename)\n\n    return posixpath.join(*parts)\n")]},
    {"name": "sj-result-bound-then-returned", "edits": [(S, "    return posixpath.join(*parts)\n", "    joined = posixpath.join(*parts)\n    return joined\n")]},
]
MUTANTS += [
    {"name": "sj-any-check-over-raw-components", "expect": "R14.1", "edits": [(S, _LOOP, _CLEANED + _ANY.replace("SEQ", "pathnames") + "    return posixpath.join(directory, *cleaned)\n")]},
    {"name": "sj-comprehension-does-not-normalise", "expect": "R14.1", "edits": [(S, _LOOP, "    cleaned = [p for p in pathnames]\n\n" + _ANY.replace("SEQ", "cleaned") + "    return posixpath.join(directory, *cleaned)\n")]},
    {"name": "sj-incremental-join-before-test", "expect": "R14.1", "edits": [(S, _LOOP, "    result = directory\n\n    for filename in pathnames:\n" + _NORM + "        result = posixpath.join(result, filename)\n\n" + _TEST + "    return result\n")]},
    {"name": "sj-flag-tested-inverted", "expect": "R14.1", "edits": [(S, "    parts = [directory]\n\n    for filename in pathnames:\n" + _NORM + _TEST, "    parts = [directory]\n    refused = False\n\n    for filename in pathnames:\n" + _NORM + _TEST.replace("            return None\n", "            refused = True\n            break\n")), (S, "    return posixpath.join(*parts)\n", "    if not refused:\n        return None\n\n    return posixpath.join(*parts)\n")]},
    {"name": "sj-flag-never-tested", "expect": "R14.1", "edits": [(S, "    parts = [directory]\n\n    for filename in pathnames:\n" + _NORM + _TEST, "    parts = [directory]\n    refused = False\n\n    for filename in pathnames:\n" + _NORM + _TEST.replace("            return None\n", "            refused = True\n            break\n"))]},
    {"name": "sj-enumerate-skips-first", "expect": "R14.1", "edits": [(S, "    for filename in pathnames:\n", "    for _index, filename in enumerate(pathnames[1:]):\n")]},
    {"name": "sj-index-loop-skips-first", "expect": "R14.1", "edits": [(S, "    for filename in pathnames:\n", "    for index in range(1, len(pathnames)):\n        filename = pathnames[index]\n\n")]},
    {"name": "sj-separate-pass-unused", "expect": "R14.1", "edits": [(S, "    for filename in pathnames:\n" + _NORM, '    normalised = [posixpath.normpath(p) if p != "" else "" for p in pathnames]\n\n    for filename in pathnames:\n')]},
    {"name": "sj-check-pass-stops-early", "expect": "R14.1", "edits": [(S, _LOOP, _CLEANED + "    for filename in cleaned:\n        if filename == \"\":\n            break\n\n" + _TEST + "    return posixpath.join(directory, *cleaned)\n")]},
    {"name": "sj-whole-join-of-raw-with-unnormalised-check", "expect": "R14.1", "edits": [(S, _LOOP, "    for filename in pathnames:\n" + _TEST + "    return posixpath.join(directory, *pathnames)\n")]},
    {"name": "sj-first-segment-typo", "expect": "R14.1", "edits": [(S, '            or filename == ".."\n            or filename.startswith("../")\n', '            or filename.partition("/")[0] == "..."\n')]},
    {"name": "sj-head-slice-too-short", "expect": "R14.1", "edits": [(S, '            or filename.startswith("../")\n', '            or filename[:2] == "../"\n')]},
    {"name": "sj-list-rebuilt-with-unchecked-extra", "expect": "R14.1", "edits": [(S, "    return posixpath.join(*parts)\n", "    return posixpath.join(*parts, *pathnames[-1:])\n")]},
]

MUTANTS += [
    {"name": "sf-re-sub-function-limited-count", "expect": "R14.4", "edits": [(U, _SUB, 'filename = re.sub(_filename_ascii_strip_re, "", "_".join(filename.split()), 1).strip("._")')]},
    {"name": "sf-char-filter-inverted", "expect": "R14.4", "edits": [(U, _SUB, 'filename = "".join(\n        ch for ch in "_".join(filename.split()) if _filename_ascii_strip_re.match(ch)\n    ).strip("._")')]},
    {"name": "sf-char-filter-after-strip", "expect": "R14.4", "edits": [(U, _SUB, 'filename = "".join(\n        ch for ch in "_".join(filename.split()).strip("._") if not _filename_ascii_strip_re.match(ch)\n    )')]},
    {"name": "sf-whitespace-regex-without-filter", "expect": "R14.4", "edits": [(U, _SUB, 'filename = re.sub(r"\\s+", "_", filename.strip()).strip("._")')]},
    {"name": "sf-conditional-return-dot-prefix", "expect": "R14.4", "edits": [(U, _WIN, "    reserved = (\n        os.name == \"nt\"\n        and filename\n        and filename.split(\".\")[0].upper() in _windows_device_files\n    )\n    return f\".{filename}\" if reserved else filename\n")]},
    {"name": "sf-lstrip-only-underscore", "expect": "R14.4", "edits": [(U, _SUB, 'filename = str(_filename_ascii_strip_re.sub("", "_".join(filename.split())))\n    filename = filename.lstrip("_").rstrip("._")')]},
]

TWINS += [
    {"name": "sj-list-built-from-checked-sequence", "edits": [(S, _LOOP, _CLEANED + "    for filename in cleaned:\n" + _TEST + "    parts = [directory, *cleaned]\n    return posixpath.join(*parts)\n")]},
]
MUTANTS += [
    {"name": "sj-list-built-before-the-check", "expect": "R14.1", "edits": [(S, _LOOP, _CLEANED + "    parts = [directory, *cleaned]\n\n    if not pathnames[0]:\n        return posixpath.join(*parts)\n\n    for filename in cleaned:\n" + _TEST + "    return posixpath.join(*parts)\n")]},
]

_NORMALISER = 'def _normalise(name: str) -> str:\n    if name == "":\n        return name\n\n    return posixpath.normpath(name)\n\n\n'
_FILTER = (
    "def _checked_component(name: str) -> str | None:\n"
    '    if name != "":\n'
    "        name = posixpath.normpath(name)\n\n"
    "    if (\n"
    "        any(sep in name for sep in _os_alt_seps)\n"
    "        or os.path.isabs(name)\n"
    '        or name.startswith("/")\n'
    '        or name == ".."\n'
    '        or name.startswith("../")\n'
    "    ):\n"
    "        return None\n\n"
    "    return name\n\n\n"
)
_FILTER_USE = "        checked = _checked_component(filename)\n\n        if checked is None:\n            return None\n\n        parts.append(checked)\n"
TWINS += [
    {"name": "sj-normalise-helper-extracted", "edits": [(S, _NORM, "        filename = _normalise(filename)\n\n"), (S, _SIG, _NORMALISER + _SIG)]},
    {"name": "sj-iteration-body-extracted-into-filter-helper", "edits": [(S, _NORM + _TEST + "        parts.append(filename)\n", _FILTER_USE), (S, _SIG, _FILTER + _SIG)]},
    {"name": "sj-filter-helper-walrus", "edits": [(S, _NORM + _TEST + "        parts.append(filename)\n", "        if (checked := _checked_component(filename)) is None:\n            return None\n\n        parts.append(checked)\n"), (S, _SIG, _FILTER + _SIG)]},
]
MUTANTS += [
    {"name": "sj-normalise-helper-skips-normpath-for-dots", "expect": "R14.1", "edits": [(S, _NORM, "        filename = _normalise(filename)\n\n"), (S, _SIG, _NORMALISER.replace('if name == "":', 'if name == "" or name.startswith("."):') + _SIG)]},
    {"name": "sj-filter-helper-forgets-dotdot", "expect": "R14.1", "edits": [(S, _NORM + _TEST + "        parts.append(filename)\n", _FILTER_USE), (S, _SIG, _FILTER.replace('        or name == ".."\n', "") + _SIG)]},
    {"name": "sj-filter-helper-tests-before-normpath", "expect": "R14.1", "edits": [(S, _NORM + _TEST + "        parts.append(filename)\n", _FILTER_USE), (S, _SIG, _FILTER.replace('    if name != "":\n        name = posixpath.normpath(name)\n\n', "").replace("        return None\n\n    return name\n", "        return None\n\n    if name != \"\":\n        name = posixpath.normpath(name)\n\n    return name\n") + _SIG)]},
    {"name": "sj-filter-result-not-tested", "expect": "R14.1", "edits": [(S, _NORM + _TEST + "        parts.append(filename)\n", "        checked = _checked_component(filename)\n        parts.append(filename if checked is None else checked)\n"), (S, _SIG, _FILTER + _SIG)]},
    {"name": "sj-filter-refusal-skips-the-component", "expect": "R14.1", "edits": [(S, _NORM + _TEST + "        parts.append(filename)\n", _FILTER_USE.replace("            return None\n", "            continue\n")), (S, _SIG, _FILTER + _SIG)]},
]


# ---- round 3: a place where a component enters the result is judged under the facts of the paths that reach it
# (constants pinned by equality / emptiness guards, copies, reject tests passed on the way); lists as holders of
# checked paths; locally defined helpers; candidates tried in a loop
_R3_BODY = '    if not directory:\n        # Ensure we end up with ./path if directory="" is given,\n        # otherwise the first untrusted part could become trusted.\n        directory = "."\n\n    parts = [directory]\n\n    for filename in pathnames:\n        if filename != "":\n            filename = posixpath.normpath(filename)\n\n        if (\n            any(sep in filename for sep in _os_alt_seps)\n            or os.path.isabs(filename)\n            # ntpath.isabs doesn\'t catch this on Python < 3.11\n            or filename.startswith("/")\n            or filename == ".."\n            or filename.startswith("../")\n        ):\n            return None\n\n        parts.append(filename)\n\n    return posixpath.join(*parts)\n'

TWINS += [
    {"name": 'r3-empty-component-skips-checks-in-else-branch', "edits": [(S, _R3_BODY, '    parts = [directory or "."]\n    for filename in pathnames:\n        if filename == "":\n            pass\n        else:\n            filename = posixpath.normpath(filename)\n            if (\n                any(sep in filename for sep in _os_alt_seps)\n                or os.path.isabs(filename)\n                or filename.startswith("/")\n                or filename == ".."\n                or filename.startswith("../")\n            ):\n                return None\n        parts.append(filename)\n    return posixpath.join(*parts)\n')]},
    {"name": 'r3-empty-component-appended-as-literal', "edits": [(S, _R3_BODY, '    parts = [directory or "."]\n    for filename in pathnames:\n        if not filename:\n            parts.append("")\n            continue\n        filename = posixpath.normpath(filename)\n        if any(sep in filename for sep in _os_alt_seps) or os.path.isabs(filename) or filename.startswith("/"):\n            return None\n        if filename == ".." or filename.startswith("../"):\n            return None\n        parts.append(filename)\n    return posixpath.join(*parts)\n')]},
    {"name": 'r3-len-zero-guard-two-append-sites', "edits": [(S, _R3_BODY, '    parts = [directory or "."]\n    for filename in pathnames:\n        if len(filename) == 0:\n            parts.append(filename)\n        else:\n            normalized = posixpath.normpath(filename)\n            if any(sep in normalized for sep in _os_alt_seps) or os.path.isabs(normalized) or normalized.startswith(("/", "../")) or normalized == "..":\n                return None\n            parts.append(normalized)\n    return posixpath.join(*parts)\n')]},
    {"name": 'r3-copy-made-before-the-emptiness-test', "edits": [(S, _R3_BODY, '    parts = [directory or "."]\n    for filename in pathnames:\n        piece = filename\n        if filename == "":\n            parts += [piece]\n            continue\n        piece = posixpath.normpath(filename)\n        if any(sep in piece for sep in _os_alt_seps) or os.path.isabs(piece) or piece.startswith("/") or piece == ".." or piece.startswith("../"):\n            return None\n        parts += [piece]\n    return posixpath.join(*parts)\n')]},
    {"name": 'r3-membership-shortcut-for-empty-and-dot', "edits": [(S, _R3_BODY, '    parts = [directory or "."]\n    for filename in pathnames:\n        if filename != "":\n            filename = posixpath.normpath(filename)\n        if filename in ("", "."):\n            parts.append(filename)\n            continue\n        if any(sep in filename for sep in _os_alt_seps) or os.path.isabs(filename) or filename.startswith("/") or filename == ".." or filename.startswith("../"):\n            return None\n        parts.append(filename)\n    return posixpath.join(*parts)\n')]},
    {"name": 'r3-reject-tests-split-by-leading-dot', "edits": [(S, _R3_BODY, '    parts = [directory or "."]\n    for filename in pathnames:\n        if filename != "":\n            filename = posixpath.normpath(filename)\n        if any(sep in filename for sep in _os_alt_seps):\n            return None\n        if filename.startswith("."):\n            if filename == ".." or filename.startswith("../"):\n                return None\n        elif os.path.isabs(filename) or filename.startswith("/"):\n            return None\n        parts.append(filename)\n    return posixpath.join(*parts)\n')]},
    {"name": 'r3-incremental-join-empty-component-early', "edits": [(S, _R3_BODY, '    result = directory or "."\n    for filename in pathnames:\n        if filename == "":\n            result = posixpath.join(result, filename)\n            continue\n        filename = posixpath.normpath(filename)\n        if any(sep in filename for sep in _os_alt_seps) or os.path.isabs(filename) or filename.startswith("/") or filename == ".." or filename.startswith("../"):\n            return None\n        result = posixpath.join(result, filename)\n    return result\n')]},
    {"name": 'r3-appended-value-with-constant-arm', "edits": [(S, _R3_BODY, '    parts = [directory or "."]\n    for filename in pathnames:\n        if filename != "":\n            filename = posixpath.normpath(filename)\n        if any(sep in filename for sep in _os_alt_seps) or os.path.isabs(filename) or filename.startswith("/") or filename == ".." or filename.startswith("../"):\n            return None\n        parts.append(filename if filename else "")\n    return posixpath.join(*parts)\n')]},
    {"name": 'r3-empty-component-bound-as-constant', "edits": [(S, _R3_BODY, '    parts = [directory or "."]\n    for filename in pathnames:\n        if filename == "":\n            normalized = ""\n        else:\n            normalized = posixpath.normpath(filename)\n            if any(sep in normalized for sep in _os_alt_seps) or os.path.isabs(normalized) or normalized.startswith("/"):\n                return None\n            if normalized == ".." or normalized.startswith("../"):\n                return None\n        parts.append(normalized)\n    return posixpath.join(*parts)\n')]},
    {"name": 'r3-directory-loader-target-as-conditional-expression', "edits": [(M, '            if path is not None:\n                path = safe_join(directory, path)\n\n                if path is None:\n                    return None, None\n            else:\n                path = directory\n\n            if os.path.isfile(path):\n                return os.path.basename(path), self._opener(path)\n\n            return None, None\n', '            target = directory if path is None else safe_join(directory, path)\n\n            if target is None:\n                return None, None\n\n            if os.path.isfile(target):\n                return os.path.basename(target), self._opener(target)\n\n            return None, None\n')]},
    {"name": 'r3-directory-loader-candidates-list', "edits": [(M, '            if path is not None:\n                path = safe_join(directory, path)\n\n                if path is None:\n                    return None, None\n            else:\n                path = directory\n\n            if os.path.isfile(path):\n                return os.path.basename(path), self._opener(path)\n\n            return None, None\n', '            candidates = [safe_join(directory, path)] if path is not None else [directory]\n\n            for candidate in candidates:\n                if candidate is not None and os.path.isfile(candidate):\n                    return os.path.basename(candidate), self._opener(candidate)\n\n            return None, None\n')]},
    {"name": 'r3-directory-loader-local-resolver-function', "edits": [(M, '            if path is not None:\n                path = safe_join(directory, path)\n\n                if path is None:\n                    return None, None\n            else:\n                path = directory\n\n            if os.path.isfile(path):\n                return os.path.basename(path), self._opener(path)\n\n            return None, None\n', '            def resolve(name: str | None) -> str | None:\n                return directory if name is None else safe_join(directory, name)\n\n            full = resolve(path)\n\n            if full is None or not os.path.isfile(full):\n                return None, None\n\n            return os.path.basename(full), self._opener(full)\n')]},
    {"name": 'r3-opener-def-with-single-stat', "edits": [(M, '        return lambda: (\n            open(filename, "rb"),\n            datetime.fromtimestamp(os.path.getmtime(filename), tz=timezone.utc),\n            int(os.path.getsize(filename)),\n        )\n', '        def opener() -> tuple[t.IO[bytes], datetime, int]:\n            st = os.stat(filename)\n            return (\n                open(filename, "rb"),\n                datetime.fromtimestamp(st.st_mtime, tz=timezone.utc),\n                int(st.st_size),\n            )\n\n        return opener\n')]},
    {"name": 'r3-send-from-directory-walrus-and-kwargs-get', "edits": [(U, '    path_str = safe_join(os.fspath(directory), os.fspath(path))\n\n    if path_str is None:\n        raise NotFound()\n\n    # Flask will pass app.root_path, allowing its send_from_directory\n    # wrapper to not have to deal with paths.\n    if "_root_path" in kwargs:\n        path_str = os.path.join(kwargs["_root_path"], path_str)\n\n    if not os.path.isfile(path_str):\n        raise NotFound()\n\n    return send_file(path_str, environ, **kwargs)\n', '    if (path_str := safe_join(os.fspath(directory), os.fspath(path))) is None:\n        raise NotFound()\n\n    root = kwargs.get("_root_path")\n    full = path_str if root is None else os.path.join(root, path_str)\n\n    if not os.path.isfile(full):\n        raise NotFound()\n\n    return send_file(full, environ, **kwargs)\n')]},
    {"name": 'r3-send-from-directory-pieces-list-joined', "edits": [(U, '    path_str = safe_join(os.fspath(directory), os.fspath(path))\n\n    if path_str is None:\n        raise NotFound()\n\n    # Flask will pass app.root_path, allowing its send_from_directory\n    # wrapper to not have to deal with paths.\n    if "_root_path" in kwargs:\n        path_str = os.path.join(kwargs["_root_path"], path_str)\n\n    if not os.path.isfile(path_str):\n        raise NotFound()\n\n    return send_file(path_str, environ, **kwargs)\n', '    joined = safe_join(os.fspath(directory), os.fspath(path))\n\n    if joined is None:\n        raise NotFound()\n\n    pieces = [joined]\n\n    if "_root_path" in kwargs:\n        pieces.insert(0, kwargs["_root_path"])\n\n    path_str = os.path.join(*pieces)\n\n    if not os.path.isfile(path_str):\n        raise NotFound()\n\n    return send_file(path_str, environ, **kwargs)\n')]},
    {"name": 'r3-send-from-directory-typed-raise-translated', "edits": [(U, '    path_str = safe_join(os.fspath(directory), os.fspath(path))\n\n    if path_str is None:\n        raise NotFound()\n\n    # Flask will pass app.root_path, allowing its send_from_directory\n    # wrapper to not have to deal with paths.\n    if "_root_path" in kwargs:\n        path_str = os.path.join(kwargs["_root_path"], path_str)\n\n    if not os.path.isfile(path_str):\n        raise NotFound()\n\n    return send_file(path_str, environ, **kwargs)\n', '    path_str = safe_join(os.fspath(directory), os.fspath(path))\n\n    try:\n        if path_str is None:\n            raise FileNotFoundError(path)\n\n        if "_root_path" in kwargs:\n            path_str = os.path.join(kwargs["_root_path"], path_str)\n\n        if not os.path.isfile(path_str):\n            raise FileNotFoundError(path_str)\n    except FileNotFoundError:\n        raise NotFound() from None\n\n    return send_file(path_str, environ, **kwargs)\n')]},
    {"name": 'r3-middleware-attempts-generator-for-else', "edits": [(M, '        file_loader = None\n\n        for search_path, loader in self.exports:\n            if search_path == path:\n                real_filename, file_loader = loader(None)\n\n                if file_loader is not None:\n                    break\n\n            if not search_path.endswith("/"):\n                search_path += "/"\n\n            if path.startswith(search_path):\n                real_filename, file_loader = loader(path[len(search_path) :])\n\n                if file_loader is not None:\n                    break\n\n        if file_loader is None or not self.is_allowed(real_filename):  # type: ignore\n            return self.app(environ, start_response)\n', '        def attempts() -> t.Iterator[tuple[str | None, _TOpener | None]]:\n            for search_path, loader in self.exports:\n                if search_path == path:\n                    yield loader(None)\n\n                if not search_path.endswith("/"):\n                    search_path += "/"\n\n                if path.startswith(search_path):\n                    yield loader(path[len(search_path) :])\n\n        for real_filename, file_loader in attempts():\n            if file_loader is not None:\n                break\n        else:\n            return self.app(environ, start_response)\n\n        if not self.is_allowed(real_filename):  # type: ignore\n            return self.app(environ, start_response)\n')]},
    {"name": 'r3-middleware-hits-list-next-default', "edits": [(M, '        file_loader = None\n\n        for search_path, loader in self.exports:\n            if search_path == path:\n                real_filename, file_loader = loader(None)\n\n                if file_loader is not None:\n                    break\n\n            if not search_path.endswith("/"):\n                search_path += "/"\n\n            if path.startswith(search_path):\n                real_filename, file_loader = loader(path[len(search_path) :])\n\n                if file_loader is not None:\n                    break\n\n        if file_loader is None or not self.is_allowed(real_filename):  # type: ignore\n            return self.app(environ, start_response)\n', '        hits = []\n\n        for search_path, loader in self.exports:\n            if search_path == path:\n                hits.append(loader(None))\n\n            if not search_path.endswith("/"):\n                search_path += "/"\n\n            if path.startswith(search_path):\n                hits.append(loader(path[len(search_path) :]))\n\n        real_filename, file_loader = next(\n            (hit for hit in hits if hit[1] is not None), (None, None)\n        )\n\n        if file_loader is None or not self.is_allowed(real_filename):  # type: ignore\n            return self.app(environ, start_response)\n')]},
    {"name": 'r3-package-loader-join-in-conditional-expression', "edits": [(M, '            if path is None:\n                return None, None\n\n            path = safe_join(package_path, path)\n\n            if path is None:\n                return None, None\n', '            path = safe_join(package_path, path) if path is not None else None\n\n            if path is None:\n                return None, None\n')]},
    {"name": 'r3-package-loader-miss-constant', "edits": [(M, '            if path is None:\n                return None, None\n\n            path = safe_join(package_path, path)\n\n            if path is None:\n                return None, None\n', '            miss = (None, None)\n\n            if path is None:\n                return miss\n\n            path = safe_join(package_path, path)\n\n            if not path:\n                return miss\n')]},
    {"name": 'r3-filename-filter-comprehension-bound-to-local', "edits": [(U, '    for sep in os.sep, os.path.altsep:\n        if sep:\n            filename = filename.replace(sep, " ")\n    filename = str(_filename_ascii_strip_re.sub("", "_".join(filename.split()))).strip(\n        "._"\n    )\n', '    for sep in os.sep, os.path.altsep:\n        if sep:\n            filename = filename.replace(sep, " ")\n    joined = "_".join(filename.split())\n    kept = [ch for ch in joined if ch.isascii() and (ch.isalnum() or ch in "_.-")]\n    filename = "".join(kept).strip("._")\n')]},
    {"name": 'r3-filename-pieces-filtered-one-by-one', "edits": [(U, '    for sep in os.sep, os.path.altsep:\n        if sep:\n            filename = filename.replace(sep, " ")\n    filename = str(_filename_ascii_strip_re.sub("", "_".join(filename.split()))).strip(\n        "._"\n    )\n', '    for sep in os.sep, os.path.altsep:\n        if sep:\n            filename = filename.replace(sep, " ")\n    pieces = (_filename_ascii_strip_re.sub("", word) for word in filename.split())\n    filename = "_".join(pieces).strip("._")\n')]},
    {"name": 'r3-filename-steps-on-separate-lines', "edits": [(U, '    for sep in os.sep, os.path.altsep:\n        if sep:\n            filename = filename.replace(sep, " ")\n    filename = str(_filename_ascii_strip_re.sub("", "_".join(filename.split()))).strip(\n        "._"\n    )\n', '    for sep in filter(None, (os.sep, os.path.altsep)):\n        filename = filename.replace(sep, " ")\n    filename = "_".join(filename.split())\n    filename = _filename_ascii_strip_re.sub("", filename)\n    filename = filename.strip("._")\n')]},
]
MUTANTS += [
    {"name": 'r3-literal-dotdot-appended', "expect": "R14.1", "edits": [(S, _R3_BODY, '    parts = [directory or "."]\n    for filename in pathnames:\n        if not filename:\n            parts.append("..")\n            continue\n        filename = posixpath.normpath(filename)\n        if any(sep in filename for sep in _os_alt_seps) or os.path.isabs(filename) or filename.startswith("/"):\n            return None\n        if filename == ".." or filename.startswith("../"):\n            return None\n        parts.append(filename)\n    return posixpath.join(*parts)\n')]},
    {"name": 'r3-early-append-under-dotdot-guard', "expect": "R14.1", "edits": [(S, _R3_BODY, '    parts = [directory or "."]\n    for filename in pathnames:\n        if filename == "..":\n            parts.append(filename)\n            continue\n        filename = posixpath.normpath(filename)\n        if any(sep in filename for sep in _os_alt_seps) or os.path.isabs(filename) or filename.startswith("/"):\n            return None\n        if filename == ".." or filename.startswith("../"):\n            return None\n        parts.append(filename)\n    return posixpath.join(*parts)\n')]},
    {"name": 'r3-early-append-under-inverted-guard', "expect": "R14.1", "edits": [(S, _R3_BODY, '    parts = [directory or "."]\n    for filename in pathnames:\n        if filename != "":\n            parts.append(filename)\n            continue\n        filename = posixpath.normpath(filename)\n        if any(sep in filename for sep in _os_alt_seps) or os.path.isabs(filename) or filename.startswith("/"):\n            return None\n        if filename == ".." or filename.startswith("../"):\n            return None\n        parts.append(filename)\n    return posixpath.join(*parts)\n')]},
    {"name": 'r3-else-branch-forgets-dotdot', "expect": "R14.1", "edits": [(S, _R3_BODY, '    parts = [directory or "."]\n    for filename in pathnames:\n        if filename == "":\n            pass\n        else:\n            filename = posixpath.normpath(filename)\n            if (\n                any(sep in filename for sep in _os_alt_seps)\n                or os.path.isabs(filename)\n                or filename.startswith("/")\n                or filename.startswith("../")\n            ):\n                return None\n        parts.append(filename)\n    return posixpath.join(*parts)\n')]},
    {"name": 'r3-value-rebound-after-emptiness-guard', "expect": "R14.1", "edits": [(S, _R3_BODY, '    parts = [directory or "."]\n    for filename in pathnames:\n        if filename == "":\n            filename = pathnames[0]\n            parts.append(filename)\n            continue\n        filename = posixpath.normpath(filename)\n        if any(sep in filename for sep in _os_alt_seps) or os.path.isabs(filename) or filename.startswith("/"):\n            return None\n        if filename == ".." or filename.startswith("../"):\n            return None\n        parts.append(filename)\n    return posixpath.join(*parts)\n')]},
    {"name": 'r3-membership-shortcut-lets-dotdot-through', "expect": "R14.1", "edits": [(S, _R3_BODY, '    parts = [directory or "."]\n    for filename in pathnames:\n        if filename != "":\n            filename = posixpath.normpath(filename)\n        if filename in ("", ".", ".."):\n            parts.append(filename)\n            continue\n        if any(sep in filename for sep in _os_alt_seps) or os.path.isabs(filename) or filename.startswith("/") or filename == ".." or filename.startswith("../"):\n            return None\n        parts.append(filename)\n    return posixpath.join(*parts)\n')]},
    {"name": 'r3-case-split-leaves-absolute-unchecked', "expect": "R14.1", "edits": [(S, _R3_BODY, '    parts = [directory or "."]\n    for filename in pathnames:\n        if filename != "":\n            filename = posixpath.normpath(filename)\n        if any(sep in filename for sep in _os_alt_seps):\n            return None\n        if filename.startswith("."):\n            if filename == ".." or filename.startswith("../"):\n                return None\n        parts.append(filename)\n    return posixpath.join(*parts)\n')]},
    {"name": 'r3-early-append-guarded-by-other-variable', "expect": "R14.1", "edits": [(S, _R3_BODY, '    parts = [directory or "."]\n    for filename in pathnames:\n        if directory == "":\n            parts.append(filename)\n            continue\n        filename = posixpath.normpath(filename)\n        if any(sep in filename for sep in _os_alt_seps) or os.path.isabs(filename) or filename.startswith("/"):\n            return None\n        if filename == ".." or filename.startswith("../"):\n            return None\n        parts.append(filename)\n    return posixpath.join(*parts)\n')]},
    {"name": 'r3-else-branch-reject-continues', "expect": "R14.1", "edits": [(S, _R3_BODY, '    parts = [directory or "."]\n    for filename in pathnames:\n        if filename == "":\n            pass\n        else:\n            filename = posixpath.normpath(filename)\n            if (\n                any(sep in filename for sep in _os_alt_seps)\n                or os.path.isabs(filename)\n                or filename.startswith("/")\n                or filename == ".."\n                or filename.startswith("../")\n            ):\n                continue\n        parts.append(filename)\n    return posixpath.join(*parts)\n')]},
    {"name": 'r3-candidates-list-without-none-test', "expect": 'R14.3', "edits": [(M, '            if path is not None:\n                path = safe_join(directory, path)\n\n                if path is None:\n                    return None, None\n            else:\n                path = directory\n\n            if os.path.isfile(path):\n                return os.path.basename(path), self._opener(path)\n\n            return None, None\n', '            candidates = [safe_join(directory, path)] if path is not None else [directory]\n\n            for candidate in candidates:\n                if os.path.isfile(candidate):\n                    return os.path.basename(candidate), self._opener(candidate)\n\n            return None, None\n')]},
    {"name": 'r3-raw-path-appended-to-pieces-list', "expect": 'R14.2', "edits": [(U, '    path_str = safe_join(os.fspath(directory), os.fspath(path))\n\n    if path_str is None:\n        raise NotFound()\n\n    # Flask will pass app.root_path, allowing its send_from_directory\n    # wrapper to not have to deal with paths.\n    if "_root_path" in kwargs:\n        path_str = os.path.join(kwargs["_root_path"], path_str)\n\n    if not os.path.isfile(path_str):\n        raise NotFound()\n\n    return send_file(path_str, environ, **kwargs)\n', '    joined = safe_join(os.fspath(directory), os.fspath(path))\n\n    if joined is None:\n        raise NotFound()\n\n    pieces = [joined]\n\n    if "_root_path" in kwargs:\n        pieces.insert(0, kwargs["_root_path"])\n\n    pieces.append(os.fspath(path))\n    path_str = os.path.join(*pieces)\n\n    if not os.path.isfile(path_str):\n        raise NotFound()\n\n    return send_file(path_str, environ, **kwargs)\n')]},
    {"name": 'r3-conditional-expression-plain-join', "expect": 'R14.2', "edits": [(M, '            if path is not None:\n                path = safe_join(directory, path)\n\n                if path is None:\n                    return None, None\n            else:\n                path = directory\n\n            if os.path.isfile(path):\n                return os.path.basename(path), self._opener(path)\n\n            return None, None\n', '            target = directory if path is None else os.path.join(directory, path)\n\n            if target is None:\n                return None, None\n\n            if os.path.isfile(target):\n                return os.path.basename(target), self._opener(target)\n\n            return None, None\n')]},
    {"name": 'r3-join-result-selected-without-none-test', "expect": 'R14.3', "edits": [(U, '    path_str = safe_join(os.fspath(directory), os.fspath(path))\n\n    if path_str is None:\n        raise NotFound()\n\n    # Flask will pass app.root_path, allowing its send_from_directory\n    # wrapper to not have to deal with paths.\n    if "_root_path" in kwargs:\n        path_str = os.path.join(kwargs["_root_path"], path_str)\n\n    if not os.path.isfile(path_str):\n        raise NotFound()\n\n    return send_file(path_str, environ, **kwargs)\n', '    path_str = safe_join(os.fspath(directory), os.fspath(path))\n\n    root = kwargs.get("_root_path")\n    full = path_str if root is None else os.path.join(root, path_str)\n\n    if not os.path.isfile(full):\n        raise NotFound()\n\n    return send_file(full, environ, **kwargs)\n')]},
    {"name": 'r3-named-filter-keeps-slash', "expect": 'R14.4', "edits": [(U, '    for sep in os.sep, os.path.altsep:\n        if sep:\n            filename = filename.replace(sep, " ")\n    filename = str(_filename_ascii_strip_re.sub("", "_".join(filename.split()))).strip(\n        "._"\n    )\n', '    for sep in os.sep, os.path.altsep:\n        if sep:\n            filename = filename.replace(sep, " ")\n    joined = "_".join(filename.split())\n    kept = [ch for ch in joined if ch.isascii() and (ch.isalnum() or ch in "_.-/")]\n    filename = "".join(kept).strip("._")\n')]},
    {"name": 'r3-strip-moved-before-the-deleting-step', "expect": 'R14.4', "edits": [(U, '    for sep in os.sep, os.path.altsep:\n        if sep:\n            filename = filename.replace(sep, " ")\n    filename = str(_filename_ascii_strip_re.sub("", "_".join(filename.split()))).strip(\n        "._"\n    )\n', '    for sep in os.sep, os.path.altsep:\n        if sep:\n            filename = filename.replace(sep, " ")\n    filename = "_".join(filename.split()).strip("._")\n    filename = _filename_ascii_strip_re.sub("", filename)\n')]},
]
TWINS += [
    {"name": "r3-empty-component-appended-early-then-two-guards", "edits": [(S, _R3_BODY, '    parts = [directory or "."]\n    for filename in pathnames:\n        if filename == "":\n            # nothing to normalise, cannot match any check below\n            parts.append(filename)\n            continue\n        filename = posixpath.normpath(filename)\n        if any(sep in filename for sep in _os_alt_seps) or os.path.isabs(filename) or filename.startswith("/"):\n            return None\n        if filename == ".." or filename.startswith("../"):\n            return None\n        parts.append(filename)\n    return posixpath.join(*parts)\n')]},
]

TWINS += [
    {"name": "r3-reject-tests-as-table-of-predicates", "edits": [(S, _R3_BODY, '    parts = [directory or "."]\n    checks = (os.path.isabs, lambda n: n.startswith("/"), lambda n: n == "..", lambda n: n.startswith("../"))\n    for filename in pathnames:\n        if filename != "":\n            filename = posixpath.normpath(filename)\n        if any(sep in filename for sep in _os_alt_seps) or any(check(filename) for check in checks):\n            return None\n        parts.append(filename)\n    return posixpath.join(*parts)\n')]},
    {"name": "r3-loop-over-map-of-normaliser-helper", "edits": [(S, _R3_BODY, '    parts = [directory or "."]\n    for filename in map(_normalize_component, pathnames):\n        if any(sep in filename for sep in _os_alt_seps) or os.path.isabs(filename) or filename.startswith("/") or filename == ".." or filename.startswith("../"):\n            return None\n        parts.append(filename)\n    return posixpath.join(*parts)\n'), (S, _SIG, 'def _normalize_component(name: str) -> str:\n    return posixpath.normpath(name) if name != "" else name\n\n\n' + _SIG)]},
    {"name": "r3-parts-in-a-deque", "edits": [(S, _R3_BODY, '    parts = collections.deque([directory or "."])\n    for filename in pathnames:\n        if filename != "":\n            filename = posixpath.normpath(filename)\n        if any(sep in filename for sep in _os_alt_seps) or os.path.isabs(filename) or filename.startswith("/") or filename == ".." or filename.startswith("../"):\n            return None\n        parts.append(filename)\n    return posixpath.join(*parts)\n'), (S, _SIG, 'import collections\n\n\n' + _SIG)]},
    {"name": "r3-checked-components-spread-into-join", "edits": [(S, _R3_BODY, '    checked = []\n    for filename in pathnames:\n        if filename != "":\n            filename = posixpath.normpath(filename)\n        if any(sep in filename for sep in _os_alt_seps) or os.path.isabs(filename) or filename.startswith("/") or filename == ".." or filename.startswith("../"):\n            return None\n        checked.append(filename)\n    return posixpath.join(directory or ".", *checked)\n')]},
]
MUTANTS += [
    {"name": "r3-predicate-table-misses-dotdot", "expect": "R14.1", "edits": [(S, _R3_BODY, '    parts = [directory or "."]\n    checks = (os.path.isabs, lambda n: n.startswith("/"), lambda n: n.startswith("../"))\n    for filename in pathnames:\n        if filename != "":\n            filename = posixpath.normpath(filename)\n        if any(sep in filename for sep in _os_alt_seps) or any(check(filename) for check in checks):\n            return None\n        parts.append(filename)\n    return posixpath.join(*parts)\n')]},
]

# ---- R14.5: which directory the check contains the result in (the base of safe_join, nothing narrower)
_SFD_FULL = '    path_str = safe_join(os.fspath(directory), os.fspath(path))\n\n    if path_str is None:\n        raise NotFound()\n\n    # Flask will pass app.root_path, allowing its send_from_directory\n    # wrapper to not have to deal with paths.\n    if "_root_path" in kwargs:\n        path_str = os.path.join(kwargs["_root_path"], path_str)\n\n    if not os.path.isfile(path_str):\n        raise NotFound()\n\n    return send_file(path_str, environ, **kwargs)\n'
_SFD_TAIL = '\n    if path_str is None:\n        raise NotFound()\n\n    if not os.path.isfile(path_str):\n        raise NotFound()\n\n    return send_file(path_str, environ, **kwargs)\n'
_DL_JOIN = "                path = safe_join(directory, path)\n"
_PL_JOIN = "            path = safe_join(package_path, path)\n"

MUTANTS += [
    # the directory is joined to the request path first, the root becomes the base: '..' consumes the directory name
    {"name": "r5-directory-joined-into-component-two-calls", "expect": "R14.5", "edits": [(U, _SFD_FULL, '    rel = os.fspath(path)\n\n    if "_root_path" in kwargs:\n        path_str = safe_join(kwargs["_root_path"], os.path.join(os.fspath(directory), rel))\n    else:\n        path_str = safe_join(os.fspath(directory), rel)\n' + _SFD_TAIL)]},
    {"name": "r5-directory-formatted-into-component", "expect": "R14.5", "edits": [(U, _SFD_FULL, '    root = kwargs.get("_root_path")\n    wanted = f"{os.fspath(directory)}/{os.fspath(path)}" if root is not None else os.fspath(path)\n    path_str = safe_join(root if root is not None else os.fspath(directory), wanted)\n' + _SFD_TAIL)]},
    {"name": "r5-directory-in-pieces-list-joined-before-check", "expect": "R14.5", "edits": [(U, _SFD_FULL, '    pieces = [os.fspath(directory)]\n    pieces.append(os.fspath(path))\n    path_str = safe_join(kwargs.get("_root_path", "."), "/".join(pieces))\n' + _SFD_TAIL)]},
    {"name": "r5-directory-grown-in-place-with-request-path", "expect": "R14.5", "edits": [(U, _SFD_FULL, '    wanted = os.fspath(directory)\n    wanted += "/" + os.fspath(path)\n    path_str = safe_join(kwargs.get("_root_path", ""), wanted)\n' + _SFD_TAIL)]},
    # the mixing happens in the caller of a followed helper
    {"name": "r5-helper-receives-directory-and-path-as-one-component", "expect": "R14.5", "edits": [(U, SFD_SIG, "def _below(base: str, rel: str) -> str | None:\n    return safe_join(base, rel)\n\n\n" + SFD_SIG), (U, _SFD_FULL, '    path_str = _below(kwargs.get("_root_path", "."), os.path.join(directory, path))\n' + _SFD_TAIL)]},
    # the directory does not take part at all: contained in the root only
    {"name": "r5-base-is-root-path-only", "expect": "R14.5", "edits": [(U, _SFD_FULL, '    if "_root_path" in kwargs:\n        directory = kwargs["_root_path"]\n\n    path_str = safe_join(os.fspath(directory), os.fspath(path))\n' + _SFD_TAIL)]},
    # SharedDataMiddleware: the exported directory's own name moves to the untrusted side
    {"name": "r5-directory-loader-parent-as-base", "expect": "R14.5", "edits": [(M, _DL_JOIN, "                path = safe_join(os.path.dirname(directory), os.path.basename(directory) + \"/\" + path)\n")]},
    {"name": "r5-package-loader-path-percent-formatted", "expect": "R14.5", "edits": [(M, _PL_JOIN, '            path = safe_join("", "%s/%s" % (package_path, path))\n')]},
]
TWINS += [
    # the root is joined on the base side before the check: still contained in <root>/<directory>
    {"name": "r5-root-joined-into-base-before-check", "edits": [(U, _SFD_FULL, '    base = os.fspath(directory)\n\n    if "_root_path" in kwargs:\n        base = os.path.join(kwargs["_root_path"], base)\n\n    path_str = safe_join(base, os.fspath(path))\n' + _SFD_TAIL)]},
    {"name": "r5-base-selected-by-conditional-expression", "edits": [(U, _SFD_FULL, '    root = kwargs.get("_root_path")\n    path_str = safe_join(os.fspath(directory) if root is None else os.path.join(root, directory), os.fspath(path))\n' + _SFD_TAIL)]},
    # request data joined with constants only stays request data
    {"name": "r5-request-path-joined-with-constants", "edits": [(U, "    path_str = safe_join(os.fspath(directory), os.fspath(path))\n", '    wanted = os.path.join("", os.fspath(path))\n    wanted = "".join([wanted]) + ""\n    path_str = safe_join(os.fspath(directory), wanted)\n')]},
    {"name": "r5-containment-helper-gets-directory-as-base", "edits": [(U, SFD_SIG, "def _below(base: str, rel: str) -> str | None:\n    return safe_join(base, rel)\n\n\n" + SFD_SIG), (U, "    path_str = safe_join(os.fspath(directory), os.fspath(path))\n", "    path_str = _below(os.fspath(directory), os.fspath(path))\n")]},
    {"name": "r5-directory-loader-base-through-local", "edits": [(M, _DL_JOIN, "                root = os.fspath(directory)\n                wanted = f\"{path}\"\n                path = safe_join(root, wanted)\n")]},
    # a trusted name as a component of its own is checked on its own
    {"name": "r5-package-loader-base-split-into-two-trusted-parts", "edits": [(M, _PL_JOIN, '            path = safe_join(posixpath.dirname(package_path) or ".", posixpath.basename(package_path), path)\n')]},
]


# ---- stress round 1: fresh maintainer-style refactorings (sub-agents) that tripped R14.1 at first, own variants, mutants ----
TWINS += [
    {'name': 's1-altsep-test-as-inner-for-loop-three-guard-clauses', 'edits': [('security.py', '        if (\n            any(sep in filename for sep in _os_alt_seps)\n            or os.path.isabs(filename)\n            # ntpath.isabs doesn\'t catch this on Python < 3.11\n            or filename.startswith("/")\n            or filename == ".."\n            or filename.startswith("../")\n        ):\n', '        for sep in _os_alt_seps:\n            if sep in filename:\n                return None\n\n        # ntpath.isabs doesn\'t catch a leading "/" on Python < 3.11\n        if os.path.isabs(filename) or filename.startswith("/"):\n            return None\n\n        if filename == ".." or filename.startswith("../"):\n')]},
    {'name': 's1-first-segment-from-partition-bound-to-a-local', 'edits': [('security.py', '    if not directory:\n        # Ensure we end up with ./path if directory="" is given,\n        # otherwise the first untrusted part could become trusted.\n        directory = "."\n\n    parts = [directory]\n\n    for filename in pathnames:\n        if filename != "":\n            filename = posixpath.normpath(filename)\n\n        if (\n            any(sep in filename for sep in _os_alt_seps)\n            or os.path.isabs(filename)\n            # ntpath.isabs doesn\'t catch this on Python < 3.11\n            or filename.startswith("/")\n            or filename == ".."\n            or filename.startswith("../")\n', '    # Ensure we end up with ./path if directory="" is given, otherwise\n    # the first untrusted part could become trusted.\n    parts = [directory or "."]\n\n    for filename in pathnames:\n        if filename != "":\n            filename = posixpath.normpath(filename)\n\n        # After normpath any remaining ".." segments are leading ones.\n        first_segment = filename.partition("/")[0]\n\n        if (\n            any(sep in filename for sep in _os_alt_seps)\n            or os.path.isabs(filename)\n            # ntpath.isabs doesn\'t catch this on Python < 3.11\n            or filename.startswith("/")\n            or first_segment == ".."\n')]},
    {'name': 's1-normalising-generator-helper-and-startswith-tuple', 'edits': [('security.py', 'import hashlib\n', 'import collections.abc as cabc\nimport hashlib\n'), ('security.py', 'def safe_join(directory: str, *pathnames: str) -> str | None:\n', 'def _iter_normalized(pathnames: cabc.Iterable[str]) -> cabc.Iterator[str]:\n    """Lazily yield each path component collapsed with\n    :func:`posixpath.normpath`. An empty component is passed through as\n    is, ``normpath`` would turn it into ``"."``.\n    """\n    for name in pathnames:\n        if name != "":\n            name = posixpath.normpath(name)\n\n        yield name\n\n\ndef safe_join(directory: str, *pathnames: str) -> str | None:\n'), ('security.py', '    for filename in pathnames:\n        if filename != "":\n            filename = posixpath.normpath(filename)\n\n        if (\n            any(sep in filename for sep in _os_alt_seps)\n            or os.path.isabs(filename)\n            # ntpath.isabs doesn\'t catch this on Python < 3.11\n            or filename.startswith("/")\n            or filename == ".."\n            or filename.startswith("../")\n', '    for filename in _iter_normalized(pathnames):\n        if (\n            any(sep in filename for sep in _os_alt_seps)\n            or os.path.isabs(filename)\n            # ntpath.isabs doesn\'t catch a leading "/" on Python < 3.11\n            or filename.startswith(("/", "../"))\n            or filename == ".."\n')]},
    {'name': 's1-dotdot-as-appended-slash-prefix-break-and-for-else', 'edits': [('security.py', '            or filename == ".."\n            or filename.startswith("../")\n        ):\n            return None\n\n        parts.append(filename)\n\n    return posixpath.join(*parts)\n', '            # ".." itself or anything below it\n            or (filename + "/").startswith("../")\n        ):\n            break\n\n        parts.append(filename)\n    else:\n        # Every component was accepted.\n        return posixpath.join(*parts)\n\n    return None\n')]},
    {'name': 's1-slots-prefilled-and-overwritten-by-enumerate-index', 'edits': [('security.py', '    parts = [directory]\n\n    for filename in pathnames:\n', '    # The untrusted components are replaced by their normalized form below.\n    parts = [directory, *pathnames]\n\n    for index, filename in enumerate(pathnames, start=1):\n'), ('security.py', '        parts.append(filename)\n', '        parts[index] = filename\n'), ('utils.py', '    # wrapper to not have to deal with paths.\n    if "_root_path" in kwargs:\n        path_str = os.path.join(kwargs["_root_path"], path_str)\n', '    # wrapper to not have to deal with paths. Joining to the empty\n    # default leaves the path as it is.\n    path_str = os.path.join(kwargs.get("_root_path", ""), path_str)\n')]},
    {'name': 's1-normalise-pass-check-pass-then-extend', 'edits': [('security.py', '    for filename in pathnames:\n        if filename != "":\n            filename = posixpath.normpath(filename)\n\n        if (\n            any(sep in filename for sep in _os_alt_seps)\n            or os.path.isabs(filename)\n            # ntpath.isabs doesn\'t catch this on Python < 3.11\n            or filename.startswith("/")\n            or filename == ".."\n            or filename.startswith("../")\n        ):\n            return None\n\n        parts.append(filename)\n', '    cleaned = [posixpath.normpath(p) if p != "" else p for p in pathnames]\n\n    for filename in cleaned:\n        if (\n            any(sep in filename for sep in _os_alt_seps)\n            or os.path.isabs(filename)\n            or filename.startswith("/")\n            or filename == ".."\n            or filename.startswith("../")\n        ):\n            return None\n\n    parts.extend(cleaned)\n')]},
    {'name': 's1-check-pass-then-iadd-of-the-whole-sequence', 'edits': [('security.py', '    for filename in pathnames:\n        if filename != "":\n            filename = posixpath.normpath(filename)\n\n        if (\n            any(sep in filename for sep in _os_alt_seps)\n            or os.path.isabs(filename)\n            # ntpath.isabs doesn\'t catch this on Python < 3.11\n            or filename.startswith("/")\n            or filename == ".."\n            or filename.startswith("../")\n        ):\n            return None\n\n        parts.append(filename)\n', '    cleaned = [posixpath.normpath(p) if p != "" else p for p in pathnames]\n\n    for filename in cleaned:\n        if (\n            any(sep in filename for sep in _os_alt_seps)\n            or os.path.isabs(filename)\n            or filename.startswith("/")\n            or filename == ".."\n            or filename.startswith("../")\n        ):\n            return None\n\n    parts += cleaned\n')]},
    {'name': 's1-check-pass-then-star-star-display', 'edits': [('security.py', '    for filename in pathnames:\n        if filename != "":\n            filename = posixpath.normpath(filename)\n\n        if (\n            any(sep in filename for sep in _os_alt_seps)\n            or os.path.isabs(filename)\n            # ntpath.isabs doesn\'t catch this on Python < 3.11\n            or filename.startswith("/")\n            or filename == ".."\n            or filename.startswith("../")\n        ):\n            return None\n\n        parts.append(filename)\n', '    cleaned = [posixpath.normpath(p) if p != "" else p for p in pathnames]\n\n    for filename in cleaned:\n        if (\n            any(sep in filename for sep in _os_alt_seps)\n            or os.path.isabs(filename)\n            or filename.startswith("/")\n            or filename == ".."\n            or filename.startswith("../")\n        ):\n            return None\n\n    parts = [*parts, *cleaned]\n')]},
    {'name': 's1-check-pass-then-list-plus-sequence', 'edits': [('security.py', '    for filename in pathnames:\n        if filename != "":\n            filename = posixpath.normpath(filename)\n\n        if (\n            any(sep in filename for sep in _os_alt_seps)\n            or os.path.isabs(filename)\n            # ntpath.isabs doesn\'t catch this on Python < 3.11\n            or filename.startswith("/")\n            or filename == ".."\n            or filename.startswith("../")\n        ):\n            return None\n\n        parts.append(filename)\n', '    cleaned = [posixpath.normpath(p) if p != "" else p for p in pathnames]\n\n    for filename in cleaned:\n        if (\n            any(sep in filename for sep in _os_alt_seps)\n            or os.path.isabs(filename)\n            or filename.startswith("/")\n            or filename == ".."\n            or filename.startswith("../")\n        ):\n            return None\n\n    parts = parts + cleaned\n')]},
    {'name': 's1-altsep-inner-loop-negated-with-continue', 'edits': [('security.py', '        if (\n            any(sep in filename for sep in _os_alt_seps)\n            or os.path.isabs(filename)\n            # ntpath.isabs doesn\'t catch this on Python < 3.11\n            or filename.startswith("/")\n            or filename == ".."\n            or filename.startswith("../")\n        ):\n            return None\n', '        for sep in _os_alt_seps:\n            if sep not in filename:\n                continue\n            return None\n\n        if os.path.isabs(filename) or filename.startswith("/"):\n            return None\n\n        if filename == ".." or filename.startswith("../"):\n            return None\n')]},
    {'name': 's1-first-segment-by-unpacking-partition', 'edits': [('security.py', '        if (\n            any(sep in filename for sep in _os_alt_seps)\n            or os.path.isabs(filename)\n            # ntpath.isabs doesn\'t catch this on Python < 3.11\n            or filename.startswith("/")\n            or filename == ".."\n            or filename.startswith("../")\n        ):\n            return None\n', '        first_segment, _, _ = filename.partition("/")\n\n        if (\n            any(sep in filename for sep in _os_alt_seps)\n            or os.path.isabs(filename)\n            or filename.startswith("/")\n            or first_segment == ".."\n        ):\n            return None\n')]},
    {'name': 's1-first-segment-bound-by-walrus-in-the-test', 'edits': [('security.py', '        if (\n            any(sep in filename for sep in _os_alt_seps)\n            or os.path.isabs(filename)\n            # ntpath.isabs doesn\'t catch this on Python < 3.11\n            or filename.startswith("/")\n            or filename == ".."\n            or filename.startswith("../")\n        ):\n            return None\n', '        if (\n            any(sep in filename for sep in _os_alt_seps)\n            or os.path.isabs(filename)\n            or filename.startswith("/")\n            or (head := filename.split("/", 1)[0]) == ".."\n        ):\n            return None\n')]},
    {'name': 's1-normalising-list-helper', 'edits': [('security.py', 'def safe_join(', 'def _normalized(names):\n    return [posixpath.normpath(n) if n else n for n in names]\n\n\ndef safe_join('), ('security.py', '    for filename in pathnames:\n        if filename != "":\n            filename = posixpath.normpath(filename)\n\n', '    for filename in _normalized(pathnames):\n')]},
    {'name': 's1-dotdot-as-appended-slash-prefix', 'edits': [('security.py', '            or filename == ".."\n            or filename.startswith("../")\n', '            or (filename + "/").startswith("../")\n')]},
]
MUTANTS += [
    {'name': 's1-extend-after-check-of-a-slice', 'expect': 'R14.1', 'edits': [('security.py', '    for filename in pathnames:\n        if filename != "":\n            filename = posixpath.normpath(filename)\n\n        if (\n            any(sep in filename for sep in _os_alt_seps)\n            or os.path.isabs(filename)\n            # ntpath.isabs doesn\'t catch this on Python < 3.11\n            or filename.startswith("/")\n            or filename == ".."\n            or filename.startswith("../")\n        ):\n            return None\n\n        parts.append(filename)\n', '    cleaned = [posixpath.normpath(p) if p != "" else p for p in pathnames]\n\n    for filename in cleaned[1:]:\n        if (\n            any(sep in filename for sep in _os_alt_seps)\n            or os.path.isabs(filename)\n            or filename.startswith("/")\n            or filename == ".."\n            or filename.startswith("../")\n        ):\n            return None\n\n    parts.extend(cleaned)\n')]},
    {'name': 's1-extend-after-check-without-dotdot', 'expect': 'R14.1', 'edits': [('security.py', '    for filename in pathnames:\n        if filename != "":\n            filename = posixpath.normpath(filename)\n\n        if (\n            any(sep in filename for sep in _os_alt_seps)\n            or os.path.isabs(filename)\n            # ntpath.isabs doesn\'t catch this on Python < 3.11\n            or filename.startswith("/")\n            or filename == ".."\n            or filename.startswith("../")\n        ):\n            return None\n\n        parts.append(filename)\n', '    cleaned = [posixpath.normpath(p) if p != "" else p for p in pathnames]\n\n    for filename in cleaned:\n        if (\n            any(sep in filename for sep in _os_alt_seps)\n            or os.path.isabs(filename)\n            or filename.startswith("/")\n            or filename.startswith("../")\n        ):\n            return None\n\n    parts.extend(cleaned)\n')]},
    {'name': 's1-extend-before-check-that-only-breaks', 'expect': 'R14.1', 'edits': [('security.py', '    for filename in pathnames:\n        if filename != "":\n            filename = posixpath.normpath(filename)\n\n        if (\n            any(sep in filename for sep in _os_alt_seps)\n            or os.path.isabs(filename)\n            # ntpath.isabs doesn\'t catch this on Python < 3.11\n            or filename.startswith("/")\n            or filename == ".."\n            or filename.startswith("../")\n        ):\n            return None\n\n        parts.append(filename)\n', '    cleaned = [posixpath.normpath(p) if p != "" else p for p in pathnames]\n\n    parts.extend(cleaned)\n    for filename in cleaned:\n        if (\n            any(sep in filename for sep in _os_alt_seps)\n            or os.path.isabs(filename)\n            or filename.startswith("/")\n            or filename == ".."\n            or filename.startswith("../")\n        ):\n            break\n\n')]},
    {'name': 's1-altsep-inner-loop-breaks-instead-of-refusing', 'expect': 'R14.1', 'edits': [('security.py', '        if (\n            any(sep in filename for sep in _os_alt_seps)\n            or os.path.isabs(filename)\n            # ntpath.isabs doesn\'t catch this on Python < 3.11\n            or filename.startswith("/")\n            or filename == ".."\n            or filename.startswith("../")\n        ):\n            return None\n', '        for sep in _os_alt_seps:\n            if sep in filename:\n                break\n\n        if os.path.isabs(filename) or filename.startswith("/"):\n            return None\n\n        if filename == ".." or filename.startswith("../"):\n            return None\n')]},
    {'name': 's1-first-segment-taken-before-normpath', 'expect': 'R14.1', 'edits': [('security.py', '        if filename != "":\n            filename = posixpath.normpath(filename)\n\n        if (\n            any(sep in filename for sep in _os_alt_seps)\n            or os.path.isabs(filename)\n            # ntpath.isabs doesn\'t catch this on Python < 3.11\n            or filename.startswith("/")\n            or filename == ".."\n            or filename.startswith("../")\n        ):\n            return None\n', '        first_segment = filename.partition("/")[0]\n\n        if filename != "":\n            filename = posixpath.normpath(filename)\n\n        if (\n            any(sep in filename for sep in _os_alt_seps)\n            or os.path.isabs(filename)\n            or filename.startswith("/")\n            or first_segment == ".."\n        ):\n            return None\n')]},
    {'name': 's1-last-segment-instead-of-first', 'expect': 'R14.1', 'edits': [('security.py', '        if (\n            any(sep in filename for sep in _os_alt_seps)\n            or os.path.isabs(filename)\n            # ntpath.isabs doesn\'t catch this on Python < 3.11\n            or filename.startswith("/")\n            or filename == ".."\n            or filename.startswith("../")\n        ):\n            return None\n', '        first_segment = filename.rpartition("/")[2]\n\n        if (\n            any(sep in filename for sep in _os_alt_seps)\n            or os.path.isabs(filename)\n            or filename.startswith("/")\n            or first_segment == ".."\n        ):\n            return None\n')]},
    {'name': 's1-slot-overwritten-with-prefixed-value', 'expect': 'R14.1', 'edits': [('security.py', '    parts = [directory]\n\n    for filename in pathnames:\n', '    parts = [directory, *pathnames]\n\n    for index, filename in enumerate(pathnames, start=1):\n'), ('security.py', '        parts.append(filename)\n', '        parts[index] = "../" + filename\n')]},
    {'name': 's1-slot-zero-overwritten-by-component', 'expect': 'R14.1', 'edits': [('security.py', '    parts = [directory]\n\n    for filename in pathnames:\n', '    parts = [directory, *pathnames]\n\n    for index, filename in enumerate(pathnames, start=1):\n'), ('security.py', '        parts.append(filename)\n', '        parts[0] = filename\n')]},
    {'name': 's1-generator-helper-yields-the-raw-name', 'expect': 'R14.1', 'edits': [('security.py', 'def safe_join(', 'def _iter_normalized(pathnames):\n    for name in pathnames:\n        if name != "":\n            clean = posixpath.normpath(name)\n\n        yield name\n\n\ndef safe_join('), ('security.py', '    for filename in pathnames:\n        if filename != "":\n            filename = posixpath.normpath(filename)\n\n', '    for filename in _iter_normalized(pathnames):\n')]},
    {'name': 's1-list-helper-drops-last-and-joins-it-raw', 'expect': 'R14.1', 'edits': [('security.py', 'def safe_join(', 'def _normalized(names):\n    return [posixpath.normpath(n) if n else n for n in names[:-1]]\n\n\ndef safe_join('), ('security.py', '    for filename in pathnames:\n        if filename != "":\n            filename = posixpath.normpath(filename)\n\n', '    for filename in _normalized(pathnames):\n'), ('security.py', '    return posixpath.join(*parts)', '    return posixpath.join(*parts, *pathnames[-1:])')]},
    {'name': 's1-appended-slash-prefix-of-three-dots', 'expect': 'R14.1', 'edits': [('security.py', '            or filename == ".."\n            or filename.startswith("../")\n', '            or (filename + "/").startswith(".../")\n')]},
]
