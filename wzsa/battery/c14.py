"""self-validation battery for C14."""
S = "security.py"
U = "utils.py"
M = "middleware/shared_data.py"

_NORM = '        if filename != "":\n            filename = posixpath.normpath(filename)\n\n'
_TEST = (
    "        if (\n"
    "            any(sep in filename for sep in _os_alt_seps)\n"
    "            or os.path.isabs(filename)\n"
    "            # ntpath.isabs doesn't catch this on Python < 3.11\n"
    '            or filename.startswith("/")\n'
    '            or filename == ".."\n'
    '            or filename.startswith("../")\n'
    "        ):\n"
    "            return None\n\n"
)
_SIG = "def safe_join(directory: str, *pathnames: str) -> str | None:"
# a predicate helper in early-return style, negated polarity (True = stays inside)
_INSIDE = (
    "def _stays_inside(name: str) -> bool:\n"
    "    for sep in _os_alt_seps:\n"
    "        if sep in name:\n"
    "            return False\n\n"
    "    if os.path.isabs(name) or name.startswith(\"/\"):\n"
    "        return False\n\n"
    "    return name != \"..\" and not name.startswith(\"../\")\n\n\n"
)
_SUB = 'filename = str(_filename_ascii_strip_re.sub("", "_".join(filename.split()))).strip(\n        "._"\n    )'

MUTANTS = [
    # ---- R14.1
    {"name": "dotdot-tests-before-normpath", "expect": "R14.1", "edits": [(S, _NORM + _TEST, _TEST + _NORM)]},
    {"name": "normalise-into-unused-name", "expect": "R14.1", "edits": [(S, "            filename = posixpath.normpath(filename)\n", "            cleaned = posixpath.normpath(filename)\n")]},
    {"name": "drop-dotdot-equality", "expect": "R14.1", "edits": [(S, '            or filename == ".."\n', "")]},
    {"name": "drop-dotdot-slash-prefix", "expect": "R14.1", "edits": [(S, '            or filename.startswith("../")\n', "")]},
    {"name": "drop-both-absolute-tests", "expect": "R14.1", "edits": [(S, '            or os.path.isabs(filename)\n            # ntpath.isabs doesn\'t catch this on Python < 3.11\n            or filename.startswith("/")\n', "")]},
    {"name": "dotdot-prefix-typo", "expect": "R14.1", "edits": [(S, 'filename.startswith("../")', 'filename.startswith(".../")')]},
    {"name": "loop-skips-first-component", "expect": "R14.1", "edits": [(S, "    for filename in pathnames:", "    for filename in pathnames[1:]:")]},
    {"name": "last-component-joined-unchecked", "expect": "R14.1", "edits": [(S, "    return posixpath.join(*parts)", "    return posixpath.join(*parts, pathnames[-1])")]},
    {"name": "reject-skips-instead-of-refusing", "expect": "R14.1", "edits": [(S, "        ):\n            return None\n\n        parts.append(filename)", "        ):\n            pass\n\n        parts.append(filename)")]},
    {"name": "test-other-variable", "expect": "R14.1", "edits": [(S, '            or filename == ".."\n            or filename.startswith("../")\n', '            or directory == ".."\n            or directory.startswith("../")\n')]},
    {"name": "conditional-normpath-inverted", "expect": "R14.1", "edits": [(S, _NORM, '        filename = posixpath.normpath(filename) if filename == "" else filename\n\n')]},
    {"name": "early-return-helper-forgets-dotdot-slash", "expect": "R14.1", "edits": [
        (S, _TEST, "        if not _stays_inside(filename):\n            return None\n\n"),
        (S, _SIG, _INSIDE.replace(' and not name.startswith("../")', "") + _SIG),
    ]},
    {"name": "early-return-helper-separator-loop-skips", "expect": "R14.1", "edits": [
        (S, _TEST, "        if not _stays_inside(filename):\n            return None\n\n"),
        (S, _SIG, _INSIDE.replace("            return False\n\n    if os.path.isabs", "            break\n\n    if os.path.isabs") + _SIG),
    ]},
    {"name": "flag-computed-before-normpath", "expect": "R14.1", "edits": [(S, _NORM + _TEST, _TEST.replace("        if (\n", "        rejected = (\n").replace("        ):\n            return None\n\n", "        )\n\n") + _NORM + "        if rejected:\n            return None\n\n")]},
    # ---- R14.2
    {"name": "expandvars-after-containment-check", "expect": "R14.2", "edits": [(U, "    return send_file(path_str, environ, **kwargs)\n\n\ndef import_string", "    return send_file(os.path.expandvars(path_str), environ, **kwargs)\n\n\ndef import_string")]},
    {"name": "directory-loader-decodes-after-check", "expect": "R14.2", "edits": [(M, "                return os.path.basename(path), self._opener(path)", '                return os.path.basename(path), self._opener(path.replace("%2e", "."))')]},
    {"name": "package-loader-normalises-after-check", "expect": "R14.2", "edits": [(M, "                resource = reader.open_resource(path)", "                resource = reader.open_resource(posixpath.normpath(path + \"/\"))")]},
    {"name": "directory-loader-plain-join", "expect": "R14.2", "edits": [(M, "                path = safe_join(directory, path)\n\n                if path is None:\n                    return None, None\n", "                path = posixpath.join(directory, path)\n")]},
    {"name": "send-from-directory-serves-raw-join", "expect": "R14.2", "edits": [(U, "    return send_file(path_str, environ, **kwargs)\n\n\ndef import_string", "    return send_file(os.path.join(directory, path), environ, **kwargs)\n\n\ndef import_string")]},
    {"name": "package-loader-opens-request-path", "expect": "R14.2", "edits": [(M, "            path = safe_join(package_path, path)\n\n            if path is None:\n                return None, None\n\n            basename = posixpath.basename(path)", "            checked = safe_join(package_path, path)\n\n            if checked is None:\n                return None, None\n\n            basename = posixpath.basename(path)")]},
    {"name": "safe-join-base-is-request-path", "expect": "R14.2", "edits": [(M, "                path = safe_join(directory, path)", "                path = safe_join(path, directory)")]},
    {"name": "file-loader-opens-lambda-argument", "expect": "R14.2", "edits": [(M, "return lambda x: (os.path.basename(filename), self._opener(filename))", "return lambda x: (os.path.basename(filename), self._opener(x or filename))")]},
    # ---- R14.3
    {"name": "send-from-directory-no-none-check", "expect": "R14.3", "edits": [(U, "    if path_str is None:\n        raise NotFound()\n\n    # Flask will pass", "    # Flask will pass")]},
    {"name": "package-loader-no-none-check", "expect": "R14.3", "edits": [(M, "            path = safe_join(package_path, path)\n\n            if path is None:\n                return None, None\n", "            path = safe_join(package_path, path)\n")]},
    {"name": "none-check-after-use", "expect": "R14.3", "edits": [(M, "                path = safe_join(directory, path)\n\n                if path is None:", "                path = safe_join(directory, path)\n                os.path.getsize(path)\n\n                if path is None:")]},
    {"name": "refusal-is-500", "expect": "R14.3", "edits": [(U, "    if path_str is None:\n        raise NotFound()", "    if path_str is None:\n        raise ValueError(path)")]},
    {"name": "call-opener-without-none-guard", "expect": "R14.3", "edits": [(M, "        if file_loader is None or not self.is_allowed(real_filename):  # type: ignore", "        if not self.is_allowed(real_filename):  # type: ignore")]},
    # ---- R14.4
    {"name": "kept-class-gains-slash", "expect": "R14.4", "edits": [(U, '_filename_ascii_strip_re = re.compile(r"[^A-Za-z0-9_.-]")', '_filename_ascii_strip_re = re.compile(r"[^A-Za-z0-9_./-]")')]},
    {"name": "kept-class-range-typo-admits-non-ascii", "expect": "R14.4", "edits": [(U, '_filename_ascii_strip_re = re.compile(r"[^A-Za-z0-9_.-]")', '_filename_ascii_strip_re = re.compile(r"[^A-\\u017f0-9_.-]")')]},
    {"name": "strip-only-underscore", "expect": "R14.4", "edits": [(U, _SUB, 'filename = str(_filename_ascii_strip_re.sub("", "_".join(filename.split()))).strip(\n        "_"\n    )')]},
    {"name": "strip-before-filter-inline", "expect": "R14.4", "edits": [(U, _SUB, 'filename = str(_filename_ascii_strip_re.sub("", "_".join(filename.split()).strip("._")))')]},
    {"name": "filter-dropped", "expect": "R14.4", "edits": [(U, _SUB, 'filename = "_".join(filename.split()).strip("._")')]},
    {"name": "only-trailing-strip", "expect": "R14.4", "edits": [(U, _SUB, 'filename = str(_filename_ascii_strip_re.sub("", "_".join(filename.split()))).rstrip(\n        "._"\n    )')]},
]

TWINS = [
    {"name": "safe-join-renamed-local-and-flipped-branch", "edits": [(S, _NORM + _TEST + "        parts.append(filename)\n", (_NORM + _TEST).replace("filename", "part").replace("        if (\n", "        if not (\n").replace("            return None\n\n", "            parts.append(part)\n        else:\n            return None\n")), (S, "    for filename in pathnames:", "    for part in pathnames:")]},
    {"name": "safe-join-stricter-dotdot-prefix", "edits": [(S, '            or filename == ".."\n            or filename.startswith("../")\n', '            or filename.startswith("..")\n')]},
    {"name": "safe-join-absolute-test-before-normpath", "edits": [(S, _NORM, '        if filename.startswith("/"):\n            return None\n\n' + _NORM)]},
    {"name": "safe-join-reject-helper-extracted", "edits": [
        (S, _TEST, "        if _unsafe_component(filename):\n            return None\n\n"),
        (S, "def safe_join(directory: str, *pathnames: str) -> str | None:", 'def _unsafe_component(name: str) -> bool:\n    return (\n        any(sep in name for sep in _os_alt_seps)\n        or os.path.isabs(name)\n        or name.startswith("/")\n        or name == ".."\n        or name.startswith("../")\n    )\n\n\ndef safe_join(directory: str, *pathnames: str) -> str | None:'),
    ]},
    {"name": "safe-join-early-return-helper-negated-and-conditional-normpath", "edits": [
        (S, _NORM + _TEST, "        filename = filename and posixpath.normpath(filename)\n\n        if not _stays_inside(filename):\n            return None\n\n"),
        (S, _SIG, _INSIDE + _SIG),
    ]},
    {"name": "safe-join-conditional-expression-normpath", "edits": [(S, _NORM, '        filename = filename if filename == "" else posixpath.normpath(filename)\n\n')]},
    {"name": "safe-join-flag-variable", "edits": [(S, _TEST, _TEST.replace("        if (\n", "        rejected = (\n").replace("        ):\n            return None\n\n", "        )\n\n        if rejected:\n            return None\n\n"))]},
    {"name": "send-from-directory-root-path-selection", "edits": [(U, '    if "_root_path" in kwargs:\n        path_str = os.path.join(kwargs["_root_path"], path_str)\n', '    served = os.path.join(kwargs["_root_path"], path_str) if "_root_path" in kwargs else path_str\n    path_str = os.fspath(served)\n')]},
    {"name": "safe-join-normalised-into-new-name", "edits": [(S, _NORM + _TEST + "        parts.append(filename)\n", (_NORM + _TEST + "        parts.append(cleaned)\n").replace("filename = posixpath.normpath(filename)", "cleaned = posixpath.normpath(filename)").replace('        if filename != "":', '        cleaned = filename\n\n        if filename != "":').replace("in filename for", "in cleaned for").replace("isabs(filename)", "isabs(cleaned)").replace("or filename.", "or cleaned.").replace("or filename ==", "or cleaned =="))]},
    {"name": "directory-loader-early-return-style", "edits": [(M, "            if path is not None:\n                path = safe_join(directory, path)\n\n                if path is None:\n                    return None, None\n            else:\n                path = directory\n", "            if path is None:\n                path = directory\n            else:\n                path = safe_join(directory, path)\n\n            if path is None:\n                return None, None\n")]},
    {"name": "send-from-directory-not-none-style", "edits": [(U, "    if path_str is None:\n        raise NotFound()\n\n    # Flask will pass", "    if path_str is not None:\n        pass\n    else:\n        raise NotFound()\n\n    # Flask will pass")]},
    {"name": "secure-filename-split-into-statements", "edits": [(U, _SUB, 'filename = "_".join(filename.split())\n    cleaned = _filename_ascii_strip_re.sub("", filename)\n    filename = cleaned.strip("._")')]},
    {"name": "secure-filename-helper-extracted", "edits": [
        (U, _SUB, "filename = _strip_unsafe(filename)"),
        (U, "def secure_filename(filename: str) -> str:", 'def _strip_unsafe(name: str) -> str:\n    name = "_".join(name.split())\n    return _filename_ascii_strip_re.sub("", name).strip("._")\n\n\ndef secure_filename(filename: str) -> str:'),
    ]},
    {"name": "secure-filename-strip-set-reordered", "edits": [(U, _SUB, 'filename = str(_filename_ascii_strip_re.sub("", "_".join(filename.split()))).strip(\n        "_."\n    )')]},
]
