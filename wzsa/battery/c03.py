"""self-validation battery for C03."""
M = "routing/matcher.py"
R = "routing/rules.py"
C = "routing/converters.py"
P = "routing/map.py"

_STATIC_BLOCK = (
    "            if part in state.static:\n"
    "                rv = _match(state.static[part], parts[1:], values)\n"
    "                if rv is not None:\n"
    "                    return rv\n"
)
_FALLBACK_COMMENT = "            # If there is no match and the only part left is a\n"
_LOOP1 = (
    "                for rule in state.rules:\n"
    "                    if rule.methods is not None and method not in rule.methods:\n"
    "                        have_match_for.update(rule.methods)\n"
    "                    elif rule.websocket != websocket:\n"
    "                        websocket_mismatch = True\n"
    "                    else:\n"
    "                        return rule, values\n"
    "\n"
    "                # Test if there is a match with this path with a\n"
)
_LOOP2 = (
    "                    if rule.strict_slashes:\n"
    "                        continue\n"
    "                    if rule.methods is not None and method not in rule.methods:\n"
    "                        have_match_for.update(rule.methods)\n"
    "                    elif rule.websocket != websocket:\n"
    "                        websocket_mismatch = True\n"
    "                    else:\n"
    "                        return rule, values\n"
)
_HANDLER = (
    "            if e.have_match_for:\n"
    "                raise MethodNotAllowed(valid_methods=list(e.have_match_for)) from None\n"
    "\n"
    "            if e.websocket_mismatch:\n"
    "                raise WebsocketMismatch() from None\n"
    "\n"
    "            raise NotFound() from None\n"
)

_HELPER = (
    "        def _first_usable(rules: list[Rule]) -> Rule | None:\n"
    "            nonlocal have_match_for, websocket_mismatch\n"
    "            for rule in rules:\n"
    "                if rule.methods is not None and method not in rule.methods:\n"
    "                    have_match_for.update(rule.methods)\n"
    "                elif rule.websocket != websocket:\n"
    "                    websocket_mismatch = True\n"
    "                else:\n"
    "                    return rule\n"
    "            return None\n"
    "\n"
    "        def _match(\n"
)
_HELPER_CALL = (
    "                hit = _first_usable(state.rules)\n"
    "                if hit is not None:\n"
    "                    return hit, values\n"
    "\n"
    "                # Test if there is a match with this path with a\n"
)

# the slash-fallback loop of the base case, as written today ...
_SLASH_LOOP = (
    "                if \"\" in state.static:\n"
    "                    for rule in state.static[\"\"].rules:\n"
    "                        if websocket == rule.websocket and (\n"
    "                            rule.methods is None or method in rule.methods\n"
    "                        ):\n"
    "                            if rule.strict_slashes:\n"
    "                                raise SlashRequired()\n"
    "                            else:\n"
    "                                return rule, values\n"
    "                        elif (\n"
    "                            not rule.strict_slashes\n"
    "                            and rule.methods is not None\n"
    "                            and method not in rule.methods\n"
    "                        ):\n"
    "                            have_match_for.update(rule.methods)\n"
    "                return None\n"
)
# ... and restructured: dict.get + early return, the method test in a local flag, the methods in a local alias
_SLASH_LOOP_FLAG = (
    "                slash_state = state.static.get(\"\")\n"
    "                if slash_state is None:\n"
    "                    return None\n"
    "                for rule in slash_state.rules:\n"
    "                    allowed = rule.methods\n"
    "                    method_ok = allowed is None or method in allowed\n"
    "                    if websocket == rule.websocket and method_ok:\n"
    "                        if rule.strict_slashes:\n"
    "                            raise SlashRequired()\n"
    "                        return rule, values\n"
    "                    if not rule.strict_slashes and not method_ok:\n"
    "                        have_match_for.update(allowed)\n"
    "                return None\n"
)
_W_INNER = (
    "                    weight = Weighting(\n"
    "                        -len(static_weights),\n"
    "                        static_weights,\n"
    "                        -len(argument_weights),\n"
    "                        argument_weights,\n"
    "                    )\n"
)
_W_OUTER = (
    "        weight = Weighting(\n"
    "            -len(static_weights),\n"
    "            static_weights,\n"
    "            -len(argument_weights),\n"
    "            argument_weights,\n"
    "        )\n"
)
_W_HELPER_AT = "def _pythonize(value: str) -> None | bool | int | float | str:\n"
_W_HELPER = (
    "def _part_weighting(literals: list[tuple[int, int]], converters: list[int]) -> Weighting:\n"
    "    return Weighting(-len(literals), literals, -len(converters), converters)\n"
    "\n"
    "\n" + _W_HELPER_AT
)
_W_HELPER_EDITS = [
    (R, _W_INNER, "                    weight = _part_weighting(static_weights, argument_weights)\n"),
    (R, _W_OUTER, "        weight = _part_weighting(static_weights, argument_weights)\n"),
]
_MERGE_GATE = "        if self.merge_slashes and rv is None:\n"
_MERGE_STMT = "            path = re.sub(\"/{2,}?\", \"/\", path)\n"
_FIRST_TRY = "        try:\n            rv = _match(self._root, [domain, *path.split(\"/\")], [])\n        except SlashRequired:\n            raise RequestPath(f\"{path}/\") from None\n\n        if self.merge_slashes"

MUTANTS = [
    # ---- R3.1 priority order
    {"name": "dynamic-tried-before-static", "expect": "R3.1", "edits": [
        (M, _STATIC_BLOCK, ""),
        (M, _FALLBACK_COMMENT, _STATIC_BLOCK + _FALLBACK_COMMENT),
    ]},
    {"name": "static-result-ignored-until-after-dynamic", "expect": "R3.1", "edits": [
        (M, "                rv = _match(state.static[part], parts[1:], values)\n                if rv is not None:\n                    return rv\n",
            "                static_rv = _match(state.static[part], parts[1:], values)\n"),
        (M, _FALLBACK_COMMENT, "            if part in state.static and static_rv is not None:\n                return static_rv\n" + _FALLBACK_COMMENT),
    ]},
    {"name": "number-weight-150", "expect": "R3.1", "edits": [(C, "    weight = 50\n", "    weight = 150\n")]},
    {"name": "path-weight-equals-default", "expect": "R3.1", "edits": [(C, "    weight = 200\n", "    weight = 100\n")]},
    {"name": "sort-descending", "expect": "R3.1", "edits": [(M, "state.dynamic.sort(key=lambda entry: entry[0].weight)", "state.dynamic.sort(key=lambda entry: entry[0].weight, reverse=True)")]},
    {"name": "sort-by-content", "expect": "R3.1", "edits": [(M, "state.dynamic.sort(key=lambda entry: entry[0].weight)", "state.dynamic.sort(key=lambda entry: entry[0].content)")]},
    {"name": "sort-skips-dynamic-successors", "expect": "R3.1", "edits": [(M, "            for _, new_state in state.dynamic:\n                _update_state(new_state)\n", "")]},
    {"name": "map-add-forgets-remap", "expect": "R3.1", "edits": [(P, "            self._rules_by_endpoint.setdefault(rule.endpoint, []).append(rule)\n        self._remap = True\n", "            self._rules_by_endpoint.setdefault(rule.endpoint, []).append(rule)\n")]},
    {"name": "adapter-match-forgets-map-update", "expect": "R3.1", "edits": [(P, "        self.map.update()\n        if path_info is None:\n            path_info = self.path_info\n        if query_args is None:", "        if path_info is None:\n            path_info = self.path_info\n        if query_args is None:")]},
    {"name": "map-update-sorts-endpoints-only", "expect": "R3.1", "edits": [(P, "            self._matcher.update()\n            for rules in", "            for rules in")]},
    {"name": "literal-count-positive", "expect": "R3.1", "edits": [(R, "                    weight = Weighting(\n                        -len(static_weights),", "                    weight = Weighting(\n                        len(static_weights),")]},
    {"name": "argument-weight-constant", "expect": "R3.1", "edits": [(R, "                argument_weights.append(convobj.weight)\n", "                argument_weights.append(100)\n")]},
    {"name": "instance-weight-override", "expect": "R3.1", "edits": [(C, "        self.fixed_digits = fixed_digits\n", "        self.fixed_digits = fixed_digits\n        self.weight = 100 + fixed_digits\n")]},
    # ---- R3.2 405 bookkeeping
    {"name": "fallback-loop-forgets-methods", "expect": "R3.2", "edits": [(M, _LOOP2, _LOOP2.replace("                        have_match_for.update(rule.methods)\n", "                        pass\n"))]},
    {"name": "base-loop-flags-websocket-for-methods", "expect": "R3.2", "edits": [(M, _LOOP1, _LOOP1.replace("                        have_match_for.update(rule.methods)\n", "                        websocket_mismatch = True\n"))]},
    {"name": "strictness-checked-after-recording", "expect": "R3.2", "edits": [(M, _LOOP2,
        "                    if rule.methods is not None and method not in rule.methods:\n"
        "                        have_match_for.update(rule.methods)\n"
        "                        continue\n"
        "                    if rule.strict_slashes:\n"
        "                        continue\n"
        "                    if rule.websocket != websocket:\n"
        "                        websocket_mismatch = True\n"
        "                    else:\n"
        "                        return rule, values\n")]},
    {"name": "base-loop-records-only-when-websocket-matches", "expect": "R3.2", "edits": [(M, _LOOP1, _LOOP1.replace(
        "                    if rule.methods is not None and method not in rule.methods:\n                        have_match_for.update(rule.methods)\n",
        "                    if rule.methods is not None and method not in rule.methods:\n                        if rule.websocket == websocket:\n                            have_match_for.update(rule.methods)\n"))]},
    {"name": "extracted-helper-forgets-methods", "expect": "R3.2", "edits": [(M, _LOOP1, _HELPER_CALL), (M, "        def _match(\n", _HELPER.replace("                    have_match_for.update(rule.methods)\n", "                    pass\n"))]},
    # ---- R3.3 NoMatch -> exception
    {"name": "method-not-allowed-without-methods", "expect": "R3.3", "edits": [(P, "raise MethodNotAllowed(valid_methods=list(e.have_match_for)) from None", "raise MethodNotAllowed() from None")]},
    {"name": "405-only-without-websocket-mismatch", "expect": "R3.3", "edits": [(P, "            if e.have_match_for:\n", "            if e.have_match_for and not e.websocket_mismatch:\n")]},
    {"name": "405-test-inverted", "expect": "R3.3", "edits": [(P, "            if e.have_match_for:\n", "            if not e.have_match_for:\n")]},
    {"name": "final-nomatch-with-fresh-set", "expect": "R3.3", "edits": [(M, "\n        raise NoMatch(have_match_for, websocket_mismatch)\n", "\n        raise NoMatch(set(), websocket_mismatch)\n")]},
    {"name": "have-match-for-reset-before-retry", "expect": "R3.3", "edits": [(M, "            path = re.sub(\"/{2,}?\", \"/\", path)\n", "            path = re.sub(\"/{2,}?\", \"/\", path)\n            have_match_for.clear()\n")]},
    # ---- R3.4 converter rejection
    {"name": "uuid-converter-rejects-late", "expect": "R3.4", "edits": [(C, "    def to_python(self, value: str) -> uuid.UUID:\n        return uuid.UUID(value)\n", "    def to_python(self, value: str) -> uuid.UUID:\n        rv = uuid.UUID(value)\n        if rv.version is None:\n            raise ValidationError()\n        return rv\n")]},
    {"name": "string-converter-rejects-late", "expect": "R3.4", "edits": [(C, "        self.regex = f\"[^/]{length_regex}\"\n", "        self.regex = f\"[^/]{length_regex}\"\n\n    def to_python(self, value: str) -> str:\n        if value.isspace():\n            raise ValidationError()\n        return value\n")]},
    # ---- R3.5 frozen weights
    {"name": "static-weights-cleared-in-place", "expect": "R3.5", "edits": [(R, "                    argument_weights = []\n                    static_weights = []\n", "                    argument_weights = []\n                    static_weights.clear()\n")]},
    {"name": "argument-weights-reset-forgotten", "expect": "R3.5", "edits": [(R, "                    argument_weights = []\n                    static_weights = []\n", "                    static_weights = []\n")]},
    {"name": "one-fresh-list-for-both-weight-lists", "expect": "R3.5", "edits": [(R, "                    argument_weights = []\n                    static_weights = []\n", "                    argument_weights = static_weights = []\n")]},
    {"name": "argument-weights-del-slice", "expect": "R3.5", "edits": [(R, "                    argument_weights = []\n                    static_weights = []\n", "                    del argument_weights[:]\n                    static_weights = []\n")]},
    # ---- restructured code (flag / alias / helper) with a defect in it
    {"name": "flag-style-fallback-records-strict-rules", "expect": "R3.2", "edits": [(M, _SLASH_LOOP, _SLASH_LOOP_FLAG.replace("if not rule.strict_slashes and not method_ok:", "if not method_ok:"))]},
    {"name": "flag-style-fallback-flag-ignores-unrestricted-rules", "expect": "R3.2", "edits": [(M, _SLASH_LOOP, _SLASH_LOOP_FLAG.replace("method_ok = allowed is None or method in allowed", "method_ok = allowed is not None and method in allowed"))]},
    {"name": "weighting-helper-stores-literal-list-twice", "expect": "R3.1", "edits": [*_W_HELPER_EDITS, (R, _W_HELPER_AT, _W_HELPER.replace("-len(converters), converters)", "-len(converters), literals)"))]},
    {"name": "weighting-helper-and-reset-forgotten", "expect": "R3.5", "edits": [*_W_HELPER_EDITS, (R, _W_HELPER_AT, _W_HELPER), (R, "                    argument_weights = []\n                    static_weights = []\n", "                    static_weights = []\n")]},
    # ---- R3.6
    {"name": "retry-not-gated-on-map-flag", "expect": "R3.6", "edits": [(M, _MERGE_GATE, "        if rv is None:\n")]},
    {"name": "retry-gate-inverted", "expect": "R3.6", "edits": [(M, _MERGE_GATE, "        if not self.merge_slashes and rv is None:\n")]},
    {"name": "slashes-merged-before-first-attempt", "expect": "R3.6", "edits": [(M, _FIRST_TRY, "        path = re.sub(\"/{2,}?\", \"/\", path)\n" + _FIRST_TRY), (M, _MERGE_STMT, "")]},
    {"name": "merged-path-bound-early-retry-ungated", "expect": "R3.6", "edits": [(M, _MERGE_GATE, "        merged = re.sub(\"/{2,}?\", \"/\", path)\n        if rv is None and merged != path:\n"), (M, _MERGE_STMT, "            path = merged\n")]},
]

TWINS = [
    {"name": "base-loop-extracted-into-helper", "edits": [(M, _LOOP1, _HELPER_CALL), (M, "        def _match(\n", _HELPER)]},
    {"name": "static-attempt-walrus", "edits": [(M, "                rv = _match(state.static[part], parts[1:], values)\n                if rv is not None:\n                    return rv\n", "                if (rv := _match(state.static[part], parts[1:], values)) is not None:\n                    return rv\n")]},
    {"name": "methods-recorded-with-ior", "edits": [(M, _LOOP1, _LOOP1.replace("have_match_for.update(rule.methods)", "have_match_for |= rule.methods"))]},
    {"name": "static-attempt-renamed-and-flipped", "edits": [(M, _STATIC_BLOCK,
        "            if part in state.static:\n"
        "                found = _match(state.static[part], parts[1:], values)\n"
        "                if found is None:\n"
        "                    pass\n"
        "                else:\n"
        "                    return found\n")]},
    {"name": "base-loop-early-continue-style", "edits": [(M, _LOOP1,
        "                for candidate in state.rules:\n"
        "                    if candidate.methods is not None and method not in candidate.methods:\n"
        "                        have_match_for.update(candidate.methods)\n"
        "                        continue\n"
        "                    if websocket != candidate.websocket:\n"
        "                        websocket_mismatch = True\n"
        "                        continue\n"
        "                    return candidate, values\n"
        "\n"
        "                # Test if there is a match with this path with a\n")]},
    {"name": "fallback-loop-nested-instead-of-continue", "edits": [(M, _LOOP2,
        "                    if not rule.strict_slashes:\n"
        "                        if rule.methods is None or method in rule.methods:\n"
        "                            if rule.websocket == websocket:\n"
        "                                return rule, values\n"
        "                            websocket_mismatch = True\n"
        "                        else:\n"
        "                            have_match_for.update(rule.methods)\n")]},
    {"name": "weights-rescaled-order-kept", "edits": [(C, "    weight = 50\n", "    weight = 10\n"), (C, "    weight = 200\n", "    weight = 1000\n")]},
    {"name": "fresh-lists-via-list-call-and-reordered", "edits": [(R, "                    argument_weights = []\n                    static_weights = []\n", "                    static_weights = list()\n                    argument_weights = list()\n")]},
    {"name": "sorted-assigned-back", "edits": [(M, "            state.dynamic.sort(key=lambda entry: entry[0].weight)\n", "            state.dynamic = sorted(state.dynamic, key=lambda pair: pair[0].weight)\n")]},
    {"name": "handler-notfound-first", "edits": [(P, _HANDLER,
        "            if len(e.have_match_for) == 0:\n"
        "                if e.websocket_mismatch:\n"
        "                    raise WebsocketMismatch() from None\n"
        "                raise NotFound() from None\n"
        "\n"
        "            raise MethodNotAllowed(valid_methods=list(e.have_match_for)) from None\n")]},
    {"name": "wider-except-around-to-python", "edits": [(M, "                except ValidationError:\n", "                except ValueError:\n")]},
    {"name": "map-update-single-guard", "edits": [(P, "        if not self._remap:\n            return\n\n        with self._remap_lock:\n            if not self._remap:\n                return\n\n            self._matcher.update()", "        with self._remap_lock:\n            if self._remap is False:\n                return\n\n            self._matcher.update()")]},
    {"name": "weighting-by-keyword", "edits": [(R, "        weight = Weighting(\n            -len(static_weights),\n            static_weights,\n            -len(argument_weights),\n            argument_weights,\n        )", "        weight = Weighting(\n            argument_weights=argument_weights,\n            number_argument_weights=-len(argument_weights),\n            static_weights=static_weights,\n            number_static_weights=-len(static_weights),\n        )")]},
    # ---- restructurings found by independent neutral refactorings
    {"name": "fallback-loop-flag-alias-early-return", "edits": [(M, _SLASH_LOOP, _SLASH_LOOP_FLAG)]},
    {"name": "weighting-built-by-module-helper", "edits": [*_W_HELPER_EDITS, (R, _W_HELPER_AT, _W_HELPER)]},
    {"name": "weighting-built-by-closure", "edits": [
        (R, _W_INNER, "                    weight = _weigh()\n"), (R, _W_OUTER, "        weight = _weigh()\n"),
        (R, "        pos = 0\n        while pos < len(rule):\n", "        def _weigh() -> Weighting:\n            return Weighting(-len(static_weights), static_weights, -len(argument_weights), argument_weights)\n\n        pos = 0\n        while pos < len(rule):\n")]},
    {"name": "merged-path-computed-above-the-gate", "edits": [(M, _MERGE_GATE, "        merged = re.sub(\"/{2,}?\", \"/\", path)\n" + _MERGE_GATE), (M, _MERGE_STMT, "            path = merged\n")]},
    {"name": "merge-gate-as-early-exit-with-alias", "edits": [(M, _MERGE_GATE + "            # Try to match again, but with slashes merged\n", "        if rv is None:\n            merge = self.merge_slashes\n            if merge is False:\n                raise NoMatch(have_match_for, websocket_mismatch)\n"), (M, "        elif rv is not None:\n            rule, values = rv\n", "        else:\n            rule, values = rv\n")]},
    {"name": "precompiled-merge-pattern", "edits": [(M, _MERGE_STMT, "            path = re.compile(\"/{2,}\").sub(\"/\", path)\n")]},
    {"name": "static-attempt-through-dict-get", "edits": [(M, _STATIC_BLOCK,
        "            static_next = state.static.get(part)\n"
        "            if static_next is not None:\n"
        "                rv = _match(static_next, parts[1:], values)\n"
        "                if rv is not None:\n"
        "                    return rv\n")]},
    {"name": "argument-weight-through-local-and-augassign", "edits": [(R, "                argument_weights.append(convobj.weight)\n", "                conv_weight = convobj.weight\n                argument_weights += [conv_weight]\n")]},
]


# ======================================================================
# round 2: shapes found by probing every rule with independent neutral variants (and a defect in each new shape)

_H_SELECT = (
    "            allowed = e.have_match_for\n"
    "            failure: HTTPException = NotFound()\n"
    "            if allowed:\n"
    "                failure = MethodNotAllowed(valid_methods=list(allowed))\n"
    "            elif e.websocket_mismatch:\n"
    "                failure = WebsocketMismatch()\n"
    "            raise failure from None\n"
)
_H_IFEXP = (
    "            raise (\n"
    "                MethodNotAllowed(valid_methods=list(e.have_match_for))\n"
    "                if e.have_match_for\n"
    "                else WebsocketMismatch() if e.websocket_mismatch else NotFound()\n"
    "            ) from None\n"
)
_TEST_AT = "    def test(self, path_info: str | None = None, method: str | None = None) -> bool:\n"
_H_METHOD = (
    "    @staticmethod\n"
    "    def _http_error_for(failure: NoMatch) -> HTTPException:\n"
    "        if len(failure.have_match_for) > 0:\n"
    "            return MethodNotAllowed(valid_methods=list(failure.have_match_for))\n"
    "        if failure.websocket_mismatch:\n"
    "            return WebsocketMismatch()\n"
    "        return NotFound()\n"
    "\n" + _TEST_AT
)
_H_METHOD_CALL = "            raise self._http_error_for(e) from None\n"
_H_RAISER = (
    "    def _refuse(self, methods: set[str], websocket_mismatch: bool) -> t.NoReturn:\n"
    "        if not methods:\n"
    "            if websocket_mismatch:\n"
    "                raise WebsocketMismatch() from None\n"
    "            raise NotFound() from None\n"
    "        raise MethodNotAllowed(valid_methods=list(methods)) from None\n"
    "\n" + _TEST_AT
)
_H_RAISER_CALL = "            self._refuse(e.have_match_for, e.websocket_mismatch)\n"
_H_LISTFIRST = (
    "            methods = list(e.have_match_for)\n"
    "            if methods:\n"
    "                raise MethodNotAllowed(valid_methods=methods) from None\n"
    "            raise (WebsocketMismatch() if e.websocket_mismatch else NotFound()) from None\n"
)
_UPDATE_BODY = (
    "        def _update_state(state: State) -> None:\n"
    "            state.dynamic.sort(key=lambda entry: entry[0].weight)\n"
    "            for new_state in state.static.values():\n"
    "                _update_state(new_state)\n"
    "            for _, new_state in state.dynamic:\n"
    "                _update_state(new_state)\n"
    "\n"
    "        _update_state(state)\n"
)
_MAP_UPDATE_TAIL = (
    "            self._matcher.update()\n"
    "            for rules in self._rules_by_endpoint.values():\n"
    "                rules.sort(key=lambda x: x.build_compare_key())\n"
    "            self._remap = False\n"
)
_USABLE = (
    "        def _usable(rule: Rule) -> bool:\n"
    "            nonlocal websocket_mismatch\n"
    "            if rule.methods is not None and method not in rule.methods:\n"
    "                have_match_for.update(rule.methods)\n"
    "                return False\n"
    "            if rule.websocket != websocket:\n"
    "                websocket_mismatch = True\n"
    "                return False\n"
    "            return True\n"
    "\n"
    "        def _match(\n"
)
_LOOP1_USABLE = (
    "                for rule in state.rules:\n"
    "                    if _usable(rule):\n"
    "                        return rule, values\n"
    "\n"
    "                # Test if there is a match with this path with a\n"
)
_LOOP2_USABLE = (
    "                    if not rule.strict_slashes and _usable(rule):\n"
    "                        return rule, values\n"
)
_LOOP2_USABLE_FLAG = (
    "                    if rule.strict_slashes:\n"
    "                        continue\n"
    "                    ok = _usable(rule)\n"
    "                    if ok:\n"
    "                        return rule, values\n"
)
_LOOP1_BREAK = (
    "                found = None\n"
    "                for rule in state.rules:\n"
    "                    if rule.methods is not None and method not in rule.methods:\n"
    "                        have_match_for.update(rule.methods)\n"
    "                    elif rule.websocket != websocket:\n"
    "                        websocket_mismatch = True\n"
    "                    else:\n"
    "                        found = rule\n"
    "                        break\n"
    "                if found is not None:\n"
    "                    return found, values\n"
    "\n"
    "                # Test if there is a match with this path with a\n"
)
_RESET = "                    argument_weights = []\n                    static_weights = []\n"
_NOMATCH_FINAL = "\n        raise NoMatch(have_match_for, websocket_mismatch)\n"
_CONVERT_LOOP = (
    "            result = {}\n"
    "            for name, value in zip(rule._converters.keys(), values):\n"
    "                try:\n"
    "                    value = rule._converters[name].to_python(value)\n"
    "                except ValidationError:\n"
    "                    raise NoMatch(have_match_for, websocket_mismatch) from None\n"
    "                result[str(name)] = value\n"
)
_DYN_HEAD = "            for test_part, new_state in state.dynamic:\n                target = part\n"
_DYN_BODY = (
    "                match = re.compile(test_part.content).match(target)\n"
    "                if match is not None:\n"
    "                    if test_part.suffixed:\n"
    "                        # If a part_isolating=False part has a slash suffix, remove the\n"
    "                        # suffix from the match and check for the slash redirect next.\n"
    "                        suffix = match.groups()[-1]\n"
    "                        if suffix == \"/\":\n"
    "                            remaining = [\"\"]\n"
    "\n"
    "                    converter_groups = sorted(\n"
    "                        match.groupdict().items(), key=lambda entry: entry[0]\n"
    "                    )\n"
    "                    groups = [\n"
    "                        value\n"
    "                        for key, value in converter_groups\n"
    "                        if key[:11] == \"__werkzeug_\"\n"
    "                    ]\n"
    "                    rv = _match(new_state, remaining, values + groups)\n"
    "                    if rv is not None:\n"
    "                        return rv\n"
)
_DYN_HELPER = (
    "        def _follow(\n"
    "            test_part: RulePart, new_state: State, target: str, remaining: list[str], values: list[str]\n"
    "        ) -> tuple[Rule, list[str]] | None:\n"
    "            match = re.compile(test_part.content).match(target)\n"
    "            if match is None:\n"
    "                return None\n"
    "            if test_part.suffixed and match.groups()[-1] == \"/\":\n"
    "                remaining = [\"\"]\n"
    "            converter_groups = sorted(match.groupdict().items(), key=lambda entry: entry[0])\n"
    "            groups = [value for key, value in converter_groups if key[:11] == \"__werkzeug_\"]\n"
    "            return _match(new_state, remaining, values + groups)\n"
    "\n"
    "        try:\n            rv = _match(self._root, [domain, *path.split(\"/\")], [])\n        except SlashRequired:\n            raise RequestPath(f\"{path}/\") from None\n\n        if self.merge_slashes"
)
_CLASS_AT = "class StateMachineMatcher:\n"
_METHOD_OK = (
    "def _method_allowed(rule: Rule, method: str) -> bool:\n"
    "    return rule.methods is None or method in rule.methods\n"
    "\n\n" + _CLASS_AT
)
_PART_INNER = (
    "                    weight = Weighting(\n"
    "                        -len(static_weights),\n"
    "                        static_weights,\n"
    "                        -len(argument_weights),\n"
    "                        argument_weights,\n"
    "                    )\n"
    "                    yield RulePart(\n"
    "                        content=content,\n"
    "                        final=final,\n"
    "                        static=static,\n"
    "                        suffixed=False,\n"
    "                        weight=weight,\n"
    "                    )\n"
)
_AT = "def _pythonize(value: str) -> None | bool | int | float | str:\n"
_BUILDER = (
    "def _build_part(\n"
    "    content: str, final: bool, static: bool, literals: list[tuple[int, int]], converters: list[int]\n"
    ") -> RulePart:\n"
    "    weight = Weighting(-len(literals), literals, -len(converters), converters)\n"
    "    return RulePart(content=content, final=final, static=static, suffixed=False, weight=weight)\n"
    "\n\n" + _AT
)
_TAIL = "            if return_rule:\n                return rule, rv\n            else:\n                return rule.endpoint, rv\n"
_DEFERRED = (
    "\n"
    "        if failure.have_match_for:\n"
    "            raise MethodNotAllowed(valid_methods=list(failure.have_match_for)) from None\n"
    "        if failure.websocket_mismatch:\n"
    "            raise WebsocketMismatch() from None\n"
    "        raise NotFound() from None\n"
)

MUTANTS += [
    {"name": "select-websocket-tested-first", "expect": "R3.3", "edits": [(P, _HANDLER, _H_SELECT.replace(
        "            if allowed:\n                failure = MethodNotAllowed(valid_methods=list(allowed))\n            elif e.websocket_mismatch:\n                failure = WebsocketMismatch()\n",
        "            if e.websocket_mismatch:\n                failure = WebsocketMismatch()\n            elif allowed:\n                failure = MethodNotAllowed(valid_methods=list(allowed))\n"))]},
    {"name": "select-405-overridden-afterwards", "expect": "R3.3", "edits": [(P, _HANDLER, _H_SELECT.replace("            elif e.websocket_mismatch:\n", "            if e.websocket_mismatch:\n"))]},
    {"name": "select-405-without-methods", "expect": "R3.3", "edits": [(P, _HANDLER, _H_SELECT.replace("MethodNotAllowed(valid_methods=list(allowed))", "MethodNotAllowed()"))]},
    {"name": "select-default-is-405", "expect": "R3.3", "edits": [(P, _HANDLER, _H_SELECT.replace("failure: HTTPException = NotFound()", "failure: HTTPException = MethodNotAllowed(valid_methods=list(allowed))").replace(
        "            if allowed:\n                failure = MethodNotAllowed(valid_methods=list(allowed))\n            elif e.websocket_mismatch:\n", "            if not allowed and e.websocket_mismatch:\n"))]},
    {"name": "ifexp-arms-swapped", "expect": "R3.3", "edits": [(P, _HANDLER, _H_IFEXP.replace("                if e.have_match_for\n", "                if not e.have_match_for\n"))]},
    {"name": "staticmethod-tests-websocket-first", "expect": "R3.3", "edits": [(P, _HANDLER, _H_METHOD_CALL), (P, _TEST_AT, _H_METHOD.replace(
        "        if len(failure.have_match_for) > 0:\n            return MethodNotAllowed(valid_methods=list(failure.have_match_for))\n        if failure.websocket_mismatch:\n            return WebsocketMismatch()\n",
        "        if failure.websocket_mismatch:\n            return WebsocketMismatch()\n        if len(failure.have_match_for) > 0:\n            return MethodNotAllowed(valid_methods=list(failure.have_match_for))\n"))]},
    {"name": "noreturn-method-gets-wrong-set", "expect": "R3.3", "edits": [(P, _HANDLER, _H_RAISER_CALL.replace("e.have_match_for, e.websocket_mismatch", "set(), e.websocket_mismatch")), (P, _TEST_AT, _H_RAISER)]},
    {"name": "list-first-405-sliced", "expect": "R3.3", "edits": [(P, _HANDLER, _H_LISTFIRST.replace("valid_methods=methods", "valid_methods=methods[:1]"))]},
    {"name": "map-update-sort-helper-skips-matcher", "expect": "R3.1", "edits": [
        (P, _MAP_UPDATE_TAIL, "            self._sort_rules()\n            self._remap = False\n"),
        (P, "    def __repr__(self) -> str:\n        rules = self.iter_rules()\n", "    def _sort_rules(self) -> None:\n        for rules in self._rules_by_endpoint.values():\n            rules.sort(key=lambda x: x.build_compare_key())\n\n    def __repr__(self) -> str:\n        rules = self.iter_rules()\n"),
    ]},
    {"name": "sort-key-named-function-by-content", "expect": "R3.1", "edits": [(M, _UPDATE_BODY, _UPDATE_BODY.replace(
        "        def _update_state(state: State) -> None:\n            state.dynamic.sort(key=lambda entry: entry[0].weight)\n",
        "        def _by_weight(entry: tuple[RulePart, State]) -> t.Any:\n            return entry[0].content\n\n        def _update_state(state: State) -> None:\n            state.dynamic.sort(key=_by_weight)\n"))]},
    {"name": "update-worklist-skips-static", "expect": "R3.1", "edits": [(M, _UPDATE_BODY,
        "        pending = [state]\n"
        "        while pending:\n"
        "            current = pending.pop()\n"
        "            current.dynamic.sort(key=lambda entry: entry[0].weight)\n"
        "            pending.extend(target for _, target in current.dynamic)\n")]},
    {"name": "update-successors-chained-parts-not-states", "expect": "R3.1", "edits": [(M, _UPDATE_BODY, _UPDATE_BODY.replace(
        "            for new_state in state.static.values():\n                _update_state(new_state)\n            for _, new_state in state.dynamic:\n                _update_state(new_state)\n",
        "            for new_state in [*state.static.values()]:\n                _update_state(new_state)\n"))]},
    {"name": "weighting-count-taken-too-early", "expect": "R3.1", "edits": [
        (R, "        pos = 0\n        while pos < len(rule):\n", "        literal_count = len(static_weights)\n        pos = 0\n        while pos < len(rule):\n"),
        (R, _W_OUTER, _W_OUTER.replace("            -len(static_weights),\n", "            -literal_count,\n"))]},
    {"name": "per-rule-closure-forgets-methods", "expect": "R3.2", "edits": [(M, "        def _match(\n", _USABLE.replace("                have_match_for.update(rule.methods)\n", "")), (M, _LOOP1, _LOOP1_USABLE), (M, _LOOP2, _LOOP2_USABLE)]},
    {"name": "per-rule-closure-called-before-strictness", "expect": "R3.2", "edits": [(M, "        def _match(\n", _USABLE), (M, _LOOP1, _LOOP1_USABLE), (M, _LOOP2, "                    if _usable(rule) and not rule.strict_slashes:\n                        return rule, values\n")]},
    {"name": "base-loop-break-style-forgets-methods", "expect": "R3.2", "edits": [(M, _LOOP1, _LOOP1_BREAK.replace("                        have_match_for.update(rule.methods)\n", "                        continue\n"))]},
    {"name": "weights-copied-only-one-then-cleared", "expect": "R3.5", "edits": [
        (R, _W_INNER, "                    weight = Weighting(\n                        -len(static_weights),\n                        list(static_weights),\n                        -len(argument_weights),\n                        argument_weights,\n                    )\n"),
        (R, _RESET, "                    argument_weights.clear()\n                    static_weights.clear()\n")]},
    {"name": "reset-by-tuple-assignment-same-list", "expect": "R3.5", "edits": [(R, _RESET, "                    fresh: list[t.Any] = []\n                    argument_weights, static_weights = fresh, fresh\n")]},
    {"name": "dynamic-reversed", "expect": "R3.1", "edits": [(M, _DYN_HEAD, "            for test_part, new_state in reversed(state.dynamic):\n                target = part\n")]},
    {"name": "record-closure-records-nothing", "expect": "R3.2", "edits": [
        (M, "        def _match(\n", "        def _remember(rule: Rule) -> None:\n            if rule.methods is None:\n                have_match_for.update(rule.methods)\n\n        def _match(\n"),
        (M, _LOOP1, _LOOP1.replace("have_match_for.update(rule.methods)", "_remember(rule)")),
        (M, _LOOP2, _LOOP2.replace("have_match_for.update(rule.methods)", "_remember(rule)")),
    ]},
    {"name": "module-predicate-ignores-unrestricted", "expect": "R3.2", "edits": [
        (M, _CLASS_AT, _METHOD_OK.replace("rule.methods is None or method in rule.methods", "rule.methods is not None and method in rule.methods")),
        (M, _LOOP1, _LOOP1.replace("if rule.methods is not None and method not in rule.methods:", "if not _method_allowed(rule, method):")),
    ]},
    {"name": "handler-methods-minus-options", "expect": "R3.3", "edits": [(P, _HANDLER, _HANDLER.replace("list(e.have_match_for)", "list(e.have_match_for - {'OPTIONS'})"))]},
    {"name": "part-helper-and-reset-forgotten", "expect": "R3.5", "edits": [(R, _PART_INNER, "                    yield _build_part(content, final, static, static_weights, argument_weights)\n"), (R, _AT, _BUILDER), (R, _RESET, "                    static_weights = []\n")]},
    {"name": "part-helper-lists-swapped", "expect": "R3.1", "edits": [(R, _PART_INNER, "                    yield _build_part(content, final, static, static_weights, argument_weights)\n"), (R, _AT, _BUILDER.replace("Weighting(-len(literals), literals, -len(converters), converters)", "Weighting(-len(literals), converters, -len(converters), literals)"))]},
    {"name": "handler-deferred-after-try-inverted", "expect": "R3.3", "edits": [(P, _HANDLER, "            failure = e\n"), (P, _TAIL, _TAIL + _DEFERRED.replace("if failure.have_match_for:", "if not failure.have_match_for:"))]},
    {"name": "405-raised-after-successful-match", "expect": "R3.3", "edits": [(P, "            rule, rv = result\n\n            if self.map.redirect_defaults:\n", "            rule, rv = result\n            if rule.methods is not None and method not in rule.methods:\n                raise MethodNotAllowed(valid_methods=list(rule.methods))\n\n            if self.map.redirect_defaults:\n")]},
]

TWINS += [
    {"name": "handler-select-default-override", "edits": [(P, _HANDLER, _H_SELECT)]},
    {"name": "handler-ifexp", "edits": [(P, _HANDLER, _H_IFEXP)]},
    {"name": "handler-error-from-staticmethod", "edits": [(P, _HANDLER, _H_METHOD_CALL), (P, _TEST_AT, _H_METHOD)]},
    {"name": "handler-noreturn-method", "edits": [(P, _HANDLER, _H_RAISER_CALL), (P, _TEST_AT, _H_RAISER)]},
    {"name": "handler-list-first", "edits": [(P, _HANDLER, _H_LISTFIRST)]},
    {"name": "nomatch-built-by-closure", "edits": [
        (M, "        def _match(\n", "        def _no_match() -> NoMatch:\n            return NoMatch(have_match_for, websocket_mismatch)\n\n        def _match(\n"),
        (M, _NOMATCH_FINAL, "\n        raise _no_match()\n"),
        (M, "                    raise NoMatch(have_match_for, websocket_mismatch) from None\n", "                    raise _no_match() from None\n"),
        (M, "                raise NoMatch(have_match_for, websocket_mismatch)\n            else:", "                raise _no_match()\n            else:"),
    ]},
    {"name": "adapter-map-alias", "edits": [
        (P, "        self.map.update()\n        if path_info is None:\n            path_info = self.path_info\n        if query_args is None:", "        url_map = self.map\n        url_map.update()\n        if path_info is None:\n            path_info = self.path_info\n        if query_args is None:"),
        (P, "            result = self.map._matcher.match(domain_part, path_part, method, websocket)\n", "            matcher = url_map._matcher\n            result = matcher.match(domain_part, path_part, method, websocket)\n"),
    ]},
    {"name": "map-update-sort-helper", "edits": [
        (P, _MAP_UPDATE_TAIL, "            self._sort_rules()\n            self._remap = False\n"),
        (P, "    def __repr__(self) -> str:\n        rules = self.iter_rules()\n", "    def _sort_rules(self) -> None:\n        self._matcher.update()\n        for rules in self._rules_by_endpoint.values():\n            rules.sort(key=lambda x: x.build_compare_key())\n\n    def __repr__(self) -> str:\n        rules = self.iter_rules()\n"),
    ]},
    {"name": "sort-key-named-function", "edits": [(M, _UPDATE_BODY, _UPDATE_BODY.replace(
        "        def _update_state(state: State) -> None:\n            state.dynamic.sort(key=lambda entry: entry[0].weight)\n",
        "        def _by_weight(entry: tuple[RulePart, State]) -> t.Any:\n            return entry[0].weight\n\n        def _update_state(state: State) -> None:\n            state.dynamic.sort(key=_by_weight)\n"))]},
    {"name": "update-worklist", "edits": [(M, _UPDATE_BODY,
        "        pending = [state]\n"
        "        while pending:\n"
        "            current = pending.pop()\n"
        "            current.dynamic.sort(key=lambda entry: entry[0].weight)\n"
        "            pending.extend(current.static.values())\n"
        "            pending.extend(target for _, target in current.dynamic)\n")]},
    {"name": "update-successors-chained", "edits": [(M, _UPDATE_BODY, _UPDATE_BODY.replace(
        "            for new_state in state.static.values():\n                _update_state(new_state)\n            for _, new_state in state.dynamic:\n                _update_state(new_state)\n",
        "            for new_state in [*state.static.values(), *(s for _, s in state.dynamic)]:\n                _update_state(new_state)\n"))]},
    {"name": "static-attempt-ifexp", "edits": [(M, _STATIC_BLOCK,
        "            rv = _match(state.static[part], parts[1:], values) if part in state.static else None\n"
        "            if rv is not None:\n"
        "                return rv\n")]},
    {"name": "dynamic-loop-through-alias", "edits": [(M, "            for test_part, new_state in state.dynamic:\n                target = part\n", "            transitions = state.dynamic\n            for test_part, new_state in transitions:\n                target = part\n")]},
    {"name": "weighting-counts-through-locals", "edits": [(R, _W_OUTER,
        "        literal_count = len(static_weights)\n"
        "        weight = Weighting(\n"
        "            -literal_count,\n"
        "            static_weights,\n"
        "            -len(argument_weights),\n"
        "            argument_weights,\n"
        "        )\n")]},
    {"name": "per-rule-closure-in-both-loops", "edits": [(M, "        def _match(\n", _USABLE), (M, _LOOP1, _LOOP1_USABLE), (M, _LOOP2, _LOOP2_USABLE)]},
    {"name": "per-rule-closure-result-in-flag", "edits": [(M, "        def _match(\n", _USABLE), (M, _LOOP1, _LOOP1_USABLE), (M, _LOOP2, _LOOP2_USABLE_FLAG)]},
    {"name": "base-loop-break-style", "edits": [(M, _LOOP1, _LOOP1_BREAK)]},
    {"name": "conversion-in-closure", "edits": [
        (M, _CONVERT_LOOP, "            result = _convert(rule, values)\n"),
        (M, "        def _match(\n",
         "        def _convert(rule: Rule, values: list[str]) -> dict[str, t.Any]:\n"
         "            result = {}\n"
         "            for name, value in zip(rule._converters.keys(), values):\n"
         "                try:\n"
         "                    value = rule._converters[name].to_python(value)\n"
         "                except ValidationError:\n"
         "                    raise NoMatch(have_match_for, websocket_mismatch) from None\n"
         "                result[str(name)] = value\n"
         "            return result\n\n"
         "        def _match(\n")]},
    {"name": "weights-copied-into-part-then-cleared", "edits": [
        (R, _W_INNER, "                    weight = Weighting(\n                        -len(static_weights),\n                        list(static_weights),\n                        -len(argument_weights),\n                        list(argument_weights),\n                    )\n"),
        (R, _RESET, "                    argument_weights.clear()\n                    static_weights.clear()\n")]},
    {"name": "reset-by-tuple-assignment", "edits": [(R, _RESET, "                    argument_weights, static_weights = [], []\n")]},
    {"name": "merge-in-closure", "edits": [
        (M, "        def _match(\n", "        def _merged(raw: str) -> str:\n            return re.sub(\"/{2,}?\", \"/\", raw)\n\n        def _match(\n"),
        (M, "            path = re.sub(\"/{2,}?\", \"/\", path)\n", "            path = _merged(path)\n")]},
    {"name": "converters-table-dict-call", "edits": [(C,
        "DEFAULT_CONVERTERS: t.Mapping[str, type[BaseConverter]] = {\n    \"default\": UnicodeConverter,\n    \"string\": UnicodeConverter,\n    \"any\": AnyConverter,\n    \"path\": PathConverter,\n    \"int\": IntegerConverter,\n    \"float\": FloatConverter,\n    \"uuid\": UUIDConverter,\n}\n",
        "DEFAULT_CONVERTERS: t.Mapping[str, type[BaseConverter]] = dict(\n    default=UnicodeConverter,\n    string=UnicodeConverter,\n    any=AnyConverter,\n    path=PathConverter,\n    int=IntegerConverter,\n    float=FloatConverter,\n    uuid=UUIDConverter,\n)\n")]},
    {"name": "static-attempt-keyword-call", "edits": [(M, _STATIC_BLOCK, _STATIC_BLOCK.replace("_match(state.static[part], parts[1:], values)", "_match(state=state.static[part], parts=parts[1:], values=values)"))]},
    {"name": "dynamic-body-in-closure", "edits": [(M, _DYN_BODY, "                rv = _follow(test_part, new_state, target, remaining, values)\n                if rv is not None:\n                    return rv\n"), (M, _FIRST_TRY, _DYN_HELPER)]},
    {"name": "dynamic-enumerate", "edits": [(M, _DYN_HEAD, "            for _position, (test_part, new_state) in enumerate(state.dynamic):\n                target = part\n")]},
    {"name": "add-entry-through-local", "edits": [(M, "                    state.dynamic.append((part, new_state))\n", "                    entry = (part, new_state)\n                    state.dynamic.append(entry)\n")]},
    {"name": "static-attempt-try-keyerror", "edits": [(M, _STATIC_BLOCK,
        "            try:\n"
        "                static_next = state.static[part]\n"
        "            except KeyError:\n"
        "                pass\n"
        "            else:\n"
        "                rv = _match(static_next, parts[1:], values)\n"
        "                if rv is not None:\n"
        "                    return rv\n")]},
    {"name": "conversion-in-method", "edits": [
        (M, _CONVERT_LOOP, "            result = self._convert(rule, values, have_match_for, websocket_mismatch)\n"),
        (M, "    def match(\n        self, domain: str, path: str, method: str, websocket: bool\n",
         "    @staticmethod\n"
         "    def _convert(\n"
         "        rule: Rule, values: list[str], have_match_for: set[str], websocket_mismatch: bool\n"
         "    ) -> dict[str, t.Any]:\n"
         "        result = {}\n"
         "        for name, value in zip(rule._converters.keys(), values):\n"
         "            try:\n"
         "                value = rule._converters[name].to_python(value)\n"
         "            except ValidationError:\n"
         "                raise NoMatch(have_match_for, websocket_mismatch) from None\n"
         "            result[str(name)] = value\n"
         "        return result\n\n"
         "    def match(\n        self, domain: str, path: str, method: str, websocket: bool\n")]},
    {"name": "record-through-closure-statement", "edits": [
        (M, "        def _match(\n", "        def _remember(rule: Rule) -> None:\n            have_match_for.update(rule.methods)\n\n        def _match(\n"),
        (M, _LOOP1, _LOOP1.replace("have_match_for.update(rule.methods)", "_remember(rule)")),
        (M, _LOOP2, _LOOP2.replace("have_match_for.update(rule.methods)", "_remember(rule)")),
    ]},
    {"name": "module-predicate-for-methods", "edits": [
        (M, _CLASS_AT, _METHOD_OK),
        (M, _LOOP1, _LOOP1.replace("if rule.methods is not None and method not in rule.methods:", "if not _method_allowed(rule, method):")),
        (M, _LOOP2, _LOOP2.replace("if rule.methods is not None and method not in rule.methods:", "if not _method_allowed(rule, method):")),
        (M, _SLASH_LOOP, _SLASH_LOOP.replace("                        if websocket == rule.websocket and (\n                            rule.methods is None or method in rule.methods\n                        ):\n", "                        if websocket == rule.websocket and _method_allowed(rule, method):\n")
            .replace("                            not rule.strict_slashes\n                            and rule.methods is not None\n                            and method not in rule.methods\n", "                            not rule.strict_slashes\n                            and not _method_allowed(rule, method)\n")),
    ]},
    {"name": "rules-through-alias", "edits": [(M, _LOOP1, _LOOP1.replace("                for rule in state.rules:\n", "                candidates = state.rules\n                for rule in candidates:\n"))]},
    {"name": "handler-len-not", "edits": [(P, _HANDLER,
        "            if not len(e.have_match_for):\n"
        "                if e.websocket_mismatch:\n"
        "                    raise WebsocketMismatch() from None\n"
        "                raise NotFound() from None\n"
        "            raise MethodNotAllowed(valid_methods=list(e.have_match_for)) from None\n")]},
    {"name": "handler-compare-empty-set", "edits": [(P, _HANDLER, _HANDLER.replace("if e.have_match_for:", "if e.have_match_for != set():"))]},
    {"name": "map-update-positive-guard", "edits": [(P,
        "        if not self._remap:\n            return\n\n        with self._remap_lock:\n            if not self._remap:\n                return\n\n            self._matcher.update()\n            for rules in self._rules_by_endpoint.values():\n                rules.sort(key=lambda x: x.build_compare_key())\n            self._remap = False\n",
        "        if self._remap:\n            with self._remap_lock:\n                if self._remap:\n                    self._matcher.update()\n                    for rules in self._rules_by_endpoint.values():\n                        rules.sort(key=lambda x: x.build_compare_key())\n                    self._remap = False\n")]},
    {"name": "nomatch-keywords", "edits": [(M, "\n        raise NoMatch(have_match_for, websocket_mismatch)\n", "\n        raise NoMatch(have_match_for=have_match_for, websocket_mismatch=websocket_mismatch)\n")]},
    {"name": "weight-inline-in-rulepart", "edits": [(R,
        "        weight = Weighting(\n            -len(static_weights),\n            static_weights,\n            -len(argument_weights),\n            argument_weights,\n        )\n        yield RulePart(\n            content=content,\n            final=final,\n            static=static,\n            suffixed=suffixed,\n            weight=weight,\n        )\n",
        "        yield RulePart(\n            content=content,\n            final=final,\n            static=static,\n            suffixed=suffixed,\n            weight=(weight := Weighting(-len(static_weights), static_weights, -len(argument_weights), argument_weights)),\n        )\n")]},
    {"name": "converter-weight-direct", "edits": [(R, "                argument_weights.append(convobj.weight)\n", "                argument_weights.extend([convobj.weight])\n")]},
    {"name": "have-match-for-annotated", "edits": [(M, "        have_match_for = set()\n", "        have_match_for: set[str] = set()\n")]},
    {"name": "merge-flag-local-early", "edits": [
        (M, "        have_match_for = set()\n", "        have_match_for = set()\n        merge = self.merge_slashes\n"),
        (M, "        if self.merge_slashes and rv is None:\n", "        if rv is None and merge:\n")]},
    {"name": "part-and-weight-built-by-helper", "edits": [(R, _PART_INNER, "                    yield _build_part(content, final, static, static_weights, argument_weights)\n"), (R, _AT, _BUILDER)]},
    {"name": "handler-deferred-after-try", "edits": [(P, _HANDLER, "            failure = e\n"), (P, _TAIL, _TAIL + _DEFERRED)]},
    {"name": "handler-class-then-instance", "edits": [(P, _HANDLER,
        "            if e.have_match_for:\n"
        "                raise MethodNotAllowed(valid_methods=list(e.have_match_for)) from None\n"
        "            error_class = WebsocketMismatch if e.websocket_mismatch else NotFound\n"
        "            raise error_class() from None\n")]},
    {"name": "handler-walrus-methods", "edits": [(P, _HANDLER,
        "            if allowed := e.have_match_for:\n"
        "                raise MethodNotAllowed(valid_methods=list(allowed)) from None\n"
        "            raise (WebsocketMismatch() if e.websocket_mismatch else NotFound()) from None\n")]},
    {"name": "merge-pattern-module-constant", "edits": [
        (M, "class SlashRequired(Exception):\n", "_repeated_slashes = re.compile(\"/{2,}?\")\n\n\nclass SlashRequired(Exception):\n"),
        (M, "            path = re.sub(\"/{2,}?\", \"/\", path)\n", "            path = _repeated_slashes.sub(\"/\", path)\n")]},
    {"name": "conversion-try-around-loop", "edits": [(M, _CONVERT_LOOP,
        "            result = {}\n"
        "            try:\n"
        "                for name, value in zip(rule._converters.keys(), values):\n"
        "                    result[str(name)] = rule._converters[name].to_python(value)\n"
        "            except ValidationError:\n"
        "                raise NoMatch(have_match_for, websocket_mismatch) from None\n")]},
    {"name": "conversion-dict-comprehension", "edits": [(M, _CONVERT_LOOP,
        "            try:\n"
        "                result = {\n"
        "                    str(name): rule._converters[name].to_python(value)\n"
        "                    for name, value in zip(rule._converters.keys(), values)\n"
        "                }\n"
        "            except ValidationError:\n"
        "                raise NoMatch(have_match_for, websocket_mismatch) from None\n")]},
    {"name": "retry-in-closure", "edits": [
        (M, "        if self.merge_slashes and rv is None:\n            # Try to match again, but with slashes merged\n            path = re.sub(\"/{2,}?\", \"/\", path)\n            try:\n                rv = _match(self._root, [domain, *path.split(\"/\")], [])\n            except SlashRequired:\n                raise RequestPath(f\"{path}/\") from None\n",
            "        def _attempt(candidate: str) -> tuple[Rule, list[str]] | None:\n            try:\n                return _match(self._root, [domain, *candidate.split(\"/\")], [])\n            except SlashRequired:\n                raise RequestPath(f\"{candidate}/\") from None\n\n        if self.merge_slashes and rv is None:\n            # Try to match again, but with slashes merged\n            path = re.sub(\"/{2,}?\", \"/\", path)\n            rv = _attempt(path)\n")]},
]


# ======================================================================
# round 2b: generator traversal, tuple-returning reset helper, unpacking key function, table / weight spellings

_GEN = (
    "        def _states(current: State) -> t.Iterator[State]:\n"
    "            yield current\n"
    "            for following in current.static.values():\n"
    "                yield from _states(following)\n"
    "            for _, following in current.dynamic:\n"
    "                yield from _states(following)\n"
    "\n"
    "        for visited in _states(state):\n"
    "            visited.dynamic.sort(key=lambda entry: entry[0].weight)\n"
)
_INIT = (
    "        content = \"\"\n"
    "        static = True\n"
    "        argument_weights = []\n"
    "        static_weights: list[tuple[int, int]] = []\n"
    "        final = False\n"
    "        convertor_number = 0\n"
)
_RESET_BLOCK = (
    "                    content = \"\"\n"
    "                    static = True\n"
    "                    argument_weights = []\n"
    "                    static_weights = []\n"
    "                    final = False\n"
    "                    convertor_number = 0\n"
)
_FRESH = (
    "        def _fresh() -> tuple[str, bool, list[int], list[tuple[int, int]], bool, int]:\n"
    "            return \"\", True, [], [], False, 0\n"
    "\n"
    "        content, static, argument_weights, static_weights, final, convertor_number = _fresh()\n"
)
_FRESH_CALL = "                    content, static, argument_weights, static_weights, final, convertor_number = _fresh()\n"
_UPDATE_HEAD = (
    "        def _update_state(state: State) -> None:\n"
    "            state.dynamic.sort(key=lambda entry: entry[0].weight)\n"
)

MUTANTS += [
    {"name": "update-generator-skips-dynamic-targets", "expect": "R3.1", "edits": [(M, _UPDATE_BODY, _GEN.replace("            for _, following in current.dynamic:\n                yield from _states(following)\n", ""))]},
    {"name": "update-generator-not-started-at-root", "expect": "R3.1", "edits": [(M, _UPDATE_BODY, _GEN.replace("for visited in _states(state):", "for visited in _states(State()):"))]},
    {"name": "reset-closure-hands-out-one-shared-list", "expect": "R3.5", "edits": [
        (R, _INIT, "        shared_arguments: list[int] = []\n\n" + _FRESH.replace("return \"\", True, [], [], False, 0", "return \"\", True, shared_arguments, [], False, 0")), (R, _RESET_BLOCK, _FRESH_CALL)]},
    {"name": "sort-key-unpacks-entry-takes-state", "expect": "R3.1", "edits": [(M, _UPDATE_HEAD,
        "        def _transition_weight(entry: tuple[RulePart, State]) -> t.Any:\n            _, part = entry\n            return part.weight\n\n"
        "        def _update_state(state: State) -> None:\n            state.dynamic.sort(key=_transition_weight)\n")]},
    {"name": "weight-relative-to-base-too-small", "expect": "R3.1", "edits": [(C, "    regex = \"[^/].*?\"\n    weight = 200\n", "    regex = \"[^/].*?\"\n    weight = BaseConverter.weight // 2\n")]},
    {"name": "table-later-pair-overrides-path", "expect": "R3.1", "edits": [(C, "    \"uuid\": UUIDConverter,\n}\n", "    \"uuid\": UUIDConverter,\n    **dict.fromkeys((\"path\",), IntegerConverter),\n}\n")]},
    {"name": "map-add-through-alias-forgets-remap", "expect": "R3.1", "edits": [(P,
        "            if not rule.build_only:\n                self._matcher.add(rule)\n            self._rules_by_endpoint.setdefault(rule.endpoint, []).append(rule)\n        self._remap = True\n",
        "            if not rule.build_only:\n                matcher = self._matcher\n                matcher.add(rule)\n            self._rules_by_endpoint.setdefault(rule.endpoint, []).append(rule)\n")]},
    {"name": "counts-unpacked-too-early", "expect": "R3.1", "edits": [
        (R, "        pos = 0\n        while pos < len(rule):\n", "        n_static, n_arguments = len(static_weights), len(argument_weights)\n        pos = 0\n        while pos < len(rule):\n"),
        (R, "        weight = Weighting(\n            -len(static_weights),\n            static_weights,\n            -len(argument_weights),\n            argument_weights,\n        )\n",
            "        weight = Weighting(\n            -n_static,\n            static_weights,\n            -n_arguments,\n            argument_weights,\n        )\n")]},
]

TWINS += [
    {"name": "update-states-from-generator", "edits": [(M, _UPDATE_BODY, _GEN)]},
    {"name": "reset-through-tuple-returning-closure", "edits": [(R, _INIT, _FRESH), (R, _RESET_BLOCK, _FRESH_CALL)]},
    {"name": "sort-key-unpacks-entry", "edits": [(M, _UPDATE_HEAD,
        "        def _transition_weight(entry: tuple[RulePart, State]) -> t.Any:\n            part, _ = entry\n            return part.weight\n\n"
        "        def _update_state(state: State) -> None:\n            state.dynamic.sort(key=_transition_weight)\n")]},
]

# independent neutral refactorings written by an author who had not seen the checker (verified against the routing
# tests and a differential run); the first round of them found seven shapes the rules were too narrow for
TWINS += [
    {"name": "indep-match-first-acceptable-helper", "edits": [
        (M, '        def _match(\n            state: State, parts: list[str], values: list[str]\n', '        def _first_acceptable(rules: list[Rule], skip_strict: bool) -> Rule | None:\n            nonlocal websocket_mismatch\n            for candidate in rules:\n                if skip_strict and candidate.strict_slashes:\n                    continue\n                if candidate.methods is not None and method not in candidate.methods:\n                    have_match_for.update(candidate.methods)\n                elif candidate.websocket != websocket:\n                    websocket_mismatch = True\n                else:\n                    return candidate\n            return None\n\n        def _match(\n            state: State, parts: list[str], values: list[str]\n'),
        (M, '            if parts == []:\n                for rule in state.rules:\n                    if rule.methods is not None and method not in rule.methods:\n                        have_match_for.update(rule.methods)\n                    elif rule.websocket != websocket:\n                        websocket_mismatch = True\n                    else:\n                        return rule, values\n', '            if parts == []:\n                accepted = _first_acceptable(state.rules, False)\n                if accepted is not None:\n                    return accepted, values\n'),
        (M, '            if parts == [""]:\n                for rule in state.rules:\n                    if rule.strict_slashes:\n                        continue\n                    if rule.methods is not None and method not in rule.methods:\n                        have_match_for.update(rule.methods)\n                    elif rule.websocket != websocket:\n                        websocket_mismatch = True\n                    else:\n                        return rule, values\n', '            if parts == [""]:\n                accepted = _first_acceptable(state.rules, True)\n                if accepted is not None:\n                    return accepted, values\n'),
    ]},
    {"name": "indep-match-slash-candidates-method-ok", "edits": [
        (M, '                if "" in state.static:\n                    for rule in state.static[""].rules:\n                        if websocket == rule.websocket and (\n                            rule.methods is None or method in rule.methods\n                        ):\n                            if rule.strict_slashes:\n                                raise SlashRequired()\n                            else:\n                                return rule, values\n                        elif (\n                            not rule.strict_slashes\n                            and rule.methods is not None\n                            and method not in rule.methods\n                        ):\n                            have_match_for.update(rule.methods)\n                return None\n', '                slash_state = state.static.get("")\n                if slash_state is None:\n                    return None\n                for rule in slash_state.rules:\n                    method_ok = rule.methods is None or method in rule.methods\n                    if method_ok and websocket == rule.websocket:\n                        if not rule.strict_slashes:\n                            return rule, values\n                        raise SlashRequired()\n                    if not (rule.strict_slashes or method_ok):\n                        have_match_for.update(rule.methods)\n                return None\n'),
    ]},
    {"name": "indep-add-next-search-setdefault-result", "edits": [
        (M, '            if part.static:\n                state.static.setdefault(part.content, State())\n                state = state.static[part.content]\n            else:\n                for test_part, new_state in state.dynamic:\n                    if test_part == part:\n                        state = new_state\n                        break\n                else:\n                    new_state = State()\n                    state.dynamic.append((part, new_state))\n                    state = new_state\n', '            if part.static:\n                state = state.static.setdefault(part.content, State())\n                continue\n            existing = next(\n                (target for test_part, target in state.dynamic if test_part == part),\n                None,\n            )\n            if existing is None:\n                existing = State()\n                state.dynamic.append((part, existing))\n            state = existing\n'),
    ]},
    {"name": "indep-update-sorted-assign-named-key", "edits": [
        (M, '        state = self._root\n\n        def _update_state(state: State) -> None:\n            state.dynamic.sort(key=lambda entry: entry[0].weight)\n            for new_state in state.static.values():\n                _update_state(new_state)\n            for _, new_state in state.dynamic:\n                _update_state(new_state)\n\n        _update_state(state)\n', '        def _transition_weight(entry: tuple[RulePart, State]) -> t.Any:\n            part, _ = entry\n            return part.weight\n\n        def _update_state(state: State) -> None:\n            state.dynamic = sorted(state.dynamic, key=_transition_weight)\n            children = [*state.static.values(), *(child for _, child in state.dynamic)]\n            for new_state in children:\n                _update_state(new_state)\n\n        _update_state(self._root)\n'),
    ]},
    {"name": "indep-adapter-nomatch-module-helper", "edits": [
        (P, 'class MapAdapter:\n    """Returned by :meth:`Map.bind` or :meth:`Map.bind_to_environ` and does\n', 'def _http_error_for(no_match: NoMatch) -> HTTPException:\n    if no_match.have_match_for:\n        return MethodNotAllowed(valid_methods=list(no_match.have_match_for))\n    return WebsocketMismatch() if no_match.websocket_mismatch else NotFound()\n\n\nclass MapAdapter:\n    """Returned by :meth:`Map.bind` or :meth:`Map.bind_to_environ` and does\n'),
        (P, '            if e.have_match_for:\n                raise MethodNotAllowed(valid_methods=list(e.have_match_for)) from None\n\n            if e.websocket_mismatch:\n                raise WebsocketMismatch() from None\n\n            raise NotFound() from None\n', '            raise _http_error_for(e) from None\n'),
    ]},
    {"name": "indep-adapter-matcher-local-keywords", "edits": [
        (P, '            result = self.map._matcher.match(domain_part, path_part, method, websocket)\n', '            matcher = self.map._matcher\n            rule, rv = matcher.match(\n                domain=domain_part, path=path_part, method=method, websocket=websocket\n            )\n'),
        (P, '        else:\n            rule, rv = result\n\n            if self.map.redirect_defaults:\n', '        else:\n            if self.map.redirect_defaults:\n'),
    ]},
    {"name": "indep-map-update-slice-sorted", "edits": [
        (P, '            self._matcher.update()\n            for rules in self._rules_by_endpoint.values():\n                rules.sort(key=lambda x: x.build_compare_key())\n            self._remap = False\n', '            matcher = self._matcher\n            matcher.update()\n            for rules in self._rules_by_endpoint.values():\n                rules[:] = sorted(rules, key=lambda x: x.build_compare_key())\n            self._remap = False\n'),
    ]},
    {"name": "indep-map-add-hoist-in-index", "edits": [
        (P, '        for rule in rulefactory.get_rules(self):\n            rule.bind(self)\n            if not rule.build_only:\n                self._matcher.add(rule)\n            self._rules_by_endpoint.setdefault(rule.endpoint, []).append(rule)\n        self._remap = True\n', '        matcher = self._matcher\n        by_endpoint = self._rules_by_endpoint\n        for rule in rulefactory.get_rules(self):\n            rule.bind(self)\n            if rule.build_only:\n                pass\n            else:\n                matcher.add(rule)\n            if rule.endpoint not in by_endpoint:\n                by_endpoint[rule.endpoint] = []\n            by_endpoint[rule.endpoint].append(rule)\n        self._remap = True\n'),
    ]},
    {"name": "indep-parse-rule-weight-closure", "edits": [
        (R, '        pos = 0\n        while pos < len(rule):\n', '        def _current_weight() -> Weighting:\n            return Weighting(\n                -len(static_weights),\n                static_weights,\n                -len(argument_weights),\n                argument_weights,\n            )\n\n        pos = 0\n        while pos < len(rule):\n'),
        (R, '                        content += r"\\Z"\n                    weight = Weighting(\n                        -len(static_weights),\n                        static_weights,\n                        -len(argument_weights),\n                        argument_weights,\n                    )\n', '                        content += r"\\Z"\n                    weight = _current_weight()\n'),
        (R, '        if not static:\n            content += r"\\Z"\n        weight = Weighting(\n            -len(static_weights),\n            static_weights,\n            -len(argument_weights),\n            argument_weights,\n        )\n', '        if not static:\n            content += r"\\Z"\n        weight = _current_weight()\n'),
    ]},
    {"name": "indep-parse-rule-weighting-keywords", "edits": [
        (R, '                        content += r"\\Z"\n                    weight = Weighting(\n                        -len(static_weights),\n                        static_weights,\n                        -len(argument_weights),\n                        argument_weights,\n                    )\n', '                        content += r"\\Z"\n                    weight = Weighting(\n                        static_weights=static_weights,\n                        argument_weights=argument_weights,\n                        number_static_weights=-len(static_weights),\n                        number_argument_weights=-len(argument_weights),\n                    )\n'),
        (R, '        if not static:\n            content += r"\\Z"\n        weight = Weighting(\n            -len(static_weights),\n            static_weights,\n            -len(argument_weights),\n            argument_weights,\n        )\n', '        if not static:\n            content += r"\\Z"\n        n_static, n_arguments = len(static_weights), len(argument_weights)\n        weight = Weighting(\n            number_static_weights=-n_static,\n            static_weights=static_weights,\n            number_argument_weights=-n_arguments,\n            argument_weights=argument_weights,\n        )\n'),
    ]},
    {"name": "indep-parse-rule-fresh-state-helper", "edits": [
        (R, '        content = ""\n        static = True\n        argument_weights = []\n        static_weights: list[tuple[int, int]] = []\n        final = False\n        convertor_number = 0\n\n        pos = 0\n', '        def _fresh() -> tuple[str, bool, list[int], list[tuple[int, int]], bool, int]:\n            return "", True, [], [], False, 0\n\n        (\n            content,\n            static,\n            argument_weights,\n            static_weights,\n            final,\n            convertor_number,\n        ) = _fresh()\n\n        pos = 0\n'),
        (R, '                    content = ""\n                    static = True\n                    argument_weights = []\n                    static_weights = []\n                    final = False\n                    convertor_number = 0\n', '                    (\n                        content,\n                        static,\n                        argument_weights,\n                        static_weights,\n                        final,\n                        convertor_number,\n                    ) = _fresh()\n'),
    ]},
    {"name": "indep-converters-named-weights-pairs", "edits": [
        (C, 'class ValidationError(ValueError):\n', '_WEIGHT_DEFAULT = 100\n_WEIGHT_PATH = 200\n_WEIGHT_NUMBER = 50\n\n\nclass ValidationError(ValueError):\n'),
        (C, '    regex = "[^/]+"\n    weight = 100\n', '    regex = "[^/]+"\n    weight = _WEIGHT_DEFAULT\n'),
        (C, '    regex = "[^/].*?"\n    weight = 200\n', '    regex = "[^/].*?"\n    weight = _WEIGHT_PATH\n'),
        (C, '    weight = 50\n    num_convert: t.Callable[[t.Any], t.Any] = int\n', '    weight = _WEIGHT_NUMBER\n    num_convert: t.Callable[[t.Any], t.Any] = int\n'),
        (C, 'DEFAULT_CONVERTERS: t.Mapping[str, type[BaseConverter]] = {\n    "default": UnicodeConverter,\n    "string": UnicodeConverter,\n    "any": AnyConverter,\n    "path": PathConverter,\n    "int": IntegerConverter,\n    "float": FloatConverter,\n    "uuid": UUIDConverter,\n}\n', '_CONVERTER_TABLE: tuple[tuple[str, type[BaseConverter]], ...] = (\n    ("default", UnicodeConverter),\n    ("string", UnicodeConverter),\n    ("any", AnyConverter),\n    ("path", PathConverter),\n    ("int", IntegerConverter),\n    ("float", FloatConverter),\n    ("uuid", UUIDConverter),\n)\nDEFAULT_CONVERTERS: t.Mapping[str, type[BaseConverter]] = dict(_CONVERTER_TABLE)\n'),
    ]},
    {"name": "indep-converters-relative-weights-fromkeys", "edits": [
        (C, '    regex = "[^/].*?"\n    weight = 200\n', '    regex = "[^/].*?"\n    weight = 2 * BaseConverter.weight\n'),
        (C, '    weight = 50\n    num_convert: t.Callable[[t.Any], t.Any] = int\n', '    weight = BaseConverter.weight // 2\n    num_convert: t.Callable[[t.Any], t.Any] = int\n'),
        (C, 'DEFAULT_CONVERTERS: t.Mapping[str, type[BaseConverter]] = {\n    "default": UnicodeConverter,\n    "string": UnicodeConverter,\n    "any": AnyConverter,\n', 'DEFAULT_CONVERTERS: t.Mapping[str, type[BaseConverter]] = {\n    **dict.fromkeys(("default", "string"), UnicodeConverter),\n    "any": AnyConverter,\n'),
    ]},
]


# ======================================================================
# round 2c: converter obtained through a helper, lists grown by rebinding, map.update through a helper of the adapter

E = "routing/exceptions.py"
_GETCONV = (
    "                c_args, c_kwargs = parse_converter_args(data[\"arguments\"] or \"\")\n"
    "                convobj = self.get_converter(\n"
    "                    data[\"variable\"], data[\"converter\"] or \"default\", c_args, c_kwargs\n"
    "                )\n"
)
_CONV_CLOSURE = (
    "        def _converter_for(found: dict[str, t.Any]) -> BaseConverter:\n"
    "            c_args, c_kwargs = parse_converter_args(found[\"arguments\"] or \"\")\n"
    "            return self.get_converter(\n"
    "                found[\"variable\"], found[\"converter\"] or \"default\", c_args, c_kwargs\n"
    "            )\n"
    "\n"
    "        pos = 0\n        while pos < len(rule):\n"
)
_LOOP_AT = "        pos = 0\n        while pos < len(rule):\n"
_APPEND_S = "                static_weights.append((len(static_weights), -len(data[\"static\"])))\n"
_APPEND_A = "                argument_weights.append(convobj.weight)\n"
_MAPUP = "        self.map.update()\n        if path_info is None:\n            path_info = self.path_info\n        if query_args is None:"

MUTANTS += [
    {"name": "converter-from-closure-weight-of-default", "expect": "R3.1", "edits": [(R, _GETCONV, "                convobj = _converter_for(data)\n"), (R, _LOOP_AT, _CONV_CLOSURE),
        (R, _APPEND_A, "                argument_weights.append(BaseConverter.weight)\n")]},
    {"name": "adapter-refresh-helper-conditional", "expect": "R3.1", "edits": [(P, _MAPUP, "        self._refresh()\n        if path_info is None:\n            path_info = self.path_info\n        if query_args is None:"),
        (P, _TEST_AT, "    def _refresh(self) -> None:\n        if self.map._rules:\n            return\n        self.map.update()\n\n" + _TEST_AT)]},
]

TWINS += [
    {"name": "converter-from-closure", "edits": [(R, _GETCONV, "                convobj = _converter_for(data)\n"), (R, _LOOP_AT, _CONV_CLOSURE)]},
    {"name": "weights-grow-by-rebinding", "edits": [(R, _APPEND_S, "                static_weights = static_weights + [(len(static_weights), -len(data[\"static\"]))]\n"), (R, _APPEND_A, "                argument_weights = [*argument_weights, convobj.weight]\n")]},
    {"name": "adapter-refresh-helper", "edits": [(P, _MAPUP, "        self._refresh()\n        if path_info is None:\n            path_info = self.path_info\n        if query_args is None:"),
        (P, _TEST_AT, "    def _refresh(self) -> None:\n        self.map.update()\n\n" + _TEST_AT)]},
]

# second independent round (bolder restructurings; nine of twenty-five were not understood at first). Not in the battery because they
# stay exit 2: the search closure moved to a module-level function with a bookkeeping object; a `match` statement in the handler (CFG builder)
TWINS += [
    {"name": "indep2-match-rule-loops-continue-guards-methods-local", "edits": [
        (M, '            if parts == []:\n                for rule in state.rules:\n                    if rule.methods is not None and method not in rule.methods:\n                        have_match_for.update(rule.methods)\n                    elif rule.websocket != websocket:\n                        websocket_mismatch = True\n                    else:\n                        return rule, values\n', '            if parts == []:\n                for rule in state.rules:\n                    allowed = rule.methods\n                    if allowed is not None and method not in allowed:\n                        have_match_for.update(allowed)\n                        continue\n                    if rule.websocket != websocket:\n                        websocket_mismatch = True\n                        continue\n                    return rule, values\n'),
        (M, '                    if rule.strict_slashes:\n                        continue\n                    if rule.methods is not None and method not in rule.methods:\n                        have_match_for.update(rule.methods)\n                    elif rule.websocket != websocket:\n                        websocket_mismatch = True\n                    else:\n                        return rule, values\n', '                    if rule.strict_slashes:\n                        continue\n                    allowed = rule.methods\n                    if allowed is not None and method not in allowed:\n                        have_match_for.update(allowed)\n                        continue\n                    if rule.websocket != websocket:\n                        websocket_mismatch = True\n                        continue\n                    return rule, values\n'),
    ]},
    {"name": "indep2-match-missing-result-first-single-try", "edits": [
        (M, '        try:\n            rv = _match(self._root, [domain, *path.split("/")], [])\n        except SlashRequired:\n            raise RequestPath(f"{path}/") from None\n\n        if self.merge_slashes and rv is None:\n            # Try to match again, but with slashes merged\n            path = re.sub("/{2,}?", "/", path)\n            try:\n                rv = _match(self._root, [domain, *path.split("/")], [])\n            except SlashRequired:\n                raise RequestPath(f"{path}/") from None\n            if rv is None or rv[0].merge_slashes is False:\n                raise NoMatch(have_match_for, websocket_mismatch)\n            else:\n                raise RequestPath(f"{path}")\n        elif rv is not None:\n            rule, values = rv\n\n            result = {}\n            for name, value in zip(rule._converters.keys(), values):\n                try:\n                    value = rule._converters[name].to_python(value)\n                except ValidationError:\n                    raise NoMatch(have_match_for, websocket_mismatch) from None\n                result[str(name)] = value\n            if rule.defaults:\n                result.update(rule.defaults)\n\n            if rule.alias and rule.map.redirect_defaults:\n                raise RequestAliasRedirect(result, rule.endpoint)\n\n            return rule, result\n\n        raise NoMatch(have_match_for, websocket_mismatch)\n', '        try:\n            rv = _match(self._root, [domain, *path.split("/")], [])\n            if rv is None:\n                if not self.merge_slashes:\n                    raise NoMatch(have_match_for, websocket_mismatch)\n                # Try to match again, but with slashes merged\n                path = re.sub("/{2,}?", "/", path)\n                rv = _match(self._root, [domain, *path.split("/")], [])\n                if rv is None or rv[0].merge_slashes is False:\n                    raise NoMatch(have_match_for, websocket_mismatch)\n                raise RequestPath(f"{path}")\n        except SlashRequired:\n            raise RequestPath(f"{path}/") from None\n\n        rule, values = rv\n\n        result = {}\n        for name, value in zip(rule._converters.keys(), values):\n            try:\n                value = rule._converters[name].to_python(value)\n            except ValidationError:\n                raise NoMatch(have_match_for, websocket_mismatch) from None\n            result[str(name)] = value\n        if rule.defaults:\n            result.update(rule.defaults)\n\n        if rule.alias and rule.map.redirect_defaults:\n            raise RequestAliasRedirect(result, rule.endpoint)\n\n        return rule, result\n'),
    ]},
    {"name": "indep2-match-nomatch-factory-closure-items-zip", "edits": [
        (M, '            return None\n\n        try:\n            rv = _match(self._root, [domain, *path.split("/")], [])\n        except SlashRequired:\n            raise RequestPath(f"{path}/") from None\n', '            return None\n\n        def _no_match() -> NoMatch:\n            # Evaluated lazily so it sees everything the walk recorded.\n            return NoMatch(have_match_for, websocket_mismatch)\n\n        try:\n            rv = _match(self._root, [domain, *path.split("/")], [])\n        except SlashRequired:\n            raise RequestPath(f"{path}/") from None\n'),
        (M, '            if rv is None or rv[0].merge_slashes is False:\n                raise NoMatch(have_match_for, websocket_mismatch)\n            else:\n', '            if rv is None or rv[0].merge_slashes is False:\n                raise _no_match()\n            else:\n'),
        (M, '            for name, value in zip(rule._converters.keys(), values):\n                try:\n                    value = rule._converters[name].to_python(value)\n                except ValidationError:\n                    raise NoMatch(have_match_for, websocket_mismatch) from None\n                result[str(name)] = value\n', '            for (name, converter), raw in zip(rule._converters.items(), values):\n                try:\n                    converted = converter.to_python(raw)\n                except ValidationError:\n                    raise _no_match() from None\n                else:\n                    result[str(name)] = converted\n'),
        (M, '            return rule, result\n\n        raise NoMatch(have_match_for, websocket_mismatch)\n', '            return rule, result\n\n        raise _no_match()\n'),
    ]},
    {"name": "indep2-match-head-tail-star-unpack-truthiness", "edits": [
        (M, '            if parts == []:\n', '            if not parts:\n'),
        (M, '            part = parts[0]\n            # To match this part try the static transitions first\n            if part in state.static:\n                rv = _match(state.static[part], parts[1:], values)\n', '            part, *tail = parts\n            # To match this part try the static transitions first\n            if part in state.static:\n                rv = _match(state.static[part], tail, values)\n'),
        (M, '                target = part\n                remaining = parts[1:]\n', '                target = part\n                remaining = tail\n'),
        (M, '            if parts == [""]:\n', '            if part == "" and len(tail) == 0:\n'),
    ]},
    {"name": "indep2-match-nonstrict-rules-filterfalse-attrgetter", "edits": [
        (M, 'from dataclasses import field\n', 'from dataclasses import field\nfrom itertools import filterfalse\nfrom operator import attrgetter\n'),
        (M, '                for rule in state.rules:\n                    if rule.strict_slashes:\n                        continue\n                    if rule.methods is not None and method not in rule.methods:\n', '                lenient_rules = filterfalse(attrgetter("strict_slashes"), state.rules)\n                for rule in lenient_rules:\n                    if rule.methods is not None and method not in rule.methods:\n'),
    ]},
    {"name": "indep2-add-split-advance-method-early-returns", "edits": [
        (M, '        state = self._root\n        for part in rule._parts:\n            if part.static:\n                state.static.setdefault(part.content, State())\n                state = state.static[part.content]\n            else:\n                for test_part, new_state in state.dynamic:\n                    if test_part == part:\n                        state = new_state\n                        break\n                else:\n                    new_state = State()\n                    state.dynamic.append((part, new_state))\n                    state = new_state\n        state.rules.append(rule)\n', '        state = self._root\n        for part in rule._parts:\n            state = self._advance(state, part)\n        state.rules.append(rule)\n\n    def _advance(self, state: State, part: RulePart) -> State:\n        """Return the state reached from *state* via *part*, creating it\n        if there is no such transition yet.\n        """\n        if part.static:\n            state.static.setdefault(part.content, State())\n            return state.static[part.content]\n\n        for test_part, new_state in state.dynamic:\n            if test_part == part:\n                return new_state\n\n        new_state = State()\n        state.dynamic.append((part, new_state))\n        return new_state\n'),
    ]},
    {"name": "indep2-update-staticmethod-chain-children", "edits": [
        (M, 'from dataclasses import field\n', 'from dataclasses import field\nfrom itertools import chain\n'),
        (M, '        state = self._root\n\n        def _update_state(state: State) -> None:\n            state.dynamic.sort(key=lambda entry: entry[0].weight)\n            for new_state in state.static.values():\n                _update_state(new_state)\n            for _, new_state in state.dynamic:\n                _update_state(new_state)\n\n        _update_state(state)\n', '        self._order_transitions(self._root)\n\n    @staticmethod\n    def _order_transitions(state: State) -> None:\n        state.dynamic.sort(key=lambda entry: entry[0].weight)\n        children = chain(state.static.values(), (child for _, child in state.dynamic))\n        for child in children:\n            StateMachineMatcher._order_transitions(child)\n'),
    ]},
    {"name": "indep2-adapter-nomatch-ordered-dispatch-table", "edits": [
        (P, '        except NoMatch as e:\n            if e.have_match_for:\n                raise MethodNotAllowed(valid_methods=list(e.have_match_for)) from None\n\n            if e.websocket_mismatch:\n                raise WebsocketMismatch() from None\n\n            raise NotFound() from None\n', '        except NoMatch as e:\n            outcomes = (\n                (\n                    e.have_match_for,\n                    lambda: MethodNotAllowed(valid_methods=list(e.have_match_for)),\n                ),\n                (e.websocket_mismatch, WebsocketMismatch),\n                (True, NotFound),\n            )\n            make_error = next(make for applies, make in outcomes if applies)\n            raise make_error() from None\n'),
    ]},
    {"name": "indep2-adapter-try-else-flattened-direct-unpack", "edits": [
        (P, '            result = self.map._matcher.match(domain_part, path_part, method, websocket)\n', '            rule, rv = self.map._matcher.match(\n                domain_part, path_part, method, websocket\n            )\n'),
        (P, '            raise NotFound() from None\n        else:\n            rule, rv = result\n\n            if self.map.redirect_defaults:\n                redirect_url = self.get_default_redirect(rule, method, rv, query_args)\n                if redirect_url is not None:\n                    raise RequestRedirect(redirect_url)\n\n            if rule.redirect_to is not None:\n                if isinstance(rule.redirect_to, str):\n\n                    def _handle_match(match: t.Match[str]) -> str:\n                        value = rv[match.group(1)]\n                        return rule._converters[match.group(1)].to_url(value)\n\n                    redirect_url = _simple_rule_re.sub(_handle_match, rule.redirect_to)\n                else:\n                    redirect_url = rule.redirect_to(self, **rv)\n\n                if self.subdomain:\n                    netloc = f"{self.subdomain}.{self.server_name}"\n                else:\n                    netloc = self.server_name\n\n                raise RequestRedirect(\n                    urljoin(\n                        f"{self.url_scheme or \'http\'}://{netloc}{self.script_name}",\n                        redirect_url,\n                    )\n                )\n\n            if return_rule:\n                return rule, rv\n            else:\n                return rule.endpoint, rv\n', '            raise NotFound() from None\n\n        if self.map.redirect_defaults:\n            redirect_url = self.get_default_redirect(rule, method, rv, query_args)\n            if redirect_url is not None:\n                raise RequestRedirect(redirect_url)\n\n        if rule.redirect_to is not None:\n            if isinstance(rule.redirect_to, str):\n\n                def _handle_match(match: t.Match[str]) -> str:\n                    value = rv[match.group(1)]\n                    return rule._converters[match.group(1)].to_url(value)\n\n                redirect_url = _simple_rule_re.sub(_handle_match, rule.redirect_to)\n            else:\n                redirect_url = rule.redirect_to(self, **rv)\n\n            if self.subdomain:\n                netloc = f"{self.subdomain}.{self.server_name}"\n            else:\n                netloc = self.server_name\n\n            raise RequestRedirect(\n                urljoin(\n                    f"{self.url_scheme or \'http\'}://{netloc}{self.script_name}",\n                    redirect_url,\n                )\n            )\n\n        if return_rule:\n            return rule, rv\n        else:\n            return rule.endpoint, rv\n'),
    ]},
    {"name": "indep2-map-update-acquire-finally-methodcaller", "edits": [
        (P, 'from pprint import pformat\n', 'from operator import methodcaller\nfrom pprint import pformat\n'),
        (P, '        with self._remap_lock:\n            if not self._remap:\n                return\n\n            self._matcher.update()\n            for rules in self._rules_by_endpoint.values():\n                rules.sort(key=lambda x: x.build_compare_key())\n            self._remap = False\n', '        self._remap_lock.acquire()\n        try:\n            if not self._remap:\n                return\n\n            self._matcher.update()\n            by_build_priority = methodcaller("build_compare_key")\n            for rules in self._rules_by_endpoint.values():\n                rules.sort(key=by_build_priority)\n            self._remap = False\n        finally:\n            self._remap_lock.release()\n'),
    ]},
    {"name": "indep2-parse-rule-weighting-staticmethod", "edits": [
        (R, '    def _parse_rule(self, rule: str) -> t.Iterable[RulePart]:\n', '    @staticmethod\n    def _weigh(\n        static_weights: list[tuple[int, int]], argument_weights: list[int]\n    ) -> Weighting:\n        return Weighting(\n            -len(static_weights),\n            static_weights,\n            -len(argument_weights),\n            argument_weights,\n        )\n\n    def _parse_rule(self, rule: str) -> t.Iterable[RulePart]:\n'),
        (R, '                    weight = Weighting(\n                        -len(static_weights),\n                        static_weights,\n                        -len(argument_weights),\n                        argument_weights,\n                    )\n                    yield RulePart(\n                        content=content,\n                        final=final,\n                        static=static,\n                        suffixed=False,\n                        weight=weight,\n                    )\n', '                    yield RulePart(\n                        content=content,\n                        final=final,\n                        static=static,\n                        suffixed=False,\n                        weight=self._weigh(static_weights, argument_weights),\n                    )\n'),
        (R, '        weight = Weighting(\n            -len(static_weights),\n            static_weights,\n            -len(argument_weights),\n            argument_weights,\n        )\n        yield RulePart(\n            content=content,\n            final=final,\n            static=static,\n            suffixed=suffixed,\n            weight=weight,\n        )\n', '        weight = self._weigh(static_weights, argument_weights)\n        yield RulePart(\n            content=content,\n            final=final,\n            static=static,\n            suffixed=suffixed,\n            weight=weight,\n        )\n'),
    ]},
    {"name": "indep2-parse-rule-tail-split-yield-from", "edits": [
        (R, '        suffixed = False\n        if final and content[-1] == "/":\n            # If a converter is part_isolating=False (matches slashes) and ends with a\n            # slash, augment the regex to support slash redirects.\n            suffixed = True\n            content = content[:-1] + "(?<!/)(/?)"\n        if not static:\n            content += r"\\Z"\n        weight = Weighting(\n            -len(static_weights),\n            static_weights,\n            -len(argument_weights),\n            argument_weights,\n        )\n        yield RulePart(\n            content=content,\n            final=final,\n            static=static,\n            suffixed=suffixed,\n            weight=weight,\n        )\n        if suffixed:\n            yield RulePart(\n                content="", final=False, static=True, suffixed=False, weight=weight\n            )\n', '        yield from self._last_parts(\n            content, static, final, static_weights, argument_weights\n        )\n\n    @staticmethod\n    def _last_parts(\n        content: str,\n        static: bool,\n        final: bool,\n        static_weights: list[tuple[int, int]],\n        argument_weights: list[int],\n    ) -> t.Iterator[RulePart]:\n        suffixed = final and content[-1] == "/"\n        if suffixed:\n            # If a converter is part_isolating=False (matches slashes) and ends with a\n            # slash, augment the regex to support slash redirects.\n            content = content[:-1] + "(?<!/)(/?)"\n        if not static:\n            content += r"\\Z"\n        weight = Weighting(\n            -len(static_weights),\n            static_weights,\n            -len(argument_weights),\n            argument_weights,\n        )\n        yield RulePart(\n            content=content,\n            final=final,\n            static=static,\n            suffixed=suffixed,\n            weight=weight,\n        )\n        if suffixed:\n            yield RulePart(\n                content="", final=False, static=True, suffixed=False, weight=weight\n            )\n'),
    ]},
    {"name": "indep2-nomatch-init-slots-zip-setattr", "edits": [
        (E, '        self.have_match_for = have_match_for\n        self.websocket_mismatch = websocket_mismatch\n', '        for slot, value in zip(\n            NoMatch.__slots__, (have_match_for, websocket_mismatch)\n        ):\n            setattr(self, slot, value)\n'),
    ]},
    {"name": "indep2-converters-weight-tuple-assign-class-body", "edits": [
        (C, '    regex = "[^/]+"\n    weight = 100\n    part_isolating = True\n', '    regex, weight, part_isolating = "[^/]+", 100, True\n'),
        (C, '    part_isolating = False\n    regex = "[^/].*?"\n    weight = 200\n', '    part_isolating, regex, weight = False, "[^/].*?", 200\n'),
    ]},
]

# a defect in each of those shapes
MUTANTS += [
    {"name": "filter-drops-method-mismatches-silently", "expect": "R3.2", "edits": [
        (M, 'from dataclasses import field\n', 'from dataclasses import field\nfrom itertools import filterfalse\nfrom operator import attrgetter\n'),
        (M, '                for rule in state.rules:\n                    if rule.strict_slashes:\n                        continue\n                    if rule.methods is not None and method not in rule.methods:\n', '                lenient_rules = filter(lambda r: not r.strict_slashes and (r.methods is None or method in r.methods), state.rules)\n                for rule in lenient_rules:\n                    if rule.methods is not None and method not in rule.methods:\n'),
    ]},
    {"name": "dispatch-table-websocket-first", "expect": "R3.3", "edits": [
        (P, '        except NoMatch as e:\n            if e.have_match_for:\n                raise MethodNotAllowed(valid_methods=list(e.have_match_for)) from None\n\n            if e.websocket_mismatch:\n                raise WebsocketMismatch() from None\n\n            raise NotFound() from None\n', '        except NoMatch as e:\n            outcomes = (\n                (e.websocket_mismatch, WebsocketMismatch),\n                (\n                    e.have_match_for,\n                    lambda: MethodNotAllowed(valid_methods=list(e.have_match_for)),\n                ),\n                (True, NotFound),\n            )\n            make_error = next(make for applies, make in outcomes if applies)\n            raise make_error() from None\n'),
    ]},
    {"name": "nomatch-zip-values-swapped", "expect": "R3.3", "edits": [
        (E, '        self.have_match_for = have_match_for\n        self.websocket_mismatch = websocket_mismatch\n', '        for slot, value in zip(\n            NoMatch.__slots__, (websocket_mismatch, have_match_for)\n        ):\n            setattr(self, slot, value)\n'),
    ]},
    {"name": "class-body-tuple-weight-too-small", "expect": "R3.1", "edits": [
        (C, '    regex = "[^/]+"\n    weight = 100\n    part_isolating = True\n', '    regex, weight, part_isolating = "[^/]+", 100, True\n'),
        (C, '    part_isolating = False\n    regex = "[^/].*?"\n    weight = 200\n', '    part_isolating, regex, weight = False, "[^/].*?", 100\n'),
    ]},
    {"name": "staticmethod-traversal-skips-static-children", "expect": "R3.1", "edits": [
        (M, 'from dataclasses import field\n', 'from dataclasses import field\nfrom itertools import chain\n'),
        (M, '        state = self._root\n\n        def _update_state(state: State) -> None:\n            state.dynamic.sort(key=lambda entry: entry[0].weight)\n            for new_state in state.static.values():\n                _update_state(new_state)\n            for _, new_state in state.dynamic:\n                _update_state(new_state)\n\n        _update_state(state)\n', '        self._order_transitions(self._root)\n\n    @staticmethod\n    def _order_transitions(state: State) -> None:\n        state.dynamic.sort(key=lambda entry: entry[0].weight)\n        children = chain((child for _, child in state.dynamic))\n        for child in children:\n            StateMachineMatcher._order_transitions(child)\n'),
    ]},
    {"name": "single-try-retry-ungated", "expect": "R3.6", "edits": [
        (M, '        try:\n            rv = _match(self._root, [domain, *path.split("/")], [])\n        except SlashRequired:\n            raise RequestPath(f"{path}/") from None\n\n        if self.merge_slashes and rv is None:\n            # Try to match again, but with slashes merged\n            path = re.sub("/{2,}?", "/", path)\n            try:\n                rv = _match(self._root, [domain, *path.split("/")], [])\n            except SlashRequired:\n                raise RequestPath(f"{path}/") from None\n            if rv is None or rv[0].merge_slashes is False:\n                raise NoMatch(have_match_for, websocket_mismatch)\n            else:\n                raise RequestPath(f"{path}")\n        elif rv is not None:\n            rule, values = rv\n\n            result = {}\n            for name, value in zip(rule._converters.keys(), values):\n                try:\n                    value = rule._converters[name].to_python(value)\n                except ValidationError:\n                    raise NoMatch(have_match_for, websocket_mismatch) from None\n                result[str(name)] = value\n            if rule.defaults:\n                result.update(rule.defaults)\n\n            if rule.alias and rule.map.redirect_defaults:\n                raise RequestAliasRedirect(result, rule.endpoint)\n\n            return rule, result\n\n        raise NoMatch(have_match_for, websocket_mismatch)\n', '        try:\n            rv = _match(self._root, [domain, *path.split("/")], [])\n            if rv is None:\n                # Try to match again, but with slashes merged\n                path = re.sub("/{2,}?", "/", path)\n                rv = _match(self._root, [domain, *path.split("/")], [])\n                if rv is None or rv[0].merge_slashes is False:\n                    raise NoMatch(have_match_for, websocket_mismatch)\n                raise RequestPath(f"{path}")\n        except SlashRequired:\n            raise RequestPath(f"{path}/") from None\n\n        rule, values = rv\n\n        result = {}\n        for name, value in zip(rule._converters.keys(), values):\n            try:\n                value = rule._converters[name].to_python(value)\n            except ValidationError:\n                raise NoMatch(have_match_for, websocket_mismatch) from None\n            result[str(name)] = value\n        if rule.defaults:\n            result.update(rule.defaults)\n\n        if rule.alias and rule.map.redirect_defaults:\n            raise RequestAliasRedirect(result, rule.endpoint)\n\n        return rule, result\n'),
    ]},
    {"name": "advance-helper-appends-state-first", "expect": "R3.1", "edits": [
        (M, '        state = self._root\n        for part in rule._parts:\n            if part.static:\n                state.static.setdefault(part.content, State())\n                state = state.static[part.content]\n            else:\n                for test_part, new_state in state.dynamic:\n                    if test_part == part:\n                        state = new_state\n                        break\n                else:\n                    new_state = State()\n                    state.dynamic.append((part, new_state))\n                    state = new_state\n        state.rules.append(rule)\n', '        state = self._root\n        for part in rule._parts:\n            state = self._advance(state, part)\n        state.rules.append(rule)\n\n    def _advance(self, state: State, part: RulePart) -> State:\n        """Return the state reached from *state* via *part*, creating it\n        if there is no such transition yet.\n        """\n        if part.static:\n            state.static.setdefault(part.content, State())\n            return state.static[part.content]\n\n        for test_part, new_state in state.dynamic:\n            if test_part == part:\n                return new_state\n\n        new_state = State()\n        state.dynamic.append((new_state, part))\n        return new_state\n'),
    ]},
]


# ======================================================================
# third independent round (half composite clean-ups, half single restructurings; four of twenty-four were not understood at first)
TWINS += [
    {"name": "indep3-match-exhausted-parts-sibling-closure", "edits": [
        (M, '        have_match_for = set()\n        websocket_mismatch = False\n\n        def _match(\n', '        have_match_for = set()\n        websocket_mismatch = False\n\n        def _match_exhausted(\n            state: State, values: list[str]\n        ) -> tuple[Rule, list[str]] | None:\n            # All parts have been matched via transitions. Hence if there\n            # is a rule with methods & websocket that work return it and\n            # the dynamic values extracted.\n            nonlocal websocket_mismatch\n\n            for rule in state.rules:\n                if rule.methods is not None and method not in rule.methods:\n                    have_match_for.update(rule.methods)\n                elif rule.websocket != websocket:\n                    websocket_mismatch = True\n                else:\n                    return rule, values\n\n            # Test if there is a match with this path with a\n            # trailing slash, if so raise an exception to report\n            # that matching is possible with an additional slash\n            if "" in state.static:\n                for rule in state.static[""].rules:\n                    if websocket == rule.websocket and (\n                        rule.methods is None or method in rule.methods\n                    ):\n                        if rule.strict_slashes:\n                            raise SlashRequired()\n                        else:\n                            return rule, values\n                    elif (\n                        not rule.strict_slashes\n                        and rule.methods is not None\n                        and method not in rule.methods\n                    ):\n                        have_match_for.update(rule.methods)\n            return None\n\n        def _match(\n'),
        (M, '            if parts == []:\n                for rule in state.rules:\n                    if rule.methods is not None and method not in rule.methods:\n                        have_match_for.update(rule.methods)\n                    elif rule.websocket != websocket:\n                        websocket_mismatch = True\n                    else:\n                        return rule, values\n\n                # Test if there is a match with this path with a\n                # trailing slash, if so raise an exception to report\n                # that matching is possible with an additional slash\n                if "" in state.static:\n                    for rule in state.static[""].rules:\n                        if websocket == rule.websocket and (\n                            rule.methods is None or method in rule.methods\n                        ):\n                            if rule.strict_slashes:\n                                raise SlashRequired()\n                            else:\n                                return rule, values\n                        elif (\n                            not rule.strict_slashes\n                            and rule.methods is not None\n                            and method not in rule.methods\n                        ):\n                            have_match_for.update(rule.methods)\n                return None\n', '            if parts == []:\n                return _match_exhausted(state, values)\n'),
    ]},
    {"name": "indep3-match-slash-probe-conditional-rules-demorgan-continue", "edits": [
        (M, '                if "" in state.static:\n                    for rule in state.static[""].rules:\n                        if websocket == rule.websocket and (\n                            rule.methods is None or method in rule.methods\n                        ):\n                            if rule.strict_slashes:\n                                raise SlashRequired()\n                            else:\n                                return rule, values\n                        elif (\n                            not rule.strict_slashes\n                            and rule.methods is not None\n                            and method not in rule.methods\n                        ):\n                            have_match_for.update(rule.methods)\n                return None\n', '                slash_rules = state.static[""].rules if "" in state.static else []\n                for rule in slash_rules:\n                    method_allowed = rule.methods is None or method in rule.methods\n                    if websocket != rule.websocket or not method_allowed:\n                        if not rule.strict_slashes and not method_allowed:\n                            have_match_for.update(rule.methods)\n                        continue\n                    if rule.strict_slashes:\n                        raise SlashRequired\n                    return rule, values\n                return None\n'),
    ]},
    {"name": "indep3-match-transition-candidates-generator", "edits": [
        (M, '            part = parts[0]\n            # To match this part try the static transitions first\n            if part in state.static:\n                rv = _match(state.static[part], parts[1:], values)\n                if rv is not None:\n                    return rv\n            # No match via the static transitions, so try the dynamic\n            # ones.\n            for test_part, new_state in state.dynamic:\n                target = part\n                remaining = parts[1:]\n                # A final part indicates a transition that always\n                # consumes the remaining parts i.e. transitions to a\n                # final state.\n                if test_part.final:\n                    target = "/".join(parts)\n                    remaining = []\n                match = re.compile(test_part.content).match(target)\n                if match is not None:\n                    if test_part.suffixed:\n                        # If a part_isolating=False part has a slash suffix, remove the\n                        # suffix from the match and check for the slash redirect next.\n                        suffix = match.groups()[-1]\n                        if suffix == "/":\n                            remaining = [""]\n\n                    converter_groups = sorted(\n                        match.groupdict().items(), key=lambda entry: entry[0]\n                    )\n                    groups = [\n                        value\n                        for key, value in converter_groups\n                        if key[:11] == "__werkzeug_"\n                    ]\n                    rv = _match(new_state, remaining, values + groups)\n                    if rv is not None:\n                        return rv\n', '            part = parts[0]\n\n            def _transitions() -> t.Iterator[tuple[State, list[str], list[str]]]:\n                # To match this part try the static transitions first\n                if part in state.static:\n                    yield state.static[part], parts[1:], values\n                # No match via the static transitions, so try the dynamic\n                # ones.\n                for test_part, new_state in state.dynamic:\n                    target = part\n                    remaining = parts[1:]\n                    # A final part indicates a transition that always\n                    # consumes the remaining parts i.e. transitions to a\n                    # final state.\n                    if test_part.final:\n                        target = "/".join(parts)\n                        remaining = []\n                    match = re.compile(test_part.content).match(target)\n                    if match is None:\n                        continue\n                    if test_part.suffixed:\n                        # If a part_isolating=False part has a slash suffix, remove the\n                        # suffix from the match and check for the slash redirect next.\n                        suffix = match.groups()[-1]\n                        if suffix == "/":\n                            remaining = [""]\n\n                    converter_groups = sorted(\n                        match.groupdict().items(), key=lambda entry: entry[0]\n                    )\n                    groups = [\n                        value\n                        for key, value in converter_groups\n                        if key[:11] == "__werkzeug_"\n                    ]\n                    yield new_state, remaining, values + groups\n\n            for next_state, next_parts, next_values in _transitions():\n                rv = _match(next_state, next_parts, next_values)\n                if rv is not None:\n                    return rv\n'),
    ]},
    {"name": "indep3-match-found-result-first-guard-clauses", "edits": [
        (M, '        if self.merge_slashes and rv is None:\n            # Try to match again, but with slashes merged\n            path = re.sub("/{2,}?", "/", path)\n            try:\n                rv = _match(self._root, [domain, *path.split("/")], [])\n            except SlashRequired:\n                raise RequestPath(f"{path}/") from None\n            if rv is None or rv[0].merge_slashes is False:\n                raise NoMatch(have_match_for, websocket_mismatch)\n            else:\n                raise RequestPath(f"{path}")\n        elif rv is not None:\n            rule, values = rv\n\n            result = {}\n            for name, value in zip(rule._converters.keys(), values):\n                try:\n                    value = rule._converters[name].to_python(value)\n                except ValidationError:\n                    raise NoMatch(have_match_for, websocket_mismatch) from None\n                result[str(name)] = value\n            if rule.defaults:\n                result.update(rule.defaults)\n\n            if rule.alias and rule.map.redirect_defaults:\n                raise RequestAliasRedirect(result, rule.endpoint)\n\n            return rule, result\n\n        raise NoMatch(have_match_for, websocket_mismatch)\n', '        if rv is not None:\n            rule, values = rv\n\n            result = {}\n            for name, value in zip(rule._converters.keys(), values):\n                try:\n                    value = rule._converters[name].to_python(value)\n                except ValidationError:\n                    raise NoMatch(have_match_for, websocket_mismatch) from None\n                result[str(name)] = value\n            if rule.defaults:\n                result.update(rule.defaults)\n\n            if rule.alias and rule.map.redirect_defaults:\n                raise RequestAliasRedirect(result, rule.endpoint)\n\n            return rule, result\n\n        if not self.merge_slashes:\n            raise NoMatch(have_match_for, websocket_mismatch)\n\n        # Try to match again, but with slashes merged\n        path = re.sub("/{2,}?", "/", path)\n        try:\n            rv = _match(self._root, [domain, *path.split("/")], [])\n        except SlashRequired:\n            raise RequestPath(f"{path}/") from None\n        if rv is None or rv[0].merge_slashes is False:\n            raise NoMatch(have_match_for, websocket_mismatch)\n        raise RequestPath(f"{path}")\n'),
    ]},
    {"name": "indep3-update-children-first-renames-direct-root", "edits": [
        (M, '        state = self._root\n\n        def _update_state(state: State) -> None:\n            state.dynamic.sort(key=lambda entry: entry[0].weight)\n            for new_state in state.static.values():\n                _update_state(new_state)\n            for _, new_state in state.dynamic:\n                _update_state(new_state)\n\n        _update_state(state)\n', '\n        def _update_state(state: State) -> None:\n            for child in state.static.values():\n                _update_state(child)\n            for _, child in state.dynamic:\n                _update_state(child)\n            state.dynamic.sort(key=lambda transition: transition[0].weight)\n\n        _update_state(self._root)\n'),
    ]},
    {"name": "indep3-adapter-nomatch-http-error-method-on-exception", "edits": [
        (E, 'from ..exceptions import HTTPException\n', 'from ..exceptions import HTTPException\nfrom ..exceptions import MethodNotAllowed\nfrom ..exceptions import NotFound\n'),
        (E, '        self.have_match_for = have_match_for\n        self.websocket_mismatch = websocket_mismatch\n', '        self.have_match_for = have_match_for\n        self.websocket_mismatch = websocket_mismatch\n\n    def http_error(self) -> HTTPException:\n        """The HTTP error that reports this failed match to the client."""\n        if self.have_match_for:\n            return MethodNotAllowed(valid_methods=list(self.have_match_for))\n\n        if self.websocket_mismatch:\n            return WebsocketMismatch()\n\n        return NotFound()\n'),
        (P, '        except NoMatch as e:\n            if e.have_match_for:\n                raise MethodNotAllowed(valid_methods=list(e.have_match_for)) from None\n\n            if e.websocket_mismatch:\n                raise WebsocketMismatch() from None\n\n            raise NotFound() from None\n', '        except NoMatch as e:\n            raise e.http_error() from None\n'),
    ]},
    {"name": "indep3-adapter-except-clauses-reordered-walrus-allowed-rename", "edits": [
        (P, '        except RequestPath as e:\n            # safe = https://url.spec.whatwg.org/#url-path-segment-string\n            new_path = quote(e.path_info, safe="!$&\'()*+,/:;=@")\n            raise RequestRedirect(\n                self.make_redirect_url(new_path, query_args)\n            ) from None\n        except RequestAliasRedirect as e:\n            raise RequestRedirect(\n                self.make_alias_redirect_url(\n                    f"{domain_part}|{path_part}",\n                    e.endpoint,\n                    e.matched_values,\n                    method,\n                    query_args,\n                )\n            ) from None\n        except NoMatch as e:\n            if e.have_match_for:\n                raise MethodNotAllowed(valid_methods=list(e.have_match_for)) from None\n\n            if e.websocket_mismatch:\n                raise WebsocketMismatch() from None\n\n            raise NotFound() from None\n', '        except NoMatch as no_match:\n            if allowed := no_match.have_match_for:\n                raise MethodNotAllowed(valid_methods=list(allowed)) from None\n\n            if no_match.websocket_mismatch:\n                raise WebsocketMismatch() from None\n\n            raise NotFound() from None\n        except RequestPath as e:\n            # safe = https://url.spec.whatwg.org/#url-path-segment-string\n            new_path = quote(e.path_info, safe="!$&\'()*+,/:;=@")\n            raise RequestRedirect(\n                self.make_redirect_url(new_path, query_args)\n            ) from None\n        except RequestAliasRedirect as e:\n            raise RequestRedirect(\n                self.make_alias_redirect_url(\n                    f"{domain_part}|{path_part}",\n                    e.endpoint,\n                    e.matched_values,\n                    method,\n                    query_args,\n                )\n            ) from None\n'),
    ]},
    {"name": "indep3-parse-rule-part-factory-closure", "edits": [
        (R, '        content = ""\n        static = True\n        argument_weights = []\n        static_weights: list[tuple[int, int]] = []\n        final = False\n        convertor_number = 0\n', '        content = ""\n        static = True\n        argument_weights = []\n        static_weights: list[tuple[int, int]] = []\n        final = False\n        convertor_number = 0\n\n        def _make_part(suffixed: bool = False) -> RulePart:\n            # Reads the enclosing locals at call time, i.e. describes the\n            # part that has been collected so far.\n            return RulePart(\n                content=content,\n                final=final,\n                static=static,\n                suffixed=suffixed,\n                weight=Weighting(\n                    -len(static_weights),\n                    static_weights,\n                    -len(argument_weights),\n                    argument_weights,\n                ),\n            )\n'),
        (R, '                    weight = Weighting(\n                        -len(static_weights),\n                        static_weights,\n                        -len(argument_weights),\n                        argument_weights,\n                    )\n                    yield RulePart(\n                        content=content,\n                        final=final,\n                        static=static,\n                        suffixed=False,\n                        weight=weight,\n                    )\n', '                    yield _make_part()\n'),
        (R, '        weight = Weighting(\n            -len(static_weights),\n            static_weights,\n            -len(argument_weights),\n            argument_weights,\n        )\n        yield RulePart(\n            content=content,\n            final=final,\n            static=static,\n            suffixed=suffixed,\n            weight=weight,\n        )\n        if suffixed:\n            yield RulePart(\n                content="", final=False, static=True, suffixed=False, weight=weight\n            )\n', '        last_part = _make_part(suffixed)\n        yield last_part\n        if suffixed:\n            yield RulePart(\n                content="",\n                final=False,\n                static=True,\n                suffixed=False,\n                weight=last_part.weight,\n            )\n'),
    ]},
    {"name": "indep3-parse-rule-weighting-classmethod-constructor", "edits": [
        (R, '    number_argument_weights: int\n    argument_weights: list[int]\n', '    number_argument_weights: int\n    argument_weights: list[int]\n\n    @classmethod\n    def from_weights(\n        cls, static_weights: list[tuple[int, int]], argument_weights: list[int]\n    ) -> Weighting:\n        """Weighting of a part, the counts are derived from the lists."""\n        return cls(\n            -len(static_weights),\n            static_weights,\n            -len(argument_weights),\n            argument_weights,\n        )\n'),
        (R, '                    weight = Weighting(\n                        -len(static_weights),\n                        static_weights,\n                        -len(argument_weights),\n                        argument_weights,\n                    )\n', '                    weight = Weighting.from_weights(static_weights, argument_weights)\n'),
        (R, '        weight = Weighting(\n            -len(static_weights),\n            static_weights,\n            -len(argument_weights),\n            argument_weights,\n        )\n', '        weight = Weighting.from_weights(static_weights, argument_weights)\n'),
    ]},
    {"name": "indep3-parse-rule-per-part-outer-loop", "edits": [
        (R, '        content = ""\n        static = True\n        argument_weights = []\n        static_weights: list[tuple[int, int]] = []\n        final = False\n        convertor_number = 0\n\n        pos = 0\n        while pos < len(rule):\n            match = _part_re.match(rule, pos)\n            if match is None:\n                raise ValueError(f"malformed url rule: {rule!r}")\n\n            data = match.groupdict()\n            if data["static"] is not None:\n                static_weights.append((len(static_weights), -len(data["static"])))\n                self._trace.append((False, data["static"]))\n                content += data["static"] if static else re.escape(data["static"])\n\n            if data["variable"] is not None:\n                if static:\n                    # Switching content to represent regex, hence the need to escape\n                    content = re.escape(content)\n                static = False\n                c_args, c_kwargs = parse_converter_args(data["arguments"] or "")\n                convobj = self.get_converter(\n                    data["variable"], data["converter"] or "default", c_args, c_kwargs\n                )\n                self._converters[data["variable"]] = convobj\n                self.arguments.add(data["variable"])\n                if not convobj.part_isolating:\n                    final = True\n                content += f"(?P<__werkzeug_{convertor_number}>{convobj.regex})"\n                convertor_number += 1\n                argument_weights.append(convobj.weight)\n                self._trace.append((True, data["variable"]))\n\n            if data["slash"] is not None:\n                self._trace.append((False, "/"))\n                if final:\n                    content += "/"\n                else:\n                    if not static:\n                        content += r"\\Z"\n                    weight = Weighting(\n                        -len(static_weights),\n                        static_weights,\n                        -len(argument_weights),\n                        argument_weights,\n                    )\n                    yield RulePart(\n                        content=content,\n                        final=final,\n                        static=static,\n                        suffixed=False,\n                        weight=weight,\n                    )\n                    content = ""\n                    static = True\n                    argument_weights = []\n                    static_weights = []\n                    final = False\n                    convertor_number = 0\n\n            pos = match.end()\n', '        pos = 0\n        end = len(rule)\n        while True:\n            # State of the part that is currently being collected.\n            content = ""\n            static = True\n            argument_weights: list[int] = []\n            static_weights: list[tuple[int, int]] = []\n            final = False\n            convertor_number = 0\n            part_complete = False\n\n            while pos < end and not part_complete:\n                match = _part_re.match(rule, pos)\n                if match is None:\n                    raise ValueError(f"malformed url rule: {rule!r}")\n\n                data = match.groupdict()\n                if data["static"] is not None:\n                    static_weights.append((len(static_weights), -len(data["static"])))\n                    self._trace.append((False, data["static"]))\n                    content += data["static"] if static else re.escape(data["static"])\n\n                if data["variable"] is not None:\n                    if static:\n                        # Switching content to represent regex, hence the need to\n                        # escape\n                        content = re.escape(content)\n                    static = False\n                    c_args, c_kwargs = parse_converter_args(data["arguments"] or "")\n                    convobj = self.get_converter(\n                        data["variable"],\n                        data["converter"] or "default",\n                        c_args,\n                        c_kwargs,\n                    )\n                    self._converters[data["variable"]] = convobj\n                    self.arguments.add(data["variable"])\n                    if not convobj.part_isolating:\n                        final = True\n                    content += f"(?P<__werkzeug_{convertor_number}>{convobj.regex})"\n                    convertor_number += 1\n                    argument_weights.append(convobj.weight)\n                    self._trace.append((True, data["variable"]))\n\n                if data["slash"] is not None:\n                    self._trace.append((False, "/"))\n                    if final:\n                        content += "/"\n                    else:\n                        part_complete = True\n\n                pos = match.end()\n\n            if not part_complete:\n                # Ran out of input, what was collected is the last part.\n                break\n\n            if not static:\n                content += r"\\Z"\n            weight = Weighting(\n                -len(static_weights),\n                static_weights,\n                -len(argument_weights),\n                argument_weights,\n            )\n            yield RulePart(\n                content=content,\n                final=final,\n                static=static,\n                suffixed=False,\n                weight=weight,\n            )\n'),
    ]},
]

# a defect in each of the shapes that needed work
MUTANTS += [
    {"name": "generator-yields-static-candidate-last", "expect": "R3.1", "edits": [
        (M, '            part = parts[0]\n            # To match this part try the static transitions first\n            if part in state.static:\n                rv = _match(state.static[part], parts[1:], values)\n                if rv is not None:\n                    return rv\n            # No match via the static transitions, so try the dynamic\n            # ones.\n            for test_part, new_state in state.dynamic:\n                target = part\n                remaining = parts[1:]\n                # A final part indicates a transition that always\n                # consumes the remaining parts i.e. transitions to a\n                # final state.\n                if test_part.final:\n                    target = "/".join(parts)\n                    remaining = []\n                match = re.compile(test_part.content).match(target)\n                if match is not None:\n                    if test_part.suffixed:\n                        # If a part_isolating=False part has a slash suffix, remove the\n                        # suffix from the match and check for the slash redirect next.\n                        suffix = match.groups()[-1]\n                        if suffix == "/":\n                            remaining = [""]\n\n                    converter_groups = sorted(\n                        match.groupdict().items(), key=lambda entry: entry[0]\n                    )\n                    groups = [\n                        value\n                        for key, value in converter_groups\n                        if key[:11] == "__werkzeug_"\n                    ]\n                    rv = _match(new_state, remaining, values + groups)\n                    if rv is not None:\n                        return rv\n', '            part = parts[0]\n\n            def _transitions() -> t.Iterator[tuple[State, list[str], list[str]]]:\n                # To match this part try the static transitions first\n                # No match via the static transitions, so try the dynamic\n                # ones.\n                for test_part, new_state in state.dynamic:\n                    target = part\n                    remaining = parts[1:]\n                    # A final part indicates a transition that always\n                    # consumes the remaining parts i.e. transitions to a\n                    # final state.\n                    if test_part.final:\n                        target = "/".join(parts)\n                        remaining = []\n                    match = re.compile(test_part.content).match(target)\n                    if match is None:\n                        continue\n                    if test_part.suffixed:\n                        # If a part_isolating=False part has a slash suffix, remove the\n                        # suffix from the match and check for the slash redirect next.\n                        suffix = match.groups()[-1]\n                        if suffix == "/":\n                            remaining = [""]\n\n                    converter_groups = sorted(\n                        match.groupdict().items(), key=lambda entry: entry[0]\n                    )\n                    groups = [\n                        value\n                        for key, value in converter_groups\n                        if key[:11] == "__werkzeug_"\n                    ]\n                    yield new_state, remaining, values + groups\n                if part in state.static:\n                    yield state.static[part], parts[1:], values\n\n            for next_state, next_parts, next_values in _transitions():\n                rv = _match(next_state, next_parts, next_values)\n                if rv is not None:\n                    return rv\n'),
    ]},
    {"name": "generator-dynamic-candidates-reversed", "expect": "R3.1", "edits": [
        (M, '            part = parts[0]\n            # To match this part try the static transitions first\n            if part in state.static:\n                rv = _match(state.static[part], parts[1:], values)\n                if rv is not None:\n                    return rv\n            # No match via the static transitions, so try the dynamic\n            # ones.\n            for test_part, new_state in state.dynamic:\n                target = part\n                remaining = parts[1:]\n                # A final part indicates a transition that always\n                # consumes the remaining parts i.e. transitions to a\n                # final state.\n                if test_part.final:\n                    target = "/".join(parts)\n                    remaining = []\n                match = re.compile(test_part.content).match(target)\n                if match is not None:\n                    if test_part.suffixed:\n                        # If a part_isolating=False part has a slash suffix, remove the\n                        # suffix from the match and check for the slash redirect next.\n                        suffix = match.groups()[-1]\n                        if suffix == "/":\n                            remaining = [""]\n\n                    converter_groups = sorted(\n                        match.groupdict().items(), key=lambda entry: entry[0]\n                    )\n                    groups = [\n                        value\n                        for key, value in converter_groups\n                        if key[:11] == "__werkzeug_"\n                    ]\n                    rv = _match(new_state, remaining, values + groups)\n                    if rv is not None:\n                        return rv\n', '            part = parts[0]\n\n            def _transitions() -> t.Iterator[tuple[State, list[str], list[str]]]:\n                # To match this part try the static transitions first\n                if part in state.static:\n                    yield state.static[part], parts[1:], values\n                # No match via the static transitions, so try the dynamic\n                # ones.\n                for test_part, new_state in reversed(state.dynamic):\n                    target = part\n                    remaining = parts[1:]\n                    # A final part indicates a transition that always\n                    # consumes the remaining parts i.e. transitions to a\n                    # final state.\n                    if test_part.final:\n                        target = "/".join(parts)\n                        remaining = []\n                    match = re.compile(test_part.content).match(target)\n                    if match is None:\n                        continue\n                    if test_part.suffixed:\n                        # If a part_isolating=False part has a slash suffix, remove the\n                        # suffix from the match and check for the slash redirect next.\n                        suffix = match.groups()[-1]\n                        if suffix == "/":\n                            remaining = [""]\n\n                    converter_groups = sorted(\n                        match.groupdict().items(), key=lambda entry: entry[0]\n                    )\n                    groups = [\n                        value\n                        for key, value in converter_groups\n                        if key[:11] == "__werkzeug_"\n                    ]\n                    yield new_state, remaining, values + groups\n\n            for next_state, next_parts, next_values in _transitions():\n                rv = _match(next_state, next_parts, next_values)\n                if rv is not None:\n                    return rv\n'),
    ]},
    {"name": "generator-consumer-keeps-last-result", "expect": "R3.1", "edits": [
        (M, '            part = parts[0]\n            # To match this part try the static transitions first\n            if part in state.static:\n                rv = _match(state.static[part], parts[1:], values)\n                if rv is not None:\n                    return rv\n            # No match via the static transitions, so try the dynamic\n            # ones.\n            for test_part, new_state in state.dynamic:\n                target = part\n                remaining = parts[1:]\n                # A final part indicates a transition that always\n                # consumes the remaining parts i.e. transitions to a\n                # final state.\n                if test_part.final:\n                    target = "/".join(parts)\n                    remaining = []\n                match = re.compile(test_part.content).match(target)\n                if match is not None:\n                    if test_part.suffixed:\n                        # If a part_isolating=False part has a slash suffix, remove the\n                        # suffix from the match and check for the slash redirect next.\n                        suffix = match.groups()[-1]\n                        if suffix == "/":\n                            remaining = [""]\n\n                    converter_groups = sorted(\n                        match.groupdict().items(), key=lambda entry: entry[0]\n                    )\n                    groups = [\n                        value\n                        for key, value in converter_groups\n                        if key[:11] == "__werkzeug_"\n                    ]\n                    rv = _match(new_state, remaining, values + groups)\n                    if rv is not None:\n                        return rv\n', '            part = parts[0]\n\n            def _transitions() -> t.Iterator[tuple[State, list[str], list[str]]]:\n                # To match this part try the static transitions first\n                if part in state.static:\n                    yield state.static[part], parts[1:], values\n                # No match via the static transitions, so try the dynamic\n                # ones.\n                for test_part, new_state in state.dynamic:\n                    target = part\n                    remaining = parts[1:]\n                    # A final part indicates a transition that always\n                    # consumes the remaining parts i.e. transitions to a\n                    # final state.\n                    if test_part.final:\n                        target = "/".join(parts)\n                        remaining = []\n                    match = re.compile(test_part.content).match(target)\n                    if match is None:\n                        continue\n                    if test_part.suffixed:\n                        # If a part_isolating=False part has a slash suffix, remove the\n                        # suffix from the match and check for the slash redirect next.\n                        suffix = match.groups()[-1]\n                        if suffix == "/":\n                            remaining = [""]\n\n                    converter_groups = sorted(\n                        match.groupdict().items(), key=lambda entry: entry[0]\n                    )\n                    groups = [\n                        value\n                        for key, value in converter_groups\n                        if key[:11] == "__werkzeug_"\n                    ]\n                    yield new_state, remaining, values + groups\n\n            found = None\n            for next_state, next_parts, next_values in _transitions():\n                rv = _match(next_state, next_parts, next_values)\n                if rv is not None:\n                    found = rv\n            if found is not None:\n                return found\n'),
    ]},
    {"name": "exception-method-websocket-before-methods", "expect": "R3.3", "edits": [
        (E, 'from ..exceptions import HTTPException\n', 'from ..exceptions import HTTPException\nfrom ..exceptions import MethodNotAllowed\nfrom ..exceptions import NotFound\n'),
        (E, '        self.have_match_for = have_match_for\n        self.websocket_mismatch = websocket_mismatch\n', '        self.have_match_for = have_match_for\n        self.websocket_mismatch = websocket_mismatch\n\n    def http_error(self) -> HTTPException:\n        """The HTTP error that reports this failed match to the client."""\n        if self.websocket_mismatch:\n            return WebsocketMismatch()\n\n        if self.have_match_for:\n            return MethodNotAllowed(valid_methods=list(self.have_match_for))\n\n        return NotFound()\n'),
        (P, '        except NoMatch as e:\n            if e.have_match_for:\n                raise MethodNotAllowed(valid_methods=list(e.have_match_for)) from None\n\n            if e.websocket_mismatch:\n                raise WebsocketMismatch() from None\n\n            raise NotFound() from None\n', '        except NoMatch as e:\n            raise e.http_error() from None\n'),
    ]},
    {"name": "alternative-constructor-positive-count", "expect": "R3.1", "edits": [
        (R, '    number_argument_weights: int\n    argument_weights: list[int]\n', '    number_argument_weights: int\n    argument_weights: list[int]\n\n    @classmethod\n    def from_weights(\n        cls, static_weights: list[tuple[int, int]], argument_weights: list[int]\n    ) -> Weighting:\n        """Weighting of a part, the counts are derived from the lists."""\n        return cls(\n            len(static_weights),\n            static_weights,\n            -len(argument_weights),\n            argument_weights,\n        )\n'),
        (R, '                    weight = Weighting(\n                        -len(static_weights),\n                        static_weights,\n                        -len(argument_weights),\n                        argument_weights,\n                    )\n', '                    weight = Weighting.from_weights(static_weights, argument_weights)\n'),
        (R, '        weight = Weighting(\n            -len(static_weights),\n            static_weights,\n            -len(argument_weights),\n            argument_weights,\n        )\n', '        weight = Weighting.from_weights(static_weights, argument_weights)\n'),
    ]},
    {"name": "conditional-rules-records-strict-rules", "expect": "R3.2", "edits": [
        (M, '                if "" in state.static:\n                    for rule in state.static[""].rules:\n                        if websocket == rule.websocket and (\n                            rule.methods is None or method in rule.methods\n                        ):\n                            if rule.strict_slashes:\n                                raise SlashRequired()\n                            else:\n                                return rule, values\n                        elif (\n                            not rule.strict_slashes\n                            and rule.methods is not None\n                            and method not in rule.methods\n                        ):\n                            have_match_for.update(rule.methods)\n                return None\n', '                slash_rules = state.static[""].rules if "" in state.static else []\n                for rule in slash_rules:\n                    method_allowed = rule.methods is None or method in rule.methods\n                    if websocket != rule.websocket or not method_allowed:\n                        if not method_allowed:\n                            have_match_for.update(rule.methods)\n                        continue\n                    if rule.strict_slashes:\n                        raise SlashRequired\n                    return rule, values\n                return None\n'),
    ]},
]


# ======================================================================
# the traversal of update() must not skip a successor that has transitions below it (a guard that skips leaf states only is harmless)

_DYN_DESCENT = "            for _, new_state in state.dynamic:\n                _update_state(new_state)\n"
_SORT_LINE = "            state.dynamic.sort(key=lambda entry: entry[0].weight)\n            for new_state in state.static.values():\n"
_WORKLIST = (
    "        pending = [state]\n"
    "        while pending:\n"
    "            current = pending.pop()\n"
    "            current.dynamic.sort(key=lambda entry: entry[0].weight)\n"
    "            pending.extend(current.static.values())\n"
    "            pending.extend(target for _, target in current.dynamic)\n"
)

MUTANTS += [
    {"name": "descent-only-into-states-with-dynamic-transitions", "expect": "R3.1", "edits": [(M, _DYN_DESCENT, "            for _, new_state in state.dynamic:\n                if new_state.dynamic:\n                    _update_state(new_state)\n")]},
    {"name": "traversal-step-returns-early-without-dynamic", "expect": "R3.1", "edits": [(M, _SORT_LINE, "            if not state.dynamic:\n                return\n" + _SORT_LINE)]},
    {"name": "worklist-static-successors-only-behind-dynamic", "expect": "R3.1", "edits": [(M, _UPDATE_BODY, _WORKLIST.replace("            pending.extend(current.static.values())\n", "            if current.dynamic:\n                pending.extend(current.static.values())\n"))]},
]

TWINS += [
    {"name": "descent-skips-only-leaf-states", "edits": [(M, _DYN_DESCENT, "            for _, new_state in state.dynamic:\n                if new_state.dynamic or new_state.static:\n                    _update_state(new_state)\n")]},
    {"name": "traversal-step-returns-early-on-leaf", "edits": [(M, _SORT_LINE, "            if not state.dynamic and len(state.static) == 0:\n                return\n" + _SORT_LINE)]},
]


# ======================================================================
# R3.7 / R3.8: what the parser writes at the end of a dynamic part's regex against how the matcher reads it

_LOOP_ANCHOR = '                    if not static:\n                        content += r"\\Z"\n'
_END_ANCHOR = '        if not static:\n            content += r"\\Z"\n        weight = Weighting(\n'
_AUG_TEST = '        if final and content[-1] == "/":\n'
_AUG_LINE = '            content = content[:-1] + "(?<!/)(/?)"\n'
_AUG_BLOCK = (
    '        suffixed = False\n'
    '        if final and content[-1] == "/":\n'
    "            # If a converter is part_isolating=False (matches slashes) and ends with a\n"
    "            # slash, augment the regex to support slash redirects.\n"
    "            suffixed = True\n"
    '            content = content[:-1] + "(?<!/)(/?)"\n'
)
_APPLY = "                match = re.compile(test_part.content).match(target)\n"
_PYTHONIZE = "def _pythonize(value: str) -> None | bool | int | float | str:\n"


def _close_helper(cond: str) -> str:
    return (
        "def _close_part(content: str, static: bool) -> str:\n"
        '    """The text of a finished part: a regex is anchored at the end of the segment."""\n'
        f'    return content + r"\\Z" if {cond} else content\n'
        "\n\n"
    )


MUTANTS += [
    {"name": "inner-part-loses-its-end-anchor", "expect": "R3.7", "edits": [(R, _LOOP_ANCHOR, "")]},
    {"name": "last-part-anchored-only-when-static", "expect": "R3.7", "edits": [(R, _END_ANCHOR, _END_ANCHOR.replace("if not static:", "if static:"))]},
    {"name": "inner-part-dollar-instead-of-end-anchor", "expect": "R3.7", "edits": [(R, _LOOP_ANCHOR, _LOOP_ANCHOR.replace('r"\\Z"', '"$"'))]},
    {"name": "end-anchor-written-as-escaped-backslash", "expect": "R3.7", "edits": [(R, _END_ANCHOR, _END_ANCHOR.replace('r"\\Z"', 'r"\\\\Z"'))]},
    {"name": "matcher-searches-the-part-regex", "expect": "R3.7", "edits": [(M, _APPLY, _APPLY.replace(".match(target)", ".search(target)"))]},
    {"name": "closing-helper-anchors-the-static-parts", "expect": "R3.7", "edits": [
        (R, _PYTHONIZE, _close_helper("static") + _PYTHONIZE),
        (R, _LOOP_ANCHOR, "                    content = _close_part(content, static)\n"),
        (R, _END_ANCHOR, "        content = _close_part(content, static)\n        weight = Weighting(\n"),
    ]},
    {"name": "fstring-puts-the-anchor-in-front", "expect": "R3.7", "edits": [(R, _LOOP_ANCHOR, '                    if not static:\n                        content = rf"\\Z{content}"\n')]},
    {"name": "all-anchors-gone-matcher-still-prefix-matches", "expect": "R3.7", "edits": [
        (R, _LOOP_ANCHOR, ""),
        (R, _END_ANCHOR, "        weight = Weighting(\n"),
    ]},
    # R3.8
    {"name": "slash-suffix-only-for-redirecting-rules", "expect": "R3.8", "edits": [
        (R, _AUG_BLOCK, "        redirectable = bool(self.strict_slashes)\n" + _AUG_BLOCK.replace("if final and content", "if final and redirectable and content")),
    ]},
    {"name": "suffixed-flag-without-the-regex-suffix", "expect": "R3.8", "edits": [(R, _AUG_LINE, "")]},
    {"name": "optional-slash-not-captured", "expect": "R3.8", "edits": [(R, _AUG_LINE, _AUG_LINE.replace("(/?)", "(?:/?)"))]},
    {"name": "slash-suffix-mandatory", "expect": "R3.8", "edits": [(R, _AUG_LINE, _AUG_LINE.replace("(/?)", "(/)"))]},
    {"name": "slash-suffix-test-inverted", "expect": "R3.8", "edits": [(R, _AUG_TEST, _AUG_TEST.replace("==", "!="))]},
    {"name": "slash-suffix-nested-under-merge-flag", "expect": "R3.8", "edits": [
        (R, _AUG_BLOCK,
         '        suffixed = False\n        if final and content[-1] == "/":\n            if self.merge_slashes:\n                suffixed = True\n                content = content[:-1] + "(?<!/)(/?)"\n'),
    ]},
]

TWINS += [
    {"name": "anchor-through-fstring", "edits": [(R, _LOOP_ANCHOR, '                    if not static:\n                        content = rf"{content}\\Z"\n')]},
    {"name": "anchor-through-closing-helper", "edits": [
        (R, _PYTHONIZE, _close_helper("not static") + _PYTHONIZE),
        (R, _LOOP_ANCHOR, "                    content = _close_part(content, static)\n"),
        (R, _END_ANCHOR, "        content = _close_part(content, static)\n        weight = Weighting(\n"),
    ]},
    {"name": "matcher-fullmatch-parser-without-anchors", "edits": [
        (M, _APPLY, _APPLY.replace(".match(target)", ".fullmatch(target)")),
        (R, _LOOP_ANCHOR, ""),
        (R, _END_ANCHOR, "        weight = Weighting(\n"),
    ]},
    {"name": "matcher-fullmatch-parser-keeps-anchors", "edits": [(M, _APPLY, _APPLY.replace(".match(target)", ".fullmatch(target)"))]},
    {"name": "anchor-through-conditional-expression", "edits": [
        (R, _LOOP_ANCHOR, '                    content += "" if static else r"\\Z"\n'),
        (R, _END_ANCHOR, '        content += r"\\Z" if not static else ""\n        weight = Weighting(\n'),
    ]},
    {"name": "matcher-module-level-re-match", "edits": [(M, _APPLY, "                match = re.match(test_part.content, target)\n")]},
    {"name": "matcher-pattern-through-local", "edits": [(M, _APPLY, "                pattern = re.compile(test_part.content)\n                match = pattern.match(target)\n")]},
    {"name": "anchor-through-module-constant", "edits": [
        (R, _PYTHONIZE, '_END_OF_SEGMENT = r"\\Z"\n\n\n' + _PYTHONIZE),
        (R, _LOOP_ANCHOR, "                    if not static:\n                        content += _END_OF_SEGMENT\n"),
        (R, _END_ANCHOR, "        if not static:\n            content += _END_OF_SEGMENT\n        weight = Weighting(\n"),
    ]},
    {"name": "anchor-through-join-and-percent", "edits": [
        (R, _LOOP_ANCHOR, '                    if not static:\n                        content = "".join([content, r"\\Z"])\n'),
        (R, _END_ANCHOR, '        if not static:\n            content = r"%s\\Z" % content\n        weight = Weighting(\n'),
    ]},
    {"name": "anchor-flag-tested-positively", "edits": [
        (R, _LOOP_ANCHOR, '                    if static:\n                        pass\n                    else:\n                        content = content + r"\\Z"\n'),
    ]},
    # R3.8
    {"name": "slash-suffix-flag-computed-first", "edits": [
        (R, _AUG_BLOCK, '        suffixed = final and content.endswith("/")\n        if suffixed:\n            content = content[:-1] + "(?<!/)(/?)"\n'),
    ]},
    {"name": "slash-suffix-through-removesuffix", "edits": [(R, _AUG_LINE, '            content = content.removesuffix("/") + "(?<!/)(/?)"\n')]},
    {"name": "slash-suffix-as-alternation", "edits": [(R, _AUG_LINE, _AUG_LINE.replace("(/?)", "(/|)"))]},
    {"name": "slash-suffix-in-two-steps", "edits": [(R, _AUG_LINE, '            content = content[:-1]\n            content += "(?<!/)(/?)"\n')]},
    {"name": "slash-suffix-trailing-slash-flag-local", "edits": [
        (R, _AUG_BLOCK,
         '        suffixed = False\n        ends_in_slash = content[-1:] == "/"\n        if final and ends_in_slash:\n            suffixed = True\n            content = content[:-1] + "(?<!/)(/?)"\n'),
    ]},
]

_PARSE_HEAD = "        convertor_number = 0\n\n        pos = 0\n        while pos < len(rule):\n"
_LOOP_YIELD = (
    "                    yield RulePart(\n"
    "                        content=content,\n"
    "                        final=final,\n"
    "                        static=static,\n"
    "                        suffixed=False,\n"
    "                        weight=weight,\n"
    "                    )\n"
)
_MATCHER_IMPORTS = "from dataclasses import dataclass\n"


def _closed_closure(cond: str) -> str:
    return (
        "        convertor_number = 0\n\n"
        "        def _closed() -> str:\n"
        f'            return content if {cond} else content + r"\\Z"\n'
        "\n"
        "        pos = 0\n        while pos < len(rule):\n"
    )


_ANCHOR_CLOSURE = (
    "        convertor_number = 0\n\n"
    "        def _anchor() -> None:\n"
    "            nonlocal content\n"
    "            if not static:\n"
    '                content += r"\\Z"\n'
    "\n"
    "        pos = 0\n        while pos < len(rule):\n"
)

MUTANTS += [
    {"name": "closing-closure-anchors-the-static-parts", "expect": "R3.7", "edits": [
        (R, _PARSE_HEAD, _closed_closure("not static")),
        (R, _LOOP_ANCHOR, "                    content = _closed()\n"),
        (R, _END_ANCHOR, "        content = _closed()\n        weight = Weighting(\n"),
    ]},
    {"name": "cached-compile-then-search", "expect": "R3.7", "edits": [
        (M, _MATCHER_IMPORTS, _MATCHER_IMPORTS + "from functools import lru_cache\n"),
        (M, "class SlashRequired(Exception):\n", "_compile = lru_cache(maxsize=None)(re.compile)\n\n\nclass SlashRequired(Exception):\n"),
        (M, _APPLY, "                match = _compile(test_part.content).search(target)\n"),
    ]},
    {"name": "nonlocal-anchor-closure-called-only-for-last-part", "expect": "R3.7", "edits": [
        (R, _PARSE_HEAD, _ANCHOR_CLOSURE),
        (R, _LOOP_ANCHOR, ""),
        (R, _END_ANCHOR, "        _anchor()\n        weight = Weighting(\n"),
    ]},
]

TWINS += [
    {"name": "anchor-through-reading-closure", "edits": [
        (R, _PARSE_HEAD, _closed_closure("static")),
        (R, _LOOP_ANCHOR, "                    content = _closed()\n"),
        (R, _END_ANCHOR, "        content = _closed()\n        weight = Weighting(\n"),
    ]},
    {"name": "anchor-through-nonlocal-closure", "edits": [
        (R, _PARSE_HEAD, _ANCHOR_CLOSURE),
        (R, _LOOP_ANCHOR, "                    _anchor()\n"),
        (R, _END_ANCHOR, "        _anchor()\n        weight = Weighting(\n"),
    ]},
    {"name": "inner-part-built-positionally", "edits": [(R, _LOOP_YIELD, "                    yield RulePart(content, final, static, False, weight)\n")]},
    {"name": "matcher-cached-compile-alias", "edits": [
        (M, _MATCHER_IMPORTS, _MATCHER_IMPORTS + "from functools import lru_cache\n"),
        (M, "class SlashRequired(Exception):\n", "_compile = lru_cache(maxsize=None)(re.compile)\n\n\nclass SlashRequired(Exception):\n"),
        (M, _APPLY, "                match = _compile(test_part.content).match(target)\n"),
    ]},
    {"name": "matcher-cached-compile-helper", "edits": [
        (M, _MATCHER_IMPORTS, _MATCHER_IMPORTS + "from functools import lru_cache\n"),
        (M, "class SlashRequired(Exception):\n", "@lru_cache(maxsize=None)\ndef _compiled(pattern: str) -> re.Pattern[str]:\n    return re.compile(pattern)\n\n\nclass SlashRequired(Exception):\n"),
        (M, _APPLY, "                match = _compiled(test_part.content).match(target)\n"),
    ]},
]


# ======================================================================
# round 3: (a) the two loops over `state.rules` merged into one helper that each call site feeds with its own candidates
# (the fallback site with a *filtered* iteration), the rule found followed through the call site; (b) the traversal of
# update() handing on a successor list that is built up front, statement by statement

_FALLBACK_LOOP = '            if parts == [""]:\n                for rule in state.rules:\n' + _LOOP2


def _fallback_site(arg: str, test: str = "hit is not None") -> str:
    return (
        '            if parts == [""]:\n'
        f"                hit = _first_usable({arg})\n"
        f"                if {test}:\n"
        "                    return hit, values\n"
    )


_SHARED = [(M, _LOOP1, _HELPER_CALL), (M, "        def _match(\n", _HELPER.replace("rules: list[Rule]", "rules: t.Iterable[Rule]"))]
_NOT_STRICT_GEN = "candidate for candidate in state.rules if not candidate.strict_slashes"
_PAIR_HELPER = (
    "        def _first_usable(rules: t.Iterable[Rule], found: list[str]) -> tuple[Rule, list[str]] | None:\n"
    "            nonlocal websocket_mismatch\n"
    "            for rule in rules:\n"
    "                if rule.methods is None or method in rule.methods:\n"
    "                    if rule.websocket == websocket:\n"
    "                        return rule, found\n"
    "                    websocket_mismatch = True\n"
    "                else:\n"
    "                    have_match_for.update(rule.methods)\n"
    "            return None\n"
    "\n"
    "        def _match(\n"
)


def _below(fill: str) -> str:
    return (
        "        def _update_state(state: State) -> None:\n"
        "            state.dynamic.sort(key=lambda entry: entry[0].weight)\n"
        + fill +
        "            for new_state in below:\n"
        "                _update_state(new_state)\n"
        "\n"
        "        _update_state(state)\n"
    )


_BELOW_EXTEND = "            below = list(state.static.values())\n            below.extend(target for _, target in state.dynamic)\n"
_BELOW_APPEND = (
    "            below: list[State] = []\n"
    "            for following in state.static.values():\n"
    "                below.append(following)\n"
    "            for _, following in state.dynamic:\n"
    "                below.append(following)\n"
)
_SORT_BELOW_METHOD = (
    "    def _sort_below(self, state: State) -> None:\n"
    "        state.dynamic.sort(key=lambda entry: entry[0].weight)\n"
    "        todo = [target for _, target in state.dynamic]\n"
    "        todo += state.static.values()\n"
    "        for successor in todo:\n"
    "            self._sort_below(successor)\n"
    "\n"
)
_MATCH_DEF = "    def match(\n        self, domain: str, path: str, method: str, websocket: bool\n"

MUTANTS += [
    # (a)
    {"name": "shared-helper-fallback-site-unfiltered-strictness-tested-after", "expect": "R3.2", "edits": [
        *_SHARED, (M, _FALLBACK_LOOP, _fallback_site("state.rules", "hit is not None and not hit.strict_slashes"))]},
    {"name": "shared-helper-forgets-methods-at-both-sites", "expect": "R3.2", "edits": [
        (M, _LOOP1, _HELPER_CALL), (M, "        def _match(\n", _HELPER.replace("                    have_match_for.update(rule.methods)\n", "                    pass\n")),
        (M, _FALLBACK_LOOP, _fallback_site(_NOT_STRICT_GEN))]},
    {"name": "shared-helper-result-dropped-at-fallback-site", "expect": "R3.2", "edits": [
        *_SHARED, (M, _FALLBACK_LOOP, '            if parts == [""]:\n                _first_usable(' + _NOT_STRICT_GEN + ")\n")]},
    {"name": "shared-helper-fallback-filter-on-methods-records-strict-rules", "expect": "R3.2", "edits": [
        *_SHARED, (M, _FALLBACK_LOOP, _fallback_site("filter(lambda r: r.methods is not None, state.rules)", "hit is not None and not hit.strict_slashes"))]},
    # (b)
    {"name": "successor-list-dynamic-targets-only-behind-static", "expect": "R3.1", "edits": [(M, _UPDATE_BODY, _below(
        "            below = list(state.static.values())\n            if below:\n                below.extend(target for _, target in state.dynamic)\n"))]},
    {"name": "successor-list-forgets-dynamic-targets", "expect": "R3.1", "edits": [(M, _UPDATE_BODY, _below("            below = list(state.static.values())\n"))]},
    {"name": "successor-list-collects-parts-not-states", "expect": "R3.1", "edits": [(M, _UPDATE_BODY, _below(_BELOW_EXTEND.replace("target for _, target in", "part for part, _ in")))]},
    {"name": "successor-list-filter-drops-states-without-dynamic", "expect": "R3.1", "edits": [(M, _UPDATE_BODY, _below(_BELOW_EXTEND.replace("in state.dynamic)", "in state.dynamic if target.dynamic)")))]},
    {"name": "successor-list-static-loop-appends-nothing-it-was-given", "expect": "R3.1", "edits": [(M, _UPDATE_BODY, _below(_BELOW_APPEND.replace(
        "            for following in state.static.values():\n                below.append(following)\n", "")))]},
    {"name": "sort-below-method-augassign-keys-not-states", "expect": "R3.1", "edits": [
        (M, _UPDATE_BODY, "        self._sort_below(state)\n"), (M, _MATCH_DEF, _SORT_BELOW_METHOD.replace("todo += state.static.values()", "todo += state.static.keys()") + _MATCH_DEF)]},
]

TWINS += [
    # (a)
    {"name": "shared-helper-fallback-site-generator-filter", "edits": [*_SHARED, (M, _FALLBACK_LOOP, _fallback_site(_NOT_STRICT_GEN))]},
    {"name": "shared-helper-fallback-site-builtin-filter-walrus", "edits": [*_SHARED, (M, _FALLBACK_LOOP,
        '            if parts == [""]:\n'
        "                if (hit := _first_usable(filter(lambda r: not r.strict_slashes, state.rules))) is not None:\n"
        "                    return hit, values\n")]},
    {"name": "shared-helper-fallback-site-list-comprehension-keyword", "edits": [*_SHARED, (M, _FALLBACK_LOOP,
        _fallback_site("rules=[r for r in state.rules if not r.strict_slashes]", "hit is None") .replace("                    return hit, values\n", "                    return None\n                return hit, values\n"))]},
    {"name": "shared-helper-fallback-site-local-candidates", "edits": [*_SHARED, (M, _FALLBACK_LOOP,
        '            if parts == [""]:\n'
        "                lenient = (r for r in state.rules if r.strict_slashes is False or not r.strict_slashes)\n"
        "                hit = _first_usable(lenient)\n"
        "                if hit:\n"
        "                    return hit, values\n")]},
    {"name": "shared-helper-returns-the-pair", "edits": [
        (M, _LOOP1, "                pair = _first_usable(state.rules, values)\n                if pair is not None:\n                    return pair\n\n                # Test if there is a match with this path with a\n"),
        (M, "        def _match(\n", _PAIR_HELPER),
        (M, _FALLBACK_LOOP, '            if parts == [""]:\n                return _first_usable((r for r in state.rules if not r.strict_slashes), values)\n')]},
    {"name": "shared-helper-strictness-tested-at-the-site-too", "edits": [*_SHARED, (M, _FALLBACK_LOOP, _fallback_site(_NOT_STRICT_GEN, "hit is not None and not hit.strict_slashes"))]},
    {"name": "converters-iterated-as-items", "edits": [(M,
        "            for name, value in zip(rule._converters.keys(), values):\n                try:\n                    value = rule._converters[name].to_python(value)\n",
        "            for (name, converter), raw in zip(rule._converters.items(), values):\n                try:\n                    value = converter.to_python(raw)\n")]},
    # (b)
    {"name": "successor-list-assigned-then-extended", "edits": [(M, _UPDATE_BODY, _below(_BELOW_EXTEND))]},
    {"name": "successor-list-filled-by-append-loops", "edits": [(M, _UPDATE_BODY, _below(_BELOW_APPEND))]},
    {"name": "successor-list-filter-drops-leaves-only", "edits": [(M, _UPDATE_BODY, _below(_BELOW_EXTEND.replace("in state.dynamic)", "in state.dynamic if target.dynamic or len(target.static) > 0)")))]},
    {"name": "sort-below-method-dynamic-first-augassign", "edits": [(M, _UPDATE_BODY, "        self._sort_below(state)\n"), (M, _MATCH_DEF, _SORT_BELOW_METHOD + _MATCH_DEF)]},
    {"name": "successor-list-unconditional-behind-leaf-exit", "edits": [(M, _UPDATE_BODY, _below(
        "            if not state.static and not state.dynamic:\n                return\n" + _BELOW_EXTEND))]},
]

# the helper skips strict rules itself when the call site asks for it (a constant argument), or iterates an expression of its parameter
_FLAG_HELPER = (
    "        def _first_usable(rules: list[Rule], lenient_only: bool = False) -> Rule | None:\n"
    "            nonlocal websocket_mismatch\n"
    "            for rule in rules:\n"
    "                if lenient_only and rule.strict_slashes:\n"
    "                    continue\n"
    "                if rule.methods is not None and method not in rule.methods:\n"
    "                    have_match_for.update(rule.methods)\n"
    "                elif rule.websocket != websocket:\n"
    "                    websocket_mismatch = True\n"
    "                else:\n"
    "                    return rule\n"
    "            return None\n"
    "\n"
    "        def _match(\n"
)
_FLAG_SKIP = "                if lenient_only and rule.strict_slashes:\n                    continue\n"

MUTANTS += [
    {"name": "shared-helper-flag-strictness-skipped-after-recording", "expect": "R3.2", "edits": [
        (M, _LOOP1, _HELPER_CALL),
        (M, "        def _match(\n", _FLAG_HELPER.replace(_FLAG_SKIP, "").replace("                elif rule.websocket != websocket:\n", _FLAG_SKIP.replace("if lenient_only", "elif lenient_only").replace("continue", "pass") + "                elif rule.websocket != websocket:\n")),
        (M, _FALLBACK_LOOP, _fallback_site("state.rules, lenient_only=True"))]},
    {"name": "shared-helper-flag-not-set-at-fallback-site", "expect": "R3.2", "edits": [
        (M, _LOOP1, _HELPER_CALL), (M, "        def _match(\n", _FLAG_HELPER),
        (M, _FALLBACK_LOOP, _fallback_site("state.rules, lenient_only=False", "hit is not None and not hit.strict_slashes"))]},
]

TWINS += [
    {"name": "shared-helper-flag-selects-lenient-rules", "edits": [
        (M, _LOOP1, _HELPER_CALL), (M, "        def _match(\n", _FLAG_HELPER), (M, _FALLBACK_LOOP, _fallback_site("state.rules, lenient_only=True"))]},
    {"name": "shared-helper-iterates-an-expression-of-its-parameter", "edits": [
        (M, _LOOP1, _HELPER_CALL), (M, "        def _match(\n", _HELPER.replace("rules: list[Rule]", "rules: t.Iterable[Rule]").replace("for rule in rules:", "for rule in iter(rules):")),
        (M, _FALLBACK_LOOP, _fallback_site(_NOT_STRICT_GEN))]},
]

# ---- round 4: rule flags inherited from the map (R3.9); sample maps / paths answered by symbolic execution (R3.10):
# leading slashes of the request path, the converters' options at their boundaries
_BIND_STRICT = "        if self.strict_slashes is None:\n            self.strict_slashes = map.strict_slashes\n"
_BIND_MERGE = "        if self.merge_slashes is None:\n            self.merge_slashes = map.merge_slashes\n"
_BIND_FLAGS = _BIND_STRICT + _BIND_MERGE
_PATH_PART = "        path_part = f\"/{path_info.lstrip('/')}\" if path_info else \"\"\n"
_UNICODE_INIT = (
    "        if length is not None:\n"
    "            length_regex = f\"{{{int(length)}}}\"\n"
    "        else:\n"
    "            if maxlength is None:\n"
    "                maxlength_value = \"\"\n"
    "            else:\n"
    "                maxlength_value = str(int(maxlength))\n"
    "            length_regex = f\"{{{int(minlength)},{maxlength_value}}}\"\n"
    "        self.regex = f\"[^/]{length_regex}\"\n"
)
_FIXED_CHECK = "        if self.fixed_digits and len(value) != self.fixed_digits:\n            raise ValidationError()"
_GETATTR_LOOP = (
    "        for own, theirs in ((\"strict_slashes\", \"%s\"), (\"merge_slashes\", \"%s\")):\n"
    "            if getattr(self, own) is None:\n"
    "                setattr(self, own, getattr(map, theirs))\n"
)
MUTANTS += [
    {"name": "inherit:merge-flag-from-strict-setting-conditional-expression", "expect": "R3.9", "edits": [(R, _BIND_MERGE, "        self.merge_slashes = map.strict_slashes if self.merge_slashes is None else self.merge_slashes\n")]},
    {"name": "inherit:both-flags-crossed", "expect": "R3.9", "edits": [(R, _BIND_FLAGS, "        if self.strict_slashes is None:\n            self.strict_slashes = map.merge_slashes\n        if self.merge_slashes is None:\n            self.merge_slashes = map.strict_slashes\n")]},
    {"name": "inherit:getattr-loop-wrong-pair", "expect": "R3.9", "edits": [(R, _BIND_FLAGS, _GETATTR_LOOP % ("strict_slashes", "strict_slashes"))]},
    {"name": "inherit:merge-flag-never-inherited", "expect": "R3.9", "edits": [(R, _BIND_MERGE, "")]},
    {"name": "inherit:strict-flag-through-helper-defaults-to-true", "expect": "R3.9", "edits": [(R, _BIND_STRICT, "        if self.strict_slashes is None:\n            self.strict_slashes = getattr(map, \"strict\", True)\n")]},
    {"name": "inherit:tuple-assignment-order-slip", "expect": "R3.10", "edits": [(R, _BIND_FLAGS, "        inherited_merge, inherited_strict = map.strict_slashes, map.merge_slashes\n        if self.strict_slashes is None:\n            self.strict_slashes = inherited_strict\n        if self.merge_slashes is None:\n            self.merge_slashes = inherited_merge\n")]},
    {"name": "normalise:one-leading-slash-removed-by-slice", "expect": "R3.10", "edits": [(P, _PATH_PART, "        if path_info:\n            path_part = \"/\" + (path_info[1:] if path_info.startswith(\"/\") else path_info)\n        else:\n            path_part = \"\"\n")]},
    {"name": "normalise:removeprefix", "expect": "R3.10", "edits": [(P, _PATH_PART, "        path_part = f\"/{path_info.removeprefix('/')}\" if path_info else \"\"\n")]},
    {"name": "normalise:slash-only-added-when-missing", "expect": "R3.10", "edits": [(P, _PATH_PART, "        path_part = path_info if not path_info or path_info.startswith(\"/\") else f\"/{path_info}\"\n")]},
    {"name": "normalise:strip-both-ends", "expect": "R3.10", "edits": [(P, _PATH_PART, "        path_part = f\"/{path_info.strip('/')}\" if path_info else \"\"\n")]},
    {"name": "normalise:leading-run-halved-by-regex", "expect": "R3.10", "edits": [(P, _PATH_PART, "        path_part = re.sub(\"^//\", \"/\", path_info) if path_info else \"\"\n"), (P, "from __future__ import annotations\n", "from __future__ import annotations\n\nimport re\n")]},
    {"name": "options:minlength-ignored-without-maxlength", "expect": "R3.10", "edits": [(C, _UNICODE_INIT, "        if length is not None:\n            length_regex = f\"{{{int(length)}}}\"\n        else:\n            length_regex = \"+\" if maxlength is None else f\"{{{int(minlength)},{int(maxlength)}}}\"\n        self.regex = f\"[^/]{length_regex}\"\n")]},
    {"name": "options:maxlength-off-by-one", "expect": "R3.10", "edits": [(C, "                maxlength_value = str(int(maxlength))\n", "                maxlength_value = str(int(maxlength) + 1)\n")]},
    {"name": "options:length-is-a-lower-bound", "expect": "R3.10", "edits": [(C, "            length_regex = f\"{{{int(length)}}}\"\n", "            length_regex = f\"{{{int(length)},}}\"\n")]},
    {"name": "options:maxlength-dropped-when-minlength-given", "expect": "R3.10", "edits": [(C, "            if maxlength is None:\n                maxlength_value = \"\"\n", "            if maxlength is None or minlength > 1:\n                maxlength_value = \"\"\n")]},
    {"name": "options:fixed-digits-only-a-minimum", "expect": "R3.10", "edits": [(C, _FIXED_CHECK, "        if self.fixed_digits and len(value) < self.fixed_digits:\n            raise ValidationError()")]},
]
TWINS += [
    {"name": "inherit:conditional-expressions", "edits": [(R, _BIND_FLAGS, "        self.strict_slashes = map.strict_slashes if self.strict_slashes is None else self.strict_slashes\n        self.merge_slashes = self.merge_slashes if self.merge_slashes is not None else map.merge_slashes\n")]},
    {"name": "inherit:getattr-loop-over-flag-names", "edits": [(R, _BIND_FLAGS, _GETATTR_LOOP % ("strict_slashes", "merge_slashes"))]},
    {"name": "inherit:map-settings-through-locals-reordered", "edits": [(R, _BIND_FLAGS, "        settings = map\n        inherited_merge, inherited_strict = settings.merge_slashes, settings.strict_slashes\n        if self.merge_slashes is None:\n            self.merge_slashes = inherited_merge\n        if self.strict_slashes is None:\n            self.strict_slashes = inherited_strict\n")]},
    {"name": "inherit:private-helper", "edits": [(R, _BIND_FLAGS, "        self._inherit_flags(map)\n"), (R, "    def get_converter(\n", "    def _inherit_flags(self, owner: Map) -> None:\n        if self.strict_slashes is None:\n            self.strict_slashes = owner.strict_slashes\n        if self.merge_slashes is None:\n            self.merge_slashes = owner.merge_slashes\n\n    def get_converter(\n")]},
    {"name": "normalise:concatenation", "edits": [(P, _PATH_PART, "        if path_info:\n            path_part = \"/\" + path_info.lstrip(\"/\")\n        else:\n            path_part = \"\"\n")]},
    {"name": "normalise:loop-drops-leading-slashes", "edits": [(P, _PATH_PART, "        path_part = path_info\n        while path_part.startswith(\"//\"):\n            path_part = path_part[1:]\n        if path_part and not path_part.startswith(\"/\"):\n            path_part = \"/\" + path_part\n")]},
    {"name": "normalise:regex-collapses-leading-run", "edits": [(P, _PATH_PART, "        path_part = re.sub(\"^/*\", \"/\", path_info, count=1) if path_info else \"\"\n"), (P, "from __future__ import annotations\n", "from __future__ import annotations\n\nimport re\n")]},
    {"name": "normalise:module-level-helper", "edits": [(P, _PATH_PART, "        path_part = _rooted(path_info)\n"), (P, "class MapAdapter:\n", "def _rooted(path_info: str) -> str:\n    if not path_info:\n        return \"\"\n    return \"/\" + path_info.lstrip(\"/\")\n\n\nclass MapAdapter:\n")]},
    {"name": "options:quantifier-chosen-by-early-branches", "edits": [(C, _UNICODE_INIT, "        if length is not None:\n            length_regex = f\"{{{int(length)}}}\"\n        elif maxlength is not None:\n            length_regex = f\"{{{int(minlength)},{int(maxlength)}}}\"\n        else:\n            length_regex = f\"{{{int(minlength)},}}\"\n        self.regex = f\"[^/]{length_regex}\"\n")]},
    {"name": "options:bounds-computed-first", "edits": [(C, _UNICODE_INIT, "        lower = int(minlength) if length is None else int(length)\n        upper = (\"\" if maxlength is None else str(int(maxlength))) if length is None else str(int(length))\n        self.regex = \"[^/]{\" + str(lower) + \",\" + upper + \"}\"\n")]},
    {"name": "options:fixed-digits-check-rewritten", "edits": [(C, _FIXED_CHECK, "        wanted = self.fixed_digits\n        if wanted and not (len(value) == wanted):\n            raise ValidationError()")]},
]


# ---- round 5 (stress run with fresh neutral refactorings of the functions behind R3.7-R3.10 and the new R3.1 clauses):
# the regex text collected as a list of pieces and joined; compiled part patterns kept in a cache; `format` / `%` with
# several fields; the loop body of Map.add moved into a private method
_S5_APPLY = "                match = re.compile(test_part.content).match(target)\n"
_S5_INIT = "        self._root = State()\n"
_S5_INIT_CACHE = "        self._root = State()\n        self._patterns: dict[str, t.Pattern[str]] = {}\n"
_S5_CACHE_INLINE = (
    "                pattern = self._patterns.get(test_part.content)\n"
    "                if pattern is None:\n"
    "                    pattern = re.compile(test_part.content)\n"
    "                    self._patterns[test_part.content] = pattern\n"
    "                match = pattern.%s(target)\n"
)
_S5_CACHE_METHOD = (
    "    def _compiled(self, content: str) -> t.Pattern[str]:\n"
    "        pattern = self._patterns.get(content)\n"
    "        if pattern is None:\n"
    "            pattern = self._patterns[content] = re.compile(content)\n"
    "        return pattern\n"
    "\n"
    "    def match(\n"
)
_S5_MATCH_AT = "    def match(\n"
_S5_P_INIT = '        content = ""\n        static = True\n        argument_weights = []\n'
_S5_P_STATIC = '                content += data["static"] if static else re.escape(data["static"])\n'
_S5_P_SWITCH = '                    content = re.escape(content)\n'
_S5_P_GROUP = '                content += f"(?P<__werkzeug_{convertor_number}>{convobj.regex})"\n'
_S5_P_SLASH = '                if final:\n                    content += "/"\n                else:\n                    if not static:\n                        content += r"\\Z"\n'
_S5_P_YIELD1 = '                    yield RulePart(\n                        content=content,\n                        final=final,\n                        static=static,\n                        suffixed=False,\n                        weight=weight,\n                    )\n                    content = ""\n'
_S5_P_TAIL = '        suffixed = False\n        if final and content[-1] == "/":\n'
_S5_ANCHOR = '                    if not static:\n                        pieces.append(r"\\Z")\n'
_S5_HELPER_AT = "def _pythonize(value: str) -> None | bool | int | float | str:\n"


def _s5_pieces(append=lambda x: f"pieces.append({x})", anchor=_S5_ANCHOR, join='"".join(pieces)', reset="pieces = []"):
    return [
        (R, _S5_P_INIT, '        pieces: list[str] = []\n        static = True\n        argument_weights = []\n'),
        (R, _S5_P_STATIC, '                ' + append('data["static"] if static else re.escape(data["static"])') + '\n'),
        (R, _S5_P_SWITCH, '                    pieces = [re.escape(' + join + ')]\n'),
        (R, _S5_P_GROUP, '                ' + append('f"(?P<__werkzeug_{convertor_number}>{convobj.regex})"') + '\n'),
        (R, _S5_P_SLASH, '                if final:\n                    ' + append('"/"') + '\n                else:\n' + anchor),
        (R, _S5_P_YIELD1, '                    yield RulePart(\n                        content=' + join + ',\n                        final=final,\n                        static=static,\n                        suffixed=False,\n                        weight=weight,\n                    )\n                    ' + reset + '\n'),
        (R, _S5_P_TAIL, '        suffixed = False\n        content = ' + join + '\n        if final and content[-1] == "/":\n'),
    ]


_S5_JOIN_TAIL = (R, _S5_P_TAIL, '        suffixed = False\n        content = "".join(pieces)\n        if final and content[-1] == "/":\n')
_S5_TEXT_HELPER = 'def _text(pieces: list[str], static: bool) -> str:\n    text = "".join(pieces)\n    return text if static else text + %s\n\n\n'
_S5_CLOSE_HELPER = 'def _close(pieces: list[str], static: bool) -> None:\n    if %s:\n        pieces.append(r"\\Z")\n\n\n'
_S5_TAIL_ANCHOR = '        if not static:\n            content += r"\\Z"\n        weight = Weighting('
_S5_SUFFIX = '            content = content[:-1] + "(?<!/)(/?)"\n'


def _s5_tail(expr):
    return [(R, _S5_TAIL_ANCHOR, '        if not static:\n            content = ' + expr + '\n        weight = Weighting(')]


_S5_ADD_BODY = "        for rule in rulefactory.get_rules(self):\n            rule.bind(self)\n            if not rule.build_only:\n                self._matcher.add(rule)\n            self._rules_by_endpoint.setdefault(rule.endpoint, []).append(rule)\n        self._remap = True\n"
_S5_ADD_HELPER = "\n    def _add_rule(self, rule: Rule) -> None:\n        rule.bind(self)\n        if not rule.build_only:\n            self._matcher.add(rule)\n        self._rules_by_endpoint.setdefault(rule.endpoint, []).append(rule)\n"
_S5_ADD_LOOP = "        for rule in rulefactory.get_rules(self):\n            self._add_rule(rule)\n"

TWINS += [
    {"name": "stress5:part-patterns-cached-on-the-matcher", "edits": [(M, _S5_INIT, _S5_INIT_CACHE), (M, _S5_APPLY, _S5_CACHE_INLINE % "match")]},
    {"name": "stress5:part-patterns-cached-by-a-method", "edits": [(M, _S5_INIT, _S5_INIT_CACHE), (M, _S5_MATCH_AT, _S5_CACHE_METHOD), (M, _S5_APPLY, "                match = self._compiled(test_part.content).match(target)\n")]},
    {"name": "stress5:part-patterns-cached-with-setdefault", "edits": [(M, _S5_INIT, _S5_INIT_CACHE), (M, _S5_APPLY, "                pattern = self._patterns.setdefault(test_part.content, re.compile(test_part.content))\n                match = pattern.match(target)\n")]},
    {"name": "stress5:part-patterns-cached-walrus-and-chained-assignment", "edits": [(M, _S5_INIT, _S5_INIT_CACHE), (M, _S5_APPLY, "                if (pattern := self._patterns.get(test_part.content)) is None:\n                    pattern = self._patterns[test_part.content] = re.compile(test_part.content)\n                match = pattern.match(target)\n")]},
    {"name": "stress5:part-patterns-cached-in-a-module-dict", "edits": [(M, "class SlashRequired(Exception):\n", "_PATTERNS: dict[str, t.Pattern[str]] = {}\n\n\nclass SlashRequired(Exception):\n"), (M, _S5_APPLY, "                pattern = _PATTERNS.get(test_part.content)\n                if pattern is None:\n                    pattern = _PATTERNS[test_part.content] = re.compile(test_part.content)\n                match = pattern.match(target)\n")]},
    {"name": "stress5:regex-pieces-appended-and-joined", "edits": _s5_pieces()},
    {"name": "stress5:regex-pieces-iadd-extend-clear", "edits": _s5_pieces(append=lambda x: f"pieces += [{x}]", anchor='                    if not static:\n                        pieces.extend([r"\\Z"])\n', reset="pieces.clear()")},
    {"name": "stress5:regex-pieces-joined-through-a-generator", "edits": _s5_pieces(join='"".join(piece for piece in pieces)')},
    {"name": "stress5:regex-pieces-joined-and-anchored-by-a-helper", "edits": _s5_pieces(anchor="", join="_text(pieces, static)")[:6] + [_S5_JOIN_TAIL, (R, _S5_HELPER_AT, _S5_TEXT_HELPER % 'r"\\Z"' + _S5_HELPER_AT)]},
    {"name": "stress5:regex-pieces-anchor-appended-by-a-helper", "edits": _s5_pieces(anchor="                    _close(pieces, static)\n") + [(R, _S5_HELPER_AT, _S5_CLOSE_HELPER % "not static" + _S5_HELPER_AT)]},
    {"name": "stress5:anchor-format-two-fields", "edits": _s5_tail('"{}{}".format(content, r"\\Z")')},
    {"name": "stress5:anchor-format-numbered-fields", "edits": _s5_tail('"{0}{1}".format(content, r"\\Z")')},
    {"name": "stress5:anchor-format-named-fields", "edits": _s5_tail('"{body}{end}".format(body=content, end=r"\\Z")')},
    {"name": "stress5:anchor-percent-two-values", "edits": _s5_tail('"%s%s" % (content, r"\\Z")')},
    {"name": "stress5:slash-suffix-through-format", "edits": [(R, _S5_SUFFIX, '            content = "{}{}".format(content[:-1], "(?<!/)(/?)")\n')]},
    {"name": "stress5:slash-suffix-through-percent", "edits": [(R, _S5_SUFFIX, '            content = "%s(?<!/)(/?)" % content[:-1]\n')]},
    {"name": "stress5:map-add-loop-body-in-a-private-method", "edits": [(P, _S5_ADD_BODY, _S5_ADD_LOOP + "        self._remap = True\n" + _S5_ADD_HELPER)]},
    {"name": "stress5:map-add-private-method-marks-the-map-itself", "edits": [(P, _S5_ADD_BODY, _S5_ADD_LOOP + _S5_ADD_HELPER + "        self._remap = True\n")]},
    {"name": "stress5:map-add-two-levels-of-private-methods", "edits": [(P, _S5_ADD_BODY, _S5_ADD_LOOP + "        self._remap = True\n" + _S5_ADD_HELPER.replace("            self._matcher.add(rule)\n", "            self._register(rule)\n") + "\n    def _register(self, rule: Rule) -> None:\n        self._matcher.add(rule)\n")]},
]
MUTANTS += [
    {"name": "stress5:cached-pattern-applied-with-search", "expect": "R3.7", "edits": [(M, _S5_INIT, _S5_INIT_CACHE), (M, _S5_APPLY, _S5_CACHE_INLINE % "search")]},
    {"name": "stress5:pattern-from-caching-method-applied-with-search", "expect": "R3.7", "edits": [(M, _S5_INIT, _S5_INIT_CACHE), (M, _S5_MATCH_AT, _S5_CACHE_METHOD), (M, _S5_APPLY, "                match = self._compiled(test_part.content).search(target)\n")]},
    {"name": "stress5:cache-entry-read-back-and-applied-with-search", "expect": "R3.7", "edits": [(M, _S5_INIT, _S5_INIT_CACHE), (M, _S5_APPLY, "                if test_part.content not in self._patterns:\n                    self._patterns[test_part.content] = re.compile(test_part.content)\n                match = self._patterns[test_part.content].search(target)\n")]},
    {"name": "stress5:regex-pieces-anchor-never-appended", "expect": "R3.7", "edits": _s5_pieces(anchor="")},
    {"name": "stress5:regex-pieces-anchor-put-in-front", "expect": "R3.7", "edits": _s5_pieces(anchor='                    if not static:\n                        pieces.insert(0, r"\\Z")\n')},
    {"name": "stress5:regex-pieces-joining-helper-forgets-the-anchor", "expect": "R3.7", "edits": _s5_pieces(anchor="", join="_text(pieces, static)")[:6] + [_S5_JOIN_TAIL, (R, _S5_HELPER_AT, _S5_TEXT_HELPER % '""' + _S5_HELPER_AT)]},
    {"name": "stress5:regex-pieces-helper-anchors-only-static-parts", "expect": "R3.7", "edits": _s5_pieces(anchor="                    _close(pieces, static)\n") + [(R, _S5_HELPER_AT, _S5_CLOSE_HELPER % "static" + _S5_HELPER_AT)]},
    {"name": "stress5:anchor-format-fields-swapped", "expect": "R3.7", "edits": _s5_tail('"{1}{0}".format(content, r"\\Z")')},
    {"name": "stress5:anchor-percent-values-swapped", "expect": "R3.7", "edits": _s5_tail('"%s%s" % (r"\\Z", content)')},
    {"name": "stress5:anchor-format-second-field-empty", "expect": "R3.7", "edits": _s5_tail('"{}{}".format(content, "")')},
    {"name": "stress5:slash-suffix-through-format-not-capturing", "expect": "R3.8", "edits": [(R, _S5_SUFFIX, '            content = "{}{}".format(content[:-1], "(?<!/)(?:/?)")\n')]},
    {"name": "stress5:slash-suffix-through-format-mandatory", "expect": "R3.8", "edits": [(R, _S5_SUFFIX, '            content = "{}{}".format(content[:-1], "(?<!/)(/)")\n')]},
    {"name": "stress5:map-add-private-method-and-no-remap", "expect": "R3.1", "edits": [(P, _S5_ADD_BODY, _S5_ADD_LOOP + _S5_ADD_HELPER)]},
    {"name": "stress5:map-add-private-method-marks-only-build-only-rules", "expect": "R3.1", "edits": [(P, _S5_ADD_BODY, _S5_ADD_LOOP + _S5_ADD_HELPER.replace("        if not rule.build_only:\n            self._matcher.add(rule)\n", "        if not rule.build_only:\n            self._matcher.add(rule)\n        else:\n            self._remap = True\n"))]},
]

# ---- round 6: one local stands for the static successor before the loop AND is the target of the loop over .dynamic
# (what a name holds is decided at the call that uses it); the loop body in early-`continue` style
_R6_DYN_FOR = "            for test_part, new_state in state.dynamic:\n                target = part\n"
_R6_DYN_FOR_SHARED = "            for test_part, follower in state.dynamic:\n                target = part\n"
_R6_DYN_CALL = "                    rv = _match(new_state, remaining, values + groups)\n"
_R6_STATIC_GET = (
    "            follower = state.static.get(part)\n"
    "            if follower is not None:\n"
    "                rv = _match(follower, parts[1:], values)\n"
    "                if rv is not None:\n"
    "                    return rv\n"
)
_R6_STATIC_IFEXP = (
    "            follower = state.static[part] if part in state.static else None\n"
    "            if follower is None:\n"
    "                rv = None\n"
    "            else:\n"
    "                rv = _match(follower, parts[1:], values)\n"
    "            if rv is not None:\n"
    "                return rv\n"
)
_R6_STATIC_WALRUS = (
    "            if (follower := state.static.get(part)) is not None:\n"
    "                if (rv := _match(follower, parts[1:], values)) is not None:\n"
    "                    return rv\n"
)
_R6_BODY_CONTINUE = (
    "                match = re.compile(test_part.content).match(target)\n"
    "                if not match:\n"
    "                    continue\n"
    "                if test_part.suffixed and match.groups()[-1] == \"/\":\n"
    "                    remaining = [\"\"]\n"
    "                named = match.groupdict()\n"
    "                groups = [named[key] for key in sorted(named) if key.startswith(\"__werkzeug_\")]\n"
    "                rv = _match(follower, remaining, values + groups)\n"
    "                if rv is None:\n"
    "                    continue\n"
    "                return rv\n"
)
_R6_SHARED = [(M, _R6_DYN_FOR, _R6_DYN_FOR_SHARED), (M, _R6_DYN_CALL, "                    rv = _match(follower, remaining, values + groups)\n")]
_R6_SHARED_CONTINUE = [(M, _R6_DYN_FOR, _R6_DYN_FOR_SHARED), (M, _DYN_BODY, _R6_BODY_CONTINUE)]
# the static attempt written inside the loop body, after the dynamic try of the same iteration (same local again)
_R6_STATIC_IN_LOOP = (
    "                follower = state.static.get(part)\n"
    "                if follower is not None:\n"
    "                    rv = _match(follower, parts[1:], values)\n"
    "                    if rv is not None:\n"
    "                        return rv\n"
)

TWINS += [
    {"name": "round6:one-local-for-static-and-dynamic-successor", "edits": [(M, _STATIC_BLOCK, _R6_STATIC_GET), *_R6_SHARED]},
    {"name": "round6:one-local-for-both-successors-loop-in-continue-style", "edits": [(M, _STATIC_BLOCK, _R6_STATIC_GET), *_R6_SHARED_CONTINUE]},
    {"name": "round6:shared-local-bound-by-conditional-expression", "edits": [(M, _STATIC_BLOCK, _R6_STATIC_IFEXP), *_R6_SHARED_CONTINUE]},
    {"name": "round6:shared-local-bound-by-walrus", "edits": [(M, _STATIC_BLOCK, _R6_STATIC_WALRUS), *_R6_SHARED]},
    {"name": "round6:loop-in-continue-style-names-kept", "edits": [(M, _DYN_BODY, _R6_BODY_CONTINUE.replace("_match(follower,", "_match(new_state,"))]},
    {"name": "round6:shared-local-rebound-in-the-loop-body", "edits": [(M, _STATIC_BLOCK, _R6_STATIC_GET), (M, _R6_DYN_FOR, "            for entry in state.dynamic:\n                test_part, follower = entry\n                target = part\n"), _R6_SHARED[1]]},
]
MUTANTS += [
    {"name": "round6:shared-local-dynamic-loop-placed-first", "expect": "R3.1", "edits": [(M, _STATIC_BLOCK, ""), *_R6_SHARED_CONTINUE, (M, _FALLBACK_COMMENT, _R6_STATIC_GET + _FALLBACK_COMMENT)]},
    {"name": "round6:shared-local-static-attempt-inside-the-loop-after-a-dynamic-try", "expect": "R3.1", "edits": [(M, _STATIC_BLOCK, ""), (M, _R6_DYN_FOR, _R6_DYN_FOR_SHARED), (M, _DYN_BODY, _R6_BODY_CONTINUE.replace("                if rv is None:\n                    continue\n                return rv\n", "                if rv is not None:\n                    return rv\n" + _R6_STATIC_IN_LOOP))]},
    {"name": "round6:shared-local-static-result-kept-until-after-the-loop", "expect": "R3.1", "edits": [(M, _STATIC_BLOCK, "            follower = state.static.get(part)\n            first = _match(follower, parts[1:], values) if follower is not None else None\n"), *_R6_SHARED_CONTINUE, (M, _FALLBACK_COMMENT, "            if first is not None:\n                return first\n" + _FALLBACK_COMMENT)]},
    {"name": "round6:continue-style-loop-iterates-dynamic-back-to-front", "expect": "R3.1", "edits": [(M, _STATIC_BLOCK, _R6_STATIC_GET), (M, _R6_DYN_FOR, _R6_DYN_FOR_SHARED.replace("state.dynamic:", "state.dynamic[::-1]:")), (M, _DYN_BODY, _R6_BODY_CONTINUE)]},
]

# the same reuse of one local inside the generator of candidate transitions (third independent round's shape)
_R6_GEN = next(tw for tw in TWINS if tw["name"] == "indep3-match-transition-candidates-generator")["edits"][0]
_R6_GEN_STATIC = "                if part in state.static:\n                    yield state.static[part], parts[1:], values\n"
_R6_GEN_STATIC_SHARED = "                follower = state.static.get(part)\n                if follower is not None:\n                    yield follower, parts[1:], values\n"
_R6_GEN_LOOP_END = "                    yield new_state, remaining, values + groups\n"


def _r6_gen(static_first: bool) -> list:
    new = _R6_GEN[2].replace("for test_part, new_state in state.dynamic:", "for test_part, follower in state.dynamic:")
    new = new.replace(_R6_GEN_STATIC, _R6_GEN_STATIC_SHARED if static_first else "")
    new = new.replace(_R6_GEN_LOOP_END, "                    yield follower, remaining, values + groups\n" + ("" if static_first else _R6_GEN_STATIC_SHARED))
    assert new.count("follower") == 5, "anchors of the generator shape moved"
    return [(_R6_GEN[0], _R6_GEN[1], new)]


TWINS += [{"name": "round6:generator-one-local-for-static-and-dynamic-candidate", "edits": _r6_gen(True)}]
MUTANTS += [{"name": "round6:generator-shared-local-static-candidate-yielded-last", "expect": "R3.1", "edits": _r6_gen(False)}]

# Neutral refactorings (round 5, written by a fresh author, tests + differential run identical) on which the check still
# gives up (exit 2, no false alarm): kept here as text edits for a later round; not run by the self-validation.
UNDECIDED = [
    {"name": 'stress5:search-bookkeeping-in-a-mutable-dataclass-instead-of-two-nonlocals', "edits": [
        (M, '    static: dict[str, State] = field(default_factory=dict)\n\n\nclass StateMachineMatcher:\n    def __init__(self, merge_slashes: bool) -> None:\n        self._root = State()\n        self.merge_slashes = merge_slashes\n\n    def add(self, rule: Rule) -> None:\n        state = self._root\n        for part in rule._parts:\n            if part.static:\n                state.static.setdefault(part.content, State())\n                state = state.static[part.content]\n            else:\n                for test_part, new_state in state.dynamic:\n                    if test_part == part:\n                        state = new_state\n                        break\n                else:\n                    new_state = State()\n                    state.dynamic.append((part, new_state))\n                    state = new_state\n        state.rules.append(rule)\n\n    def update(self) -> None:\n        # For every state the dynamic transitions should be sorted by\n        # the weight of the transition\n        state = self._root\n\n        def _update_state(state: State) -> None:\n            state.dynamic.sort(key=lambda entry: entry[0].weight)\n            for new_state in state.static.values():\n                _update_state(new_state)\n            for _, new_state in state.dynamic:\n                _update_state(new_state)\n\n        _update_state(state)\n\n    def match(\n        self, domain: str, path: str, method: str, websocket: bool\n    ) -> tuple[Rule, t.MutableMapping[str, t.Any]]:\n        # To match to a rule we need to start at the root state and\n        # try to follow the transitions until we find a match, or find\n        # there is no transition to follow.\n\n        have_match_for = set()\n        websocket_mismatch = False\n\n        def _match(\n            state: State, parts: list[str], values: list[str]\n        ) -> tuple[Rule, list[str]] | None:\n            # This function is meant to be called recursively, and will attempt\n            # to match the head part to the state\'s transitions.\n            nonlocal have_match_for, websocket_mismatch\n\n            # The base case is when all parts have been matched via\n            # transitions. Hence if there is a rule with methods &\n            # websocket that work return it and the dynamic values\n            # extracted.\n            if parts == []:\n                for rule in state.rules:\n                    if rule.methods is not None and method not in rule.methods:\n                        have_match_for.update(rule.methods)\n                    elif rule.websocket != websocket:\n                        websocket_mismatch = True\n                    else:\n                        return rule, values\n\n                # Test if there is a match with this path with a\n                # trailing slash, if so raise an exception to report\n                # that matching is possible with an additional slash\n                if "" in state.static:\n                    for rule in state.static[""].rules:\n                        if websocket == rule.websocket and (\n                            rule.methods is None or method in rule.methods\n                        ):\n                            if rule.strict_slashes:\n                                raise SlashRequired()\n                            else:\n                                return rule, values\n                        elif (\n                            not rule.strict_slashes\n                            and rule.methods is not None\n                            and method not in rule.methods\n                        ):\n                            have_match_for.update(rule.methods)\n                return None\n\n            part = parts[0]\n            # To match this part try the static transitions first\n            if part in state.static:\n                rv = _match(state.static[part], parts[1:], values)\n                if rv is not None:\n                    return rv\n            # No match via the static transitions, so try the dynamic\n            # ones.\n            for test_part, new_state in state.dynamic:\n                target = part\n                remaining = parts[1:]\n                # A final part indicates a transition that always\n                # consumes the remaining parts i.e. transitions to a\n                # final state.\n                if test_part.final:\n                    target = "/".join(parts)\n                    remaining = []\n                match = re.compile(test_part.content).match(target)\n                if match is not None:\n                    if test_part.suffixed:\n                        # If a part_isolating=False part has a slash suffix, remove the\n                        # suffix from the match and check for the slash redirect next.\n                        suffix = match.groups()[-1]\n                        if suffix == "/":\n                            remaining = [""]\n\n                    converter_groups = sorted(\n                        match.groupdict().items(), key=lambda entry: entry[0]\n                    )\n                    groups = [\n                        value\n                        for key, value in converter_groups\n                        if key[:11] == "__werkzeug_"\n                    ]\n                    rv = _match(new_state, remaining, values + groups)\n                    if rv is not None:\n                        return rv\n\n            # If there is no match and the only part left is a\n            # trailing slash ("") consider rules that aren\'t\n            # strict-slashes as these should match if there is a final\n            # slash part.\n            if parts == [""]:\n                for rule in state.rules:\n                    if rule.strict_slashes:\n                        continue\n                    if rule.methods is not None and method not in rule.methods:\n                        have_match_for.update(rule.methods)\n                    elif rule.websocket != websocket:\n                        websocket_mismatch = True\n                    else:\n                        return rule, values\n\n            return None\n\n        try:\n            rv = _match(self._root, [domain, *path.split("/")], [])\n        except SlashRequired:\n            raise RequestPath(f"{path}/") from None\n\n        if self.merge_slashes and rv is None:\n            # Try to match again, but with slashes merged\n            path = re.sub("/{2,}?", "/", path)\n            try:\n                rv = _match(self._root, [domain, *path.split("/")], [])\n            except SlashRequired:\n                raise RequestPath(f"{path}/") from None\n            if rv is None or rv[0].merge_slashes is False:\n                raise NoMatch(have_match_for, websocket_mismatch)\n            else:\n                raise RequestPath(f"{path}")\n        elif rv is not None:\n            rule, values = rv\n\n            result = {}\n            for name, value in zip(rule._converters.keys(), values):\n                try:\n                    value = rule._converters[name].to_python(value)\n                except ValidationError:\n                    raise NoMatch(have_match_for, websocket_mismatch) from None\n                result[str(name)] = value\n            if rule.defaults:\n                result.update(rule.defaults)\n\n            if rule.alias and rule.map.redirect_defaults:\n                raise RequestAliasRedirect(result, rule.endpoint)\n\n            return rule, result\n\n        raise NoMatch(have_match_for, websocket_mismatch)\n', '    static: dict[str, State] = field(default_factory=dict)\n\n\n@dataclass\nclass _Mismatch:\n    """Why the rules that fit a path were rejected during one match."""\n\n    methods: set[str] = field(default_factory=set)\n    websocket: bool = False\n\n\nclass StateMachineMatcher:\n    def __init__(self, merge_slashes: bool) -> None:\n        self._root = State()\n        self.merge_slashes = merge_slashes\n\n    def add(self, rule: Rule) -> None:\n        state = self._root\n        for part in rule._parts:\n            if part.static:\n                state.static.setdefault(part.content, State())\n                state = state.static[part.content]\n            else:\n                for test_part, new_state in state.dynamic:\n                    if test_part == part:\n                        state = new_state\n                        break\n                else:\n                    new_state = State()\n                    state.dynamic.append((part, new_state))\n                    state = new_state\n        state.rules.append(rule)\n\n    def update(self) -> None:\n        # For every state the dynamic transitions should be sorted by\n        # the weight of the transition\n        state = self._root\n\n        def _update_state(state: State) -> None:\n            state.dynamic.sort(key=lambda entry: entry[0].weight)\n            for new_state in state.static.values():\n                _update_state(new_state)\n            for _, new_state in state.dynamic:\n                _update_state(new_state)\n\n        _update_state(state)\n\n    def match(\n        self, domain: str, path: str, method: str, websocket: bool\n    ) -> tuple[Rule, t.MutableMapping[str, t.Any]]:\n        # To match to a rule we need to start at the root state and\n        # try to follow the transitions until we find a match, or find\n        # there is no transition to follow.\n\n        mismatch = _Mismatch()\n\n        def _match(\n            state: State, parts: list[str], values: list[str]\n        ) -> tuple[Rule, list[str]] | None:\n            # This function is meant to be called recursively, and will attempt\n            # to match the head part to the state\'s transitions.\n\n            # The base case is when all parts have been matched via\n            # transitions. Hence if there is a rule with methods &\n            # websocket that work return it and the dynamic values\n            # extracted.\n            if parts == []:\n                for rule in state.rules:\n                    if rule.methods is not None and method not in rule.methods:\n                        mismatch.methods.update(rule.methods)\n                    elif rule.websocket != websocket:\n                        mismatch.websocket = True\n                    else:\n                        return rule, values\n\n                # Test if there is a match with this path with a\n                # trailing slash, if so raise an exception to report\n                # that matching is possible with an additional slash\n                if "" in state.static:\n                    for rule in state.static[""].rules:\n                        if websocket == rule.websocket and (\n                            rule.methods is None or method in rule.methods\n                        ):\n                            if rule.strict_slashes:\n                                raise SlashRequired()\n                            else:\n                                return rule, values\n                        elif (\n                            not rule.strict_slashes\n                            and rule.methods is not None\n                            and method not in rule.methods\n                        ):\n                            mismatch.methods.update(rule.methods)\n                return None\n\n            part = parts[0]\n            # To match this part try the static transitions first\n            if part in state.static:\n                rv = _match(state.static[part], parts[1:], values)\n                if rv is not None:\n                    return rv\n            # No match via the static transitions, so try the dynamic\n            # ones.\n            for test_part, new_state in state.dynamic:\n                target = part\n                remaining = parts[1:]\n                # A final part indicates a transition that always\n                # consumes the remaining parts i.e. transitions to a\n                # final state.\n                if test_part.final:\n                    target = "/".join(parts)\n                    remaining = []\n                match = re.compile(test_part.content).match(target)\n                if match is not None:\n                    if test_part.suffixed:\n                        # If a part_isolating=False part has a slash suffix, remove the\n                        # suffix from the match and check for the slash redirect next.\n                        suffix = match.groups()[-1]\n                        if suffix == "/":\n                            remaining = [""]\n\n                    converter_groups = sorted(\n                        match.groupdict().items(), key=lambda entry: entry[0]\n                    )\n                    groups = [\n                        value\n                        for key, value in converter_groups\n                        if key[:11] == "__werkzeug_"\n                    ]\n                    rv = _match(new_state, remaining, values + groups)\n                    if rv is not None:\n                        return rv\n\n            # If there is no match and the only part left is a\n            # trailing slash ("") consider rules that aren\'t\n            # strict-slashes as these should match if there is a final\n            # slash part.\n            if parts == [""]:\n                for rule in state.rules:\n                    if rule.strict_slashes:\n                        continue\n                    if rule.methods is not None and method not in rule.methods:\n                        mismatch.methods.update(rule.methods)\n                    elif rule.websocket != websocket:\n                        mismatch.websocket = True\n                    else:\n                        return rule, values\n\n            return None\n\n        try:\n            rv = _match(self._root, [domain, *path.split("/")], [])\n        except SlashRequired:\n            raise RequestPath(f"{path}/") from None\n\n        if self.merge_slashes and rv is None:\n            # Try to match again, but with slashes merged\n            path = re.sub("/{2,}?", "/", path)\n            try:\n                rv = _match(self._root, [domain, *path.split("/")], [])\n            except SlashRequired:\n                raise RequestPath(f"{path}/") from None\n            if rv is None or rv[0].merge_slashes is False:\n                raise NoMatch(mismatch.methods, mismatch.websocket)\n            else:\n                raise RequestPath(f"{path}")\n        elif rv is not None:\n            rule, values = rv\n\n            converters = rule._converters\n            try:\n                result = {\n                    str(name): converters[name].to_python(value)\n                    for name, value in zip(converters, values)\n                }\n            except ValidationError:\n                raise NoMatch(mismatch.methods, mismatch.websocket) from None\n            result.update(rule.defaults or {})\n\n            if rule.alias and rule.map.redirect_defaults:\n                raise RequestAliasRedirect(result, rule.endpoint)\n\n            return rule, result\n\n        raise NoMatch(mismatch.methods, mismatch.websocket)\n'),
    ]},
    {"name": 'stress5:add-and-update-moved-onto-the-State-dataclass', "edits": [
        (M, '\n\nclass StateMachineMatcher:\n    def __init__(self, merge_slashes: bool) -> None:\n        self._root = State()\n        self.merge_slashes = merge_slashes\n\n    def add(self, rule: Rule) -> None:\n        state = self._root\n        for part in rule._parts:\n            if part.static:\n                state.static.setdefault(part.content, State())\n                state = state.static[part.content]\n            else:\n                for test_part, new_state in state.dynamic:\n                    if test_part == part:\n                        state = new_state\n                        break\n                else:\n                    new_state = State()\n                    state.dynamic.append((part, new_state))\n                    state = new_state\n        state.rules.append(rule)\n\n    def update(self) -> None:\n        # For every state the dynamic transitions should be sorted by\n        # the weight of the transition\n        state = self._root\n\n        def _update_state(state: State) -> None:\n            state.dynamic.sort(key=lambda entry: entry[0].weight)\n            for new_state in state.static.values():\n                _update_state(new_state)\n            for _, new_state in state.dynamic:\n                _update_state(new_state)\n\n        _update_state(state)\n', '\n    def follow(self, part: RulePart) -> State:\n        """The state reached via *part*, adding the transition if needed."""\n        if part.static:\n            try:\n                return self.static[part.content]\n            except KeyError:\n                self.static[part.content] = new_state = State()\n                return new_state\n\n        for test_part, new_state in self.dynamic:\n            if test_part == part:\n                return new_state\n\n        new_state = State()\n        self.dynamic.append((part, new_state))\n        return new_state\n\n    def sort_transitions(self) -> None:\n        """Order the dynamic transitions by weight, here and below."""\n        self.dynamic[:] = sorted(self.dynamic, key=lambda entry: entry[0].weight)\n        for new_state in self.static.values():\n            new_state.sort_transitions()\n        for _, new_state in self.dynamic:\n            new_state.sort_transitions()\n\n\nclass StateMachineMatcher:\n    def __init__(self, merge_slashes: bool) -> None:\n        self._root = State()\n        self.merge_slashes = merge_slashes\n\n    def add(self, rule: Rule) -> None:\n        state = self._root\n        for part in rule._parts:\n            state = state.follow(part)\n        state.rules.append(rule)\n\n    def update(self) -> None:\n        # For every state the dynamic transitions should be sorted by\n        # the weight of the transition\n        self._root.sort_transitions()\n'),
    ]},
]


# ---- R3.11 (detection round 3, seed C03-L): NoMatch only after the search has been run.  The tail of match() in six
# neutral spellings (attempt closure + guard clauses, a closure / a private method that raises NoMatch, one shared final
# raise, exception bound then raised, walrus), each with a fast reject in front of the search in the same spelling.
_R11_FIRST = (
    "        try:\n"
    "            rv = _match(self._root, [domain, *path.split(\"/\")], [])\n"
    "        except SlashRequired:\n"
    "            raise RequestPath(f\"{path}/\") from None\n"
    "\n"
)
_R11_RETRY = (
    "        if self.merge_slashes and rv is None:\n"
    "            # Try to match again, but with slashes merged\n"
    "            path = re.sub(\"/{2,}?\", \"/\", path)\n"
    "            try:\n"
    "                rv = _match(self._root, [domain, *path.split(\"/\")], [])\n"
    "            except SlashRequired:\n"
    "                raise RequestPath(f\"{path}/\") from None\n"
    "            if rv is None or rv[0].merge_slashes is False:\n"
    "                raise NoMatch(have_match_for, websocket_mismatch)\n"
    "            else:\n"
    "                raise RequestPath(f\"{path}\")\n"
)
_R11_CONV_HEAD = "        elif rv is not None:\n"
_R11_CONV = (
    "            rule, values = rv\n"
    "\n"
    "            result = {}\n"
    "            for name, value in zip(rule._converters.keys(), values):\n"
    "                try:\n"
    "                    value = rule._converters[name].to_python(value)\n"
    "                except ValidationError:\n"
    "                    raise NoMatch(have_match_for, websocket_mismatch) from None\n"
    "                result[str(name)] = value\n"
    "            if rule.defaults:\n"
    "                result.update(rule.defaults)\n"
    "\n"
    "            if rule.alias and rule.map.redirect_defaults:\n"
    "                raise RequestAliasRedirect(result, rule.endpoint)\n"
    "\n"
    "            return rule, result\n"
)
_R11_LAST = "\n        raise NoMatch(have_match_for, websocket_mismatch)\n"
_R11_TAIL = _R11_FIRST + _R11_RETRY + _R11_CONV_HEAD + _R11_CONV + _R11_LAST
_R11_INIT = "        have_match_for = set()\n        websocket_mismatch = False\n"
_R11_UPDATE = "    def update(self) -> None:\n"


def _dedent1(block):
    return "".join(l[4:] if l.startswith("    ") else l for l in block.splitlines(True))


_R11_SEARCH = (
    "        def _search(p: str) -> t.Any:\n"
    "            try:\n"
    "                return _match(self._root, [domain, *p.split(\"/\")], [])\n"
    "            except SlashRequired:\n"
    "                raise RequestPath(f\"{p}/\") from None\n"
    "\n"
)


def _r11_guard_style(reject: str = "") -> str:
    """closure for one attempt, guard clauses; `reject` = a statement put in front of the closure's search"""
    search = _R11_SEARCH.replace("            try:\n", reject + "            try:\n", 1)
    return (
        search
        + "        rv = _search(path)\n"
        "        if rv is None:\n"
        "            if not self.merge_slashes:\n"
        "                raise NoMatch(have_match_for, websocket_mismatch)\n"
        "            path = re.sub(\"/{2,}?\", \"/\", path)\n"
        "            rv = _search(path)\n"
        "            if rv is None or rv[0].merge_slashes is False:\n"
        "                raise NoMatch(have_match_for, websocket_mismatch)\n"
        "            raise RequestPath(f\"{path}\")\n"
        + _dedent1(_R11_CONV)
    )


def _r11_fail_closure(reject: str = "") -> list:
    fail = "        def _fail() -> t.NoReturn:\n            raise NoMatch(have_match_for, websocket_mismatch)\n\n"
    tail = (fail + reject + _R11_TAIL).replace("                raise NoMatch(have_match_for, websocket_mismatch)\n            else:\n", "                _fail()\n            else:\n")
    tail = tail.replace(_R11_LAST, "\n        _fail()\n")
    return [(M, _R11_TAIL, tail)]


def _r11_shared_final_raise(reject: str = "") -> list:
    tail = (
        _R11_FIRST
        + reject
        + "        if rv is not None:\n"
        + _R11_CONV
        + "        if self.merge_slashes:\n"
        "            path = re.sub(\"/{2,}?\", \"/\", path)\n"
        "            try:\n"
        "                rv = _match(self._root, [domain, *path.split(\"/\")], [])\n"
        "            except SlashRequired:\n"
        "                raise RequestPath(f\"{path}/\") from None\n"
        "            if rv is not None and rv[0].merge_slashes is not False:\n"
        "                raise RequestPath(f\"{path}\")\n"
        + _R11_LAST
    )
    return [(M, _R11_TAIL, tail)]


def _r11_method(early: bool) -> list:
    meth = (
        "    def _no_match(self, have_match_for: set[str], websocket_mismatch: bool) -> t.NoReturn:\n"
        "        raise NoMatch(have_match_for, websocket_mismatch)\n"
        "\n"
    )
    tail = _R11_TAIL.replace(_R11_LAST, "\n        self._no_match(have_match_for, websocket_mismatch)\n")
    if early:
        tail = "        if len(path) > 2000:\n            self._no_match(have_match_for, websocket_mismatch)\n\n" + tail
    return [(M, _R11_UPDATE, meth + _R11_UPDATE), (M, _R11_TAIL, tail)]


TWINS += [
    {"name": "r11:attempt-closure-guard-clauses", "edits": [(M, _R11_TAIL, _r11_guard_style())]},
    {"name": "r11:fail-closure-raises-nomatch", "edits": _r11_fail_closure()},
    {"name": "r11:one-shared-final-raise", "edits": _r11_shared_final_raise()},
    {"name": "r11:nomatch-raised-by-private-method", "edits": _r11_method(False)},
    {"name": "r11:exception-bound-then-raised", "edits": [(M, _R11_LAST, "\n        no_match = NoMatch(have_match_for, websocket_mismatch)\n        raise no_match\n")]},
    {"name": "r11:walrus-first-attempt-parts-hoisted", "edits": [(M, _R11_FIRST + "        if self.merge_slashes and rv is None:\n",
        "        parts = [domain, *path.split(\"/\")]\n        try:\n            found = _match(self._root, parts, [])\n        except SlashRequired:\n            raise RequestPath(f\"{path}/\") from None\n\n        if (rv := found) is None and self.merge_slashes:\n")]},
]
_REJ = "        if len(path) > 2000:\n            raise NoMatch(have_match_for, websocket_mismatch)\n\n"
MUTANTS += [
    {"name": "r11:fast-reject-before-first-search", "expect": "R3.11", "edits": [(M, _R11_FIRST, _REJ + _R11_FIRST)]},
    {"name": "r11:fast-reject-before-the-search-is-defined", "expect": "R3.11", "edits": [(M, _R11_INIT, _R11_INIT + "        if path.count(\"/\") > self._root_depth:\n            raise NoMatch(set(), False)\n")]},
    {"name": "r11:fast-reject-inside-attempt-closure", "expect": "R3.11", "edits": [(M, _R11_TAIL, _r11_guard_style("            if len(p) > 2000:\n                raise NoMatch(have_match_for, websocket_mismatch)\n"))]},
    {"name": "r11:fast-reject-through-fail-closure", "expect": "R3.11", "edits": _r11_fail_closure("        if self.merge_slashes and path.count(\"//\") > 1:\n            _fail()\n\n")},
    {"name": "r11:fast-reject-through-private-method", "expect": "R3.11", "edits": _r11_method(True)},
    {"name": "r11:prebuilt-exception-raised-before-search", "expect": "R3.11", "edits": [(M, _R11_FIRST, "        too_deep = NoMatch(have_match_for, websocket_mismatch)\n        if len(path) > 2000:\n            raise too_deep\n\n" + _R11_FIRST)]},
]


# five of the twelve refactorings of the tail of match() that a fresh author wrote for the stress pass of R3.11 (all
# twelve were silent at first run), as (name, old text, new text); each with a fast reject in front of the first search
_R11_EXT = [('closure-returns-the-exception',
  '\n'
  '        try:\n'
  '            rv = _match(self._root, [domain, *path.split("/")], [])\n'
  '        except SlashRequired:\n'
  '            raise RequestPath(f"{path}/") from None\n'
  '\n'
  '        if self.merge_slashes and rv is None:\n'
  '            # Try to match again, but with slashes merged\n'
  '            path = re.sub("/{2,}?", "/", path)\n'
  '            try:\n'
  '                rv = _match(self._root, [domain, *path.split("/")], [])\n'
  '            except SlashRequired:\n'
  '                raise RequestPath(f"{path}/") from None\n'
  '            if rv is None or rv[0].merge_slashes is False:\n'
  '                raise NoMatch(have_match_for, websocket_mismatch)\n'
  '            else:\n'
  '                raise RequestPath(f"{path}")\n'
  '        elif rv is not None:\n'
  '            rule, values = rv\n'
  '\n'
  '            result = {}\n'
  '            for name, value in zip(rule._converters.keys(), values):\n'
  '                try:\n'
  '                    value = rule._converters[name].to_python(value)\n'
  '                except ValidationError:\n'
  '                    raise NoMatch(have_match_for, websocket_mismatch) from None\n'
  '                result[str(name)] = value\n'
  '            if rule.defaults:\n'
  '                result.update(rule.defaults)\n'
  '\n'
  '            if rule.alias and rule.map.redirect_defaults:\n'
  '                raise RequestAliasRedirect(result, rule.endpoint)\n'
  '\n'
  '            return rule, result\n'
  '\n'
  '        raise NoMatch(have_match_for, websocket_mismatch)\n',
  '\n'
  '        def _no_match() -> NoMatch:\n'
  '            # Built lazily, _match keeps updating both values while\n'
  '            # it walks the states.\n'
  '            return NoMatch(have_match_for, websocket_mismatch)\n'
  '\n'
  '        try:\n'
  '            rv = _match(self._root, [domain, *path.split("/")], [])\n'
  '        except SlashRequired:\n'
  '            raise RequestPath(f"{path}/") from None\n'
  '\n'
  '        if self.merge_slashes and rv is None:\n'
  '            # Try to match again, but with slashes merged\n'
  '            path = re.sub("/{2,}?", "/", path)\n'
  '            try:\n'
  '                rv = _match(self._root, [domain, *path.split("/")], [])\n'
  '            except SlashRequired:\n'
  '                raise RequestPath(f"{path}/") from None\n'
  '            if rv is None or rv[0].merge_slashes is False:\n'
  '                raise _no_match()\n'
  '            else:\n'
  '                raise RequestPath(f"{path}")\n'
  '        elif rv is not None:\n'
  '            rule, values = rv\n'
  '\n'
  '            result = {}\n'
  '            for name, value in zip(rule._converters.keys(), values):\n'
  '                try:\n'
  '                    value = rule._converters[name].to_python(value)\n'
  '                except ValidationError:\n'
  '                    raise _no_match() from None\n'
  '                result[str(name)] = value\n'
  '            if rule.defaults:\n'
  '                result.update(rule.defaults)\n'
  '\n'
  '            if rule.alias and rule.map.redirect_defaults:\n'
  '                raise RequestAliasRedirect(result, rule.endpoint)\n'
  '\n'
  '            return rule, result\n'
  '\n'
  '        raise _no_match()\n'),
 ('branches-flipped-single-final-raise',
  '\n'
  '        if self.merge_slashes and rv is None:\n'
  '            # Try to match again, but with slashes merged\n'
  '            path = re.sub("/{2,}?", "/", path)\n'
  '            try:\n'
  '                rv = _match(self._root, [domain, *path.split("/")], [])\n'
  '            except SlashRequired:\n'
  '                raise RequestPath(f"{path}/") from None\n'
  '            if rv is None or rv[0].merge_slashes is False:\n'
  '                raise NoMatch(have_match_for, websocket_mismatch)\n'
  '            else:\n'
  '                raise RequestPath(f"{path}")\n'
  '        elif rv is not None:\n'
  '            rule, values = rv\n'
  '\n'
  '            result = {}\n'
  '            for name, value in zip(rule._converters.keys(), values):\n'
  '                try:\n'
  '                    value = rule._converters[name].to_python(value)\n'
  '                except ValidationError:\n'
  '                    raise NoMatch(have_match_for, websocket_mismatch) from None\n'
  '                result[str(name)] = value\n'
  '            if rule.defaults:\n'
  '                result.update(rule.defaults)\n'
  '\n'
  '            if rule.alias and rule.map.redirect_defaults:\n'
  '                raise RequestAliasRedirect(result, rule.endpoint)\n'
  '\n'
  '            return rule, result\n'
  '\n',
  '\n'
  '        if rv is not None:\n'
  '            rule, values = rv\n'
  '\n'
  '            result = {}\n'
  '            for name, value in zip(rule._converters.keys(), values):\n'
  '                try:\n'
  '                    value = rule._converters[name].to_python(value)\n'
  '                except ValidationError:\n'
  '                    raise NoMatch(have_match_for, websocket_mismatch) from None\n'
  '                result[str(name)] = value\n'
  '            if rule.defaults:\n'
  '                result.update(rule.defaults)\n'
  '\n'
  '            if rule.alias and rule.map.redirect_defaults:\n'
  '                raise RequestAliasRedirect(result, rule.endpoint)\n'
  '\n'
  '            return rule, result\n'
  '        elif self.merge_slashes:\n'
  '            # Try to match again, but with slashes merged\n'
  '            path = re.sub("/{2,}?", "/", path)\n'
  '            try:\n'
  '                rv = _match(self._root, [domain, *path.split("/")], [])\n'
  '            except SlashRequired:\n'
  '                raise RequestPath(f"{path}/") from None\n'
  '            if rv is not None and rv[0].merge_slashes is not False:\n'
  '                raise RequestPath(f"{path}")\n'
  '\n'),
 ('try-except-else',
  '                raise RequestPath(f"{path}/") from None\n'
  '            if rv is None or rv[0].merge_slashes is False:\n'
  '                raise NoMatch(have_match_for, websocket_mismatch)\n'
  '            else:\n'
  '                raise RequestPath(f"{path}")\n'
  '        elif rv is not None:\n'
  '            rule, values = rv\n'
  '\n'
  '            result = {}\n'
  '            for name, value in zip(rule._converters.keys(), values):\n'
  '                try:\n'
  '                    value = rule._converters[name].to_python(value)\n'
  '                except ValidationError:\n'
  '                    raise NoMatch(have_match_for, websocket_mismatch) from None\n'
  '                result[str(name)] = value\n'
  '            if rule.defaults:\n',
  '                raise RequestPath(f"{path}/") from None\n'
  '            else:\n'
  '                if rv is None or rv[0].merge_slashes is False:\n'
  '                    raise NoMatch(have_match_for, websocket_mismatch)\n'
  '                raise RequestPath(f"{path}")\n'
  '        elif rv is not None:\n'
  '            rule, values = rv\n'
  '\n'
  '            result = {}\n'
  '            for name, value in zip(rule._converters.keys(), values):\n'
  '                try:\n'
  '                    converted = rule._converters[name].to_python(value)\n'
  '                except ValidationError:\n'
  '                    raise NoMatch(have_match_for, websocket_mismatch) from None\n'
  '                else:\n'
  '                    result[str(name)] = converted\n'
  '            if rule.defaults:\n'),
 ('conditional-expression-picks-the-exception',
  '                raise RequestPath(f"{path}/") from None\n'
  '            if rv is None or rv[0].merge_slashes is False:\n'
  '                raise NoMatch(have_match_for, websocket_mismatch)\n'
  '            else:\n'
  '                raise RequestPath(f"{path}")\n'
  '        elif rv is not None:\n'
  '            rule, values = rv\n'
  '\n'
  '            result = {}\n'
  '            for name, value in zip(rule._converters.keys(), values):\n'
  '                try:\n',
  '                raise RequestPath(f"{path}/") from None\n'
  '            raise (\n'
  '                NoMatch(have_match_for, websocket_mismatch)\n'
  '                if rv is None or rv[0].merge_slashes is False\n'
  '                else RequestPath(f"{path}")\n'
  '            )\n'
  '        elif rv is not None:\n'
  '            rule = rv[0]\n'
  '\n'
  '            result = {}\n'
  '            for name, value in zip(rule._converters.keys(), rv[1]):\n'
  '                try:\n'),
 ('locals-renamed-merged-path-own-local',
  '\n'
  '        try:\n'
  '            rv = _match(self._root, [domain, *path.split("/")], [])\n'
  '        except SlashRequired:\n'
  '            raise RequestPath(f"{path}/") from None\n'
  '\n'
  '        if self.merge_slashes and rv is None:\n'
  '            # Try to match again, but with slashes merged\n'
  '            path = re.sub("/{2,}?", "/", path)\n'
  '            try:\n'
  '                rv = _match(self._root, [domain, *path.split("/")], [])\n'
  '            except SlashRequired:\n'
  '                raise RequestPath(f"{path}/") from None\n'
  '            if rv is None or rv[0].merge_slashes is False:\n'
  '                raise NoMatch(have_match_for, websocket_mismatch)\n'
  '            else:\n'
  '                raise RequestPath(f"{path}")\n'
  '        elif rv is not None:\n'
  '            rule, values = rv\n'
  '\n'
  '            result = {}\n'
  '            for name, value in zip(rule._converters.keys(), values):\n'
  '                try:\n'
  '                    value = rule._converters[name].to_python(value)\n'
  '                except ValidationError:\n'
  '                    raise NoMatch(have_match_for, websocket_mismatch) from None\n'
  '                result[str(name)] = value\n'
  '            if rule.defaults:\n'
  '                result.update(rule.defaults)\n'
  '\n'
  '            if rule.alias and rule.map.redirect_defaults:\n'
  '                raise RequestAliasRedirect(result, rule.endpoint)\n'
  '\n'
  '            return rule, result\n'
  '\n',
  '\n'
  '        segments = [domain, *path.split("/")]\n'
  '        try:\n'
  '            found = _match(self._root, segments, [])\n'
  '        except SlashRequired:\n'
  '            raise RequestPath(f"{path}/") from None\n'
  '\n'
  '        if self.merge_slashes and found is None:\n'
  '            # Try to match again, but with slashes merged\n'
  '            merged_path = re.sub("/{2,}?", "/", path)\n'
  '            segments = [domain, *merged_path.split("/")]\n'
  '            try:\n'
  '                found = _match(self._root, segments, [])\n'
  '            except SlashRequired:\n'
  '                raise RequestPath(f"{merged_path}/") from None\n'
  '            if found is None or found[0].merge_slashes is False:\n'
  '                raise NoMatch(have_match_for, websocket_mismatch)\n'
  '            else:\n'
  '                raise RequestPath(f"{merged_path}")\n'
  '        elif found is not None:\n'
  '            rule, raw_values = found\n'
  '\n'
  '            converted = {}\n'
  '            for name, raw in zip(rule._converters.keys(), raw_values):\n'
  '                try:\n'
  '                    value = rule._converters[name].to_python(raw)\n'
  '                except ValidationError:\n'
  '                    raise NoMatch(have_match_for, websocket_mismatch) from None\n'
  '                converted[str(name)] = value\n'
  '            if rule.defaults:\n'
  '                converted.update(rule.defaults)\n'
  '\n'
  '            if rule.alias and rule.map.redirect_defaults:\n'
  '                raise RequestAliasRedirect(converted, rule.endpoint)\n'
  '\n'
  '            return rule, converted\n'
  '\n')]
_R11_EXT_REJECT = {
    "closure-returns-the-exception": ("        try:\n            rv = _match(", "        if len(path) > 2000:\n            raise _no_match()\n\n        try:\n            rv = _match("),
    "locals-renamed-merged-path-own-local": ("        segments = [domain, *path.split(\"/\")]\n        try:\n", "        segments = [domain, *path.split(\"/\")]\n        if len(segments) > self._max_parts + 1:\n            raise NoMatch(have_match_for, websocket_mismatch)\n        try:\n"),
}
TWINS += [{"name": "r11:fresh:" + nm, "edits": [(M, old, new)]} for nm, old, new in _R11_EXT]
MUTANTS += [
    {"name": "r11:fresh:" + nm + "+fast-reject", "expect": "R3.11", "edits": (
        [(M, old, new.replace(*_R11_EXT_REJECT[nm], 1))] if nm in _R11_EXT_REJECT else [(M, old, new), (M, _R11_FIRST, _REJ + _R11_FIRST)]
    )}
    for nm, old, new in _R11_EXT
]
