"""self-validation battery for C03."""
M = "routing/matcher.py"
R = "routing/rules.py"
C = "routing/converters.py"
P = "routing/map.py"

_STATIC_BLOCK = (
    "            if part in state.static:\n"
    "                rv = _match(state.static[part], parts[1:], values)\n"
    "                if rv is not None:\n"
    "                    return rv\n"
)
_FALLBACK_COMMENT = "            # If there is no match and the only part left is a\n"
_LOOP1 = (
    "                for rule in state.rules:\n"
    "                    if rule.methods is not None and method not in rule.methods:\n"
    "                        have_match_for.update(rule.methods)\n"
    "                    elif rule.websocket != websocket:\n"
    "                        websocket_mismatch = True\n"
    "                    else:\n"
    "                        return rule, values\n"
    "\n"
    "                # Test if there is a match with this path with a\n"
)
_LOOP2 = (
    "                    if rule.strict_slashes:\n"
    "                        continue\n"
    "                    if rule.methods is not None and method not in rule.methods:\n"
    "                        have_match_for.update(rule.methods)\n"
    "                    elif rule.websocket != websocket:\n"
    "                        websocket_mismatch = True\n"
    "                    else:\n"
    "                        return rule, values\n"
)
_HANDLER = (
    "            if e.have_match_for:\n"
    "                raise MethodNotAllowed(valid_methods=list(e.have_match_for)) from None\n"
    "\n"
    "            if e.websocket_mismatch:\n"
    "                raise WebsocketMismatch() from None\n"
    "\n"
    "            raise NotFound() from None\n"
)

_HELPER = (
    "        def _first_usable(rules: list[Rule]) -> Rule | None:\n"
    "            nonlocal have_match_for, websocket_mismatch\n"
    "            for rule in rules:\n"
    "                if rule.methods is not None and method not in rule.methods:\n"
    "                    have_match_for.update(rule.methods)\n"
    "                elif rule.websocket != websocket:\n"
    "                    websocket_mismatch = True\n"
    "                else:\n"
    "                    return rule\n"
    "            return None\n"
    "\n"
    "        def _match(\n"
)
_HELPER_CALL = (
    "                hit = _first_usable(state.rules)\n"
    "                if hit is not None:\n"
    "                    return hit, values\n"
    "\n"
    "                # Test if there is a match with this path with a\n"
)

# the slash-fallback loop of the base case, as written today ...
_SLASH_LOOP = (
    "                if \"\" in state.static:\n"
    "                    for rule in state.static[\"\"].rules:\n"
    "                        if websocket == rule.websocket and (\n"
    "                            rule.methods is None or method in rule.methods\n"
    "                        ):\n"
    "                            if rule.strict_slashes:\n"
    "                                raise SlashRequired()\n"
    "                            else:\n"
    "                                return rule, values\n"
    "                        elif (\n"
    "                            not rule.strict_slashes\n"
    "                            and rule.methods is not None\n"
    "                            and method not in rule.methods\n"
    "                        ):\n"
    "                            have_match_for.update(rule.methods)\n"
    "                return None\n"
)
# ... and restructured: dict.get + early return, the method test in a local flag, the methods in a local alias
_SLASH_LOOP_FLAG = (
    "                slash_state = state.static.get(\"\")\n"
    "                if slash_state is None:\n"
    "                    return None\n"
    "                for rule in slash_state.rules:\n"
    "                    allowed = rule.methods\n"
    "                    method_ok = allowed is None or method in allowed\n"
    "                    if websocket == rule.websocket and method_ok:\n"
    "                        if rule.strict_slashes:\n"
    "                            raise SlashRequired()\n"
    "                        return rule, values\n"
    "                    if not rule.strict_slashes and not method_ok:\n"
    "                        have_match_for.update(allowed)\n"
    "                return None\n"
)
_W_INNER = (
    "                    weight = Weighting(\n"
    "                        -len(static_weights),\n"
    "                        static_weights,\n"
    "                        -len(argument_weights),\n"
    "                        argument_weights,\n"
    "                    )\n"
)
_W_OUTER = (
    "        weight = Weighting(\n"
    "            -len(static_weights),\n"
    "            static_weights,\n"
    "            -len(argument_weights),\n"
    "            argument_weights,\n"
    "        )\n"
)
_W_HELPER_AT = "def _pythonize(value: str) -> None | bool | int | float | str:\n"
_W_HELPER = (
    "def _part_weighting(literals: list[tuple[int, int]], converters: list[int]) -> Weighting:\n"
    "    return Weighting(-len(literals), literals, -len(converters), converters)\n"
    "\n"
    "\n" + _W_HELPER_AT
)
_W_HELPER_EDITS = [
    (R, _W_INNER, "                    weight = _part_weighting(static_weights, argument_weights)\n"),
    (R, _W_OUTER, "        weight = _part_weighting(static_weights, argument_weights)\n"),
]
_MERGE_GATE = "        if self.merge_slashes and rv is None:\n"
_MERGE_STMT = "            path = re.sub(\"/{2,}?\", \"/\", path)\n"
_FIRST_TRY = "        try:\n            rv = _match(self._root, [domain, *path.split(\"/\")], [])\n        except SlashRequired:\n            raise RequestPath(f\"{path}/\") from None\n\n        if self.merge_slashes"

MUTANTS = [
    # ---- R3.1 priority order
    {"name": "dynamic-tried-before-static", "expect": "R3.1", "edits": [
        (M, _STATIC_BLOCK, ""),
        (M, _FALLBACK_COMMENT, _STATIC_BLOCK + _FALLBACK_COMMENT),
    ]},
    {"name": "static-result-ignored-until-after-dynamic", "expect": "R3.1", "edits": [
        (M, "                rv = _match(state.static[part], parts[1:], values)\n                if rv is not None:\n                    return rv\n",
            "                static_rv = _match(state.static[part], parts[1:], values)\n"),
        (M, _FALLBACK_COMMENT, "            if part in state.static and static_rv is not None:\n                return static_rv\n" + _FALLBACK_COMMENT),
    ]},
    {"name": "number-weight-150", "expect": "R3.1", "edits": [(C, "    weight = 50\n", "    weight = 150\n")]},
    {"name": "path-weight-equals-default", "expect": "R3.1", "edits": [(C, "    weight = 200\n", "    weight = 100\n")]},
    {"name": "sort-descending", "expect": "R3.1", "edits": [(M, "state.dynamic.sort(key=lambda entry: entry[0].weight)", "state.dynamic.sort(key=lambda entry: entry[0].weight, reverse=True)")]},
    {"name": "sort-by-content", "expect": "R3.1", "edits": [(M, "state.dynamic.sort(key=lambda entry: entry[0].weight)", "state.dynamic.sort(key=lambda entry: entry[0].content)")]},
    {"name": "sort-skips-dynamic-successors", "expect": "R3.1", "edits": [(M, "            for _, new_state in state.dynamic:\n                _update_state(new_state)\n", "")]},
    {"name": "map-add-forgets-remap", "expect": "R3.1", "edits": [(P, "            self._rules_by_endpoint.setdefault(rule.endpoint, []).append(rule)\n        self._remap = True\n", "            self._rules_by_endpoint.setdefault(rule.endpoint, []).append(rule)\n")]},
    {"name": "adapter-match-forgets-map-update", "expect": "R3.1", "edits": [(P, "        self.map.update()\n        if path_info is None:\n            path_info = self.path_info\n        if query_args is None:", "        if path_info is None:\n            path_info = self.path_info\n        if query_args is None:")]},
    {"name": "map-update-sorts-endpoints-only", "expect": "R3.1", "edits": [(P, "            self._matcher.update()\n            for rules in", "            for rules in")]},
    {"name": "literal-count-positive", "expect": "R3.1", "edits": [(R, "                    weight = Weighting(\n                        -len(static_weights),", "                    weight = Weighting(\n                        len(static_weights),")]},
    {"name": "argument-weight-constant", "expect": "R3.1", "edits": [(R, "                argument_weights.append(convobj.weight)\n", "                argument_weights.append(100)\n")]},
    {"name": "instance-weight-override", "expect": "R3.1", "edits": [(C, "        self.fixed_digits = fixed_digits\n", "        self.fixed_digits = fixed_digits\n        self.weight = 100 + fixed_digits\n")]},
    # ---- R3.2 405 bookkeeping
    {"name": "fallback-loop-forgets-methods", "expect": "R3.2", "edits": [(M, _LOOP2, _LOOP2.replace("                        have_match_for.update(rule.methods)\n", "                        pass\n"))]},
    {"name": "base-loop-flags-websocket-for-methods", "expect": "R3.2", "edits": [(M, _LOOP1, _LOOP1.replace("                        have_match_for.update(rule.methods)\n", "                        websocket_mismatch = True\n"))]},
    {"name": "strictness-checked-after-recording", "expect": "R3.2", "edits": [(M, _LOOP2,
        "                    if rule.methods is not None and method not in rule.methods:\n"
        "                        have_match_for.update(rule.methods)\n"
        "                        continue\n"
        "                    if rule.strict_slashes:\n"
        "                        continue\n"
        "                    if rule.websocket != websocket:\n"
        "                        websocket_mismatch = True\n"
        "                    else:\n"
        "                        return rule, values\n")]},
    {"name": "base-loop-records-only-when-websocket-matches", "expect": "R3.2", "edits": [(M, _LOOP1, _LOOP1.replace(
        "                    if rule.methods is not None and method not in rule.methods:\n                        have_match_for.update(rule.methods)\n",
        "                    if rule.methods is not None and method not in rule.methods:\n                        if rule.websocket == websocket:\n                            have_match_for.update(rule.methods)\n"))]},
    {"name": "extracted-helper-forgets-methods", "expect": "R3.2", "edits": [(M, _LOOP1, _HELPER_CALL), (M, "        def _match(\n", _HELPER.replace("                    have_match_for.update(rule.methods)\n", "                    pass\n"))]},
    # ---- R3.3 NoMatch -> exception
    {"name": "method-not-allowed-without-methods", "expect": "R3.3", "edits": [(P, "raise MethodNotAllowed(valid_methods=list(e.have_match_for)) from None", "raise MethodNotAllowed() from None")]},
    {"name": "405-only-without-websocket-mismatch", "expect": "R3.3", "edits": [(P, "            if e.have_match_for:\n", "            if e.have_match_for and not e.websocket_mismatch:\n")]},
    {"name": "405-test-inverted", "expect": "R3.3", "edits": [(P, "            if e.have_match_for:\n", "            if not e.have_match_for:\n")]},
    {"name": "final-nomatch-with-fresh-set", "expect": "R3.3", "edits": [(M, "\n        raise NoMatch(have_match_for, websocket_mismatch)\n", "\n        raise NoMatch(set(), websocket_mismatch)\n")]},
    {"name": "have-match-for-reset-before-retry", "expect": "R3.3", "edits": [(M, "            path = re.sub(\"/{2,}?\", \"/\", path)\n", "            path = re.sub(\"/{2,}?\", \"/\", path)\n            have_match_for.clear()\n")]},
    # ---- R3.4 converter rejection
    {"name": "uuid-converter-rejects-late", "expect": "R3.4", "edits": [(C, "    def to_python(self, value: str) -> uuid.UUID:\n        return uuid.UUID(value)\n", "    def to_python(self, value: str) -> uuid.UUID:\n        rv = uuid.UUID(value)\n        if rv.version is None:\n            raise ValidationError()\n        return rv\n")]},
    {"name": "string-converter-rejects-late", "expect": "R3.4", "edits": [(C, "        self.regex = f\"[^/]{length_regex}\"\n", "        self.regex = f\"[^/]{length_regex}\"\n\n    def to_python(self, value: str) -> str:\n        if value.isspace():\n            raise ValidationError()\n        return value\n")]},
    # ---- R3.5 frozen weights
    {"name": "static-weights-cleared-in-place", "expect": "R3.5", "edits": [(R, "                    argument_weights = []\n                    static_weights = []\n", "                    argument_weights = []\n                    static_weights.clear()\n")]},
    {"name": "argument-weights-reset-forgotten", "expect": "R3.5", "edits": [(R, "                    argument_weights = []\n                    static_weights = []\n", "                    static_weights = []\n")]},
    {"name": "one-fresh-list-for-both-weight-lists", "expect": "R3.5", "edits": [(R, "                    argument_weights = []\n                    static_weights = []\n", "                    argument_weights = static_weights = []\n")]},
    {"name": "argument-weights-del-slice", "expect": "R3.5", "edits": [(R, "                    argument_weights = []\n                    static_weights = []\n", "                    del argument_weights[:]\n                    static_weights = []\n")]},
    # ---- restructured code (flag / alias / helper) with a defect in it
    {"name": "flag-style-fallback-records-strict-rules", "expect": "R3.2", "edits": [(M, _SLASH_LOOP, _SLASH_LOOP_FLAG.replace("if not rule.strict_slashes and not method_ok:", "if not method_ok:"))]},
    {"name": "flag-style-fallback-flag-ignores-unrestricted-rules", "expect": "R3.2", "edits": [(M, _SLASH_LOOP, _SLASH_LOOP_FLAG.replace("method_ok = allowed is None or method in allowed", "method_ok = allowed is not None and method in allowed"))]},
    {"name": "weighting-helper-stores-literal-list-twice", "expect": "R3.1", "edits": [*_W_HELPER_EDITS, (R, _W_HELPER_AT, _W_HELPER.replace("-len(converters), converters)", "-len(converters), literals)"))]},
    {"name": "weighting-helper-and-reset-forgotten", "expect": "R3.5", "edits": [*_W_HELPER_EDITS, (R, _W_HELPER_AT, _W_HELPER), (R, "                    argument_weights = []\n                    static_weights = []\n", "                    static_weights = []\n")]},
    # ---- R3.6
    {"name": "retry-not-gated-on-map-flag", "expect": "R3.6", "edits": [(M, _MERGE_GATE, "        if rv is None:\n")]},
    {"name": "retry-gate-inverted", "expect": "R3.6", "edits": [(M, _MERGE_GATE, "        if not self.merge_slashes and rv is None:\n")]},
    {"name": "slashes-merged-before-first-attempt", "expect": "R3.6", "edits": [(M, _FIRST_TRY, "        path = re.sub(\"/{2,}?\", \"/\", path)\n" + _FIRST_TRY), (M, _MERGE_STMT, "")]},
    {"name": "merged-path-bound-early-retry-ungated", "expect": "R3.6", "edits": [(M, _MERGE_GATE, "        merged = re.sub(\"/{2,}?\", \"/\", path)\n        if rv is None and merged != path:\n"), (M, _MERGE_STMT, "            path = merged\n")]},
]

TWINS = [
    {"name": "base-loop-extracted-into-helper", "edits": [(M, _LOOP1, _HELPER_CALL), (M, "        def _match(\n", _HELPER)]},
    {"name": "static-attempt-walrus", "edits": [(M, "                rv = _match(state.static[part], parts[1:], values)\n                if rv is not None:\n                    return rv\n", "                if (rv := _match(state.static[part], parts[1:], values)) is not None:\n                    return rv\n")]},
    {"name": "methods-recorded-with-ior", "edits": [(M, _LOOP1, _LOOP1.replace("have_match_for.update(rule.methods)", "have_match_for |= rule.methods"))]},
    {"name": "static-attempt-renamed-and-flipped", "edits": [(M, _STATIC_BLOCK,
        "            if part in state.static:\n"
        "                found = _match(state.static[part], parts[1:], values)\n"
        "                if found is None:\n"
        "                    pass\n"
        "                else:\n"
        "                    return found\n")]},
    {"name": "base-loop-early-continue-style", "edits": [(M, _LOOP1,
        "                for candidate in state.rules:\n"
        "                    if candidate.methods is not None and method not in candidate.methods:\n"
        "                        have_match_for.update(candidate.methods)\n"
        "                        continue\n"
        "                    if websocket != candidate.websocket:\n"
        "                        websocket_mismatch = True\n"
        "                        continue\n"
        "                    return candidate, values\n"
        "\n"
        "                # Test if there is a match with this path with a\n")]},
    {"name": "fallback-loop-nested-instead-of-continue", "edits": [(M, _LOOP2,
        "                    if not rule.strict_slashes:\n"
        "                        if rule.methods is None or method in rule.methods:\n"
        "                            if rule.websocket == websocket:\n"
        "                                return rule, values\n"
        "                            websocket_mismatch = True\n"
        "                        else:\n"
        "                            have_match_for.update(rule.methods)\n")]},
    {"name": "weights-rescaled-order-kept", "edits": [(C, "    weight = 50\n", "    weight = 10\n"), (C, "    weight = 200\n", "    weight = 1000\n")]},
    {"name": "fresh-lists-via-list-call-and-reordered", "edits": [(R, "                    argument_weights = []\n                    static_weights = []\n", "                    static_weights = list()\n                    argument_weights = list()\n")]},
    {"name": "sorted-assigned-back", "edits": [(M, "            state.dynamic.sort(key=lambda entry: entry[0].weight)\n", "            state.dynamic = sorted(state.dynamic, key=lambda pair: pair[0].weight)\n")]},
    {"name": "handler-notfound-first", "edits": [(P, _HANDLER,
        "            if len(e.have_match_for) == 0:\n"
        "                if e.websocket_mismatch:\n"
        "                    raise WebsocketMismatch() from None\n"
        "                raise NotFound() from None\n"
        "\n"
        "            raise MethodNotAllowed(valid_methods=list(e.have_match_for)) from None\n")]},
    {"name": "wider-except-around-to-python", "edits": [(M, "                except ValidationError:\n", "                except ValueError:\n")]},
    {"name": "map-update-single-guard", "edits": [(P, "        if not self._remap:\n            return\n\n        with self._remap_lock:\n            if not self._remap:\n                return\n\n            self._matcher.update()", "        with self._remap_lock:\n            if self._remap is False:\n                return\n\n            self._matcher.update()")]},
    {"name": "weighting-by-keyword", "edits": [(R, "        weight = Weighting(\n            -len(static_weights),\n            static_weights,\n            -len(argument_weights),\n            argument_weights,\n        )", "        weight = Weighting(\n            argument_weights=argument_weights,\n            number_argument_weights=-len(argument_weights),\n            static_weights=static_weights,\n            number_static_weights=-len(static_weights),\n        )")]},
    # ---- restructurings found by independent neutral refactorings
    {"name": "fallback-loop-flag-alias-early-return", "edits": [(M, _SLASH_LOOP, _SLASH_LOOP_FLAG)]},
    {"name": "weighting-built-by-module-helper", "edits": [*_W_HELPER_EDITS, (R, _W_HELPER_AT, _W_HELPER)]},
    {"name": "weighting-built-by-closure", "edits": [
        (R, _W_INNER, "                    weight = _weigh()\n"), (R, _W_OUTER, "        weight = _weigh()\n"),
        (R, "        pos = 0\n        while pos < len(rule):\n", "        def _weigh() -> Weighting:\n            return Weighting(-len(static_weights), static_weights, -len(argument_weights), argument_weights)\n\n        pos = 0\n        while pos < len(rule):\n")]},
    {"name": "merged-path-computed-above-the-gate", "edits": [(M, _MERGE_GATE, "        merged = re.sub(\"/{2,}?\", \"/\", path)\n" + _MERGE_GATE), (M, _MERGE_STMT, "            path = merged\n")]},
    {"name": "merge-gate-as-early-exit-with-alias", "edits": [(M, _MERGE_GATE + "            # Try to match again, but with slashes merged\n", "        if rv is None:\n            merge = self.merge_slashes\n            if merge is False:\n                raise NoMatch(have_match_for, websocket_mismatch)\n"), (M, "        elif rv is not None:\n            rule, values = rv\n", "        else:\n            rule, values = rv\n")]},
    {"name": "precompiled-merge-pattern", "edits": [(M, _MERGE_STMT, "            path = re.compile(\"/{2,}\").sub(\"/\", path)\n")]},
    {"name": "static-attempt-through-dict-get", "edits": [(M, _STATIC_BLOCK,
        "            static_next = state.static.get(part)\n"
        "            if static_next is not None:\n"
        "                rv = _match(static_next, parts[1:], values)\n"
        "                if rv is not None:\n"
        "                    return rv\n")]},
    {"name": "argument-weight-through-local-and-augassign", "edits": [(R, "                argument_weights.append(convobj.weight)\n", "                conv_weight = convobj.weight\n                argument_weights += [conv_weight]\n")]},
]
