"""self-validation battery for C07."""
H = "http.py"
A = "datastructures/auth.py"
S = "sansio/http.py"
Q = "sansio/request.py"
U = "urls.py"
F = "formparser.py"
I = "_internal.py"
MUTANTS = [
    {"name": "auth-handler-narrowed", "expect": "R7.1", "edits": [(A, "            except ValueError:\n                return None", "            except UnicodeError:\n                return None")]},
    {"name": "parse-date-handler-loses-overflow", "expect": "R7.1", "edits": [(H, "    except (TypeError, ValueError, OverflowError):", "    except (TypeError, ValueError):")]},
    {"name": "parse-age-without-try", "expect": "R7.1", "edits": [(H, "    try:\n        seconds = int(value)\n    except ValueError:\n        return None\n", "    seconds = int(value)\n")]},
    {"name": "cookie-strict-decode", "expect": "R7.1", "edits": [(H, 'cookie = cookie.encode("latin1").decode(errors="replace")', 'cookie = cookie.encode("latin1").decode()')]},
    {"name": "args-strict-decode", "expect": "R7.1", "edits": [(Q, '                self.query_string.decode(errors="replace"),', "                self.query_string.decode(),")]},
    {"name": "content-range-plain-int-outside-try", "expect": "R7.1", "edits": [(H, "    try:\n        start = _plain_int(start_str)\n        stop = _plain_int(stop_str) + 1\n    except ValueError:\n        return None\n", "    start = _plain_int(start_str)\n    stop = _plain_int(stop_str) + 1\n")]},
    {"name": "new-int-on-header", "expect": "R7.1", "edits": [(Q, "        return parse_range_header(self.headers.get(\"Range\"))", "        if int(self.headers.get(\"X-Range-Version\", \"1\")) > 1:\n            return None\n        return parse_range_header(self.headers.get(\"Range\"))")]},
    {"name": "range-guard-off-by-one", "expect": "R7.1", "edits": [(H, "                if begin >= end:\n                    return None", "                if begin > end:\n                    return None")]},
    {"name": "unslash-regex-any-octal", "expect": "R7.1", "edits": [(S, r'rb"\\([0-3][0-7]{2}|.)"', r'rb"\\([0-7]{3}|.)"')]},
    {"name": "empty-option-key-kept", "expect": "R7.1", "edits": [(H, "        if not pk:\n            # *=a or *0=a has no key, skip this invalid part\n            continue\n\n", "")]},
    {"name": "q-regex-allows-exponent", "expect": "R7.1", "edits": [(H, '_q_value_re = re.compile(r"-?\\d+(\\.\\d+)?", re.ASCII)', '_q_value_re = re.compile(r"-?\\d+(\\.\\d+)?(e\\w+)?", re.ASCII)')]},
    {"name": "idna-handler-narrow", "expect": "R7.1", "edits": [(U, "        return data.decode(\"idna\")\n    except UnicodeError:", "        return data.decode(\"idna\")\n    except UnicodeDecodeError:")]},
    {"name": "dict-header-match-unchecked", "expect": "R7.1", "edits": [(H, "            match = _charset_value_re.match(value)\n\n            if match:\n                # If there is a charset marker in the value, split it off.\n                encoding, value = match.groups()\n                encoding = encoding.lower()", "            match = _charset_value_re.match(value)\n            # If there is a charset marker in the value, split it off.\n            encoding, value = match.groups()\n            encoding = encoding.lower()")]},
    {"name": "form-parser-not-silent", "expect": "R7.1", "edits": [("wrappers/request.py", "            max_form_parts=self.max_form_parts,\n            cls=self.parameter_storage_class,", "            max_form_parts=self.max_form_parts,\n            cls=self.parameter_storage_class,\n            silent=False,")]},
    {"name": "etag-loop-without-advance", "expect": "R7.2", "edits": [(H, "        pos = match.end()\n    return ds.ETags(strong, weak)", "        pos = match.start()\n    return ds.ETags(strong, weak)")]},
    {"name": "options-loop-forgets-to-advance", "expect": "R7.2", "edits": [(H, "        rest = rest[end + 1 :].lstrip()", "        rest = rest[end:].lstrip()")]},
    {"name": "accessor-catches-only-valueerror", "expect": "R7.3", "edits": [(I, "            except (ValueError, TypeError):\n                return self.default", "            except ValueError:\n                return self.default")]},
    {"name": "args-default-error-handler", "expect": "R7.3", "edits": [(Q, '                keep_blank_values=True,\n                errors="werkzeug.url_quote",\n            )\n        )', "                keep_blank_values=True,\n            )\n        )")]},
    {"name": "decoding-dance-strict", "expect": "R7.3", "edits": [(I, 'return s.encode("latin1").decode(errors="replace")', 'return s.encode("latin1").decode()')]},
]
TWINS = [
    {"name": "handler-widened", "edits": [(H, "    except (TypeError, ValueError, OverflowError):", "    except Exception:")]},
    {"name": "guarded-int-moved-into-helper", "edits": [(H, "def parse_age(value: str | None = None) -> timedelta | None:", "def _age_seconds(value: str) -> int | None:\n    try:\n        return int(value)\n    except ValueError:\n        return None\n\n\ndef parse_age(value: str | None = None) -> timedelta | None:"), (H, "    try:\n        seconds = int(value)\n    except ValueError:\n        return None\n    if seconds < 0:", "    seconds = _age_seconds(value)\n    if seconds is None:\n        return None\n    if seconds < 0:")]},
    {"name": "range-guard-mirrored", "edits": [(H, "                if begin >= end:\n                    return None", "                if end <= begin:\n                    return None")]},
]

# ---------------------------------------------------------------------
# refactored shapes (own variants): a site moved into a helper / rewritten must be accepted only while the premise can
# still be established on the new shape; the same shape with the premise broken must still be reported.
M = "sansio/multipart.py"
AC = "datastructures/accept.py"

Q_HELPER = (H, '_TAnyAccept = t.TypeVar("_TAnyAccept", bound="ds.Accept")', '_TAnyAccept = t.TypeVar("_TAnyAccept", bound="ds.Accept")\n\n\ndef _to_quality(text: str) -> float:\n    return float(text)')
Q_CALL = (H, "            q = float(q_str)\n", "            q = _to_quality(q_str)\n")
Q_CALL_UNGUARDED = (H, "            if _q_value_re.fullmatch(q_str) is None:\n                # ignore an invalid q\n                continue\n\n            q = float(q_str)\n", "            q = _to_quality(q_str)\n")
Q_EXP = (H, '_q_value_re = re.compile(r"-?\\d+(\\.\\d+)?", re.ASCII)', '_q_value_re = re.compile(r"-?\\d+(\\.\\d+)?(e\\w+)?", re.ASCII)')

UNSLASH_OLD = '    v = m.group(1)\n\n    if len(v) == 1:\n        return v\n\n    return int(v, 8).to_bytes(1, "big")\n'
UNSLASH_RENAMED = (S, UNSLASH_OLD, '    digits = m.group(1)\n\n    if len(digits) > 1:\n        code = int(digits, 8)\n        return code.to_bytes(1, "big")\n\n    return digits\n')
UNSLASH_NO_TEST = (S, UNSLASH_OLD, '    digits = m.group(1)\n    code = int(digits, 8)\n    return code.to_bytes(1, "big")\n')

OPT_HELPER = (H, "def dump_options_header(header: str | None, options: t.Mapping[str, t.Any]) -> str:", 'def _fmt_option(name: str, val: t.Any) -> str:\n    star = name[-1] == "*"\n    return f"{name}={val}" if star else f"{name}={quote_header_value(val)}"\n\n\ndef dump_options_header(header: str | None, options: t.Mapping[str, t.Any]) -> str:')
OPT_CALL = (H, '        if key[-1] == "*":\n            segments.append(f"{key}={value}")\n        else:\n            segments.append(f"{key}={quote_header_value(value)}")\n', "        segments.append(_fmt_option(key, value))\n")
EMPTY_KEY_KEPT = (H, "        if not pk:\n            # *=a or *0=a has no key, skip this invalid part\n            continue\n\n", "")

RANGE_OLD = """        if "-" not in item:
            return None
        if item.startswith("-"):
            if last_end < 0:
                return None
            try:
                begin = _plain_int(item)
            except ValueError:
                return None
            end = None
            last_end = -1
        elif "-" in item:
            begin_str, end_str = item.split("-", 1)
            begin_str = begin_str.strip()
            end_str = end_str.strip()

            try:
                begin = _plain_int(begin_str)
            except ValueError:
                return None

            if begin < last_end or last_end < 0:
                return None
            if end_str:
                try:
                    end = _plain_int(end_str) + 1
                except ValueError:
                    return None

                if begin >= end:
                    return None
            else:
                end = None
            last_end = end if end is not None else -1
        ranges.append((begin, end))
"""
RANGE_NEW = """        if "-" not in item:
            return None
        if last_end < 0:
            return None
        first, _dash, last = item.partition("-")
        first = first.strip()
        last = last.strip()
        try:
            if not first:
                begin = _plain_int(item)
                end = None
            else:
                begin = _plain_int(first)
                end = _plain_int(last) + 1 if last else None
        except ValueError:
            return None
        if first:
            if last_end > begin:
                return None
            if end is not None and not begin < end:
                return None
        last_end = end if end is not None else -1
        ranges.append((begin, end))
"""
RANGE_REWRITTEN = (H, RANGE_OLD, RANGE_NEW)
RANGE_REWRITTEN_OFF_BY_ONE = (H, RANGE_OLD, RANGE_NEW.replace("not begin < end", "not begin <= end"))
RANGE_REWRITTEN_NO_FLOOR = (H, RANGE_OLD, RANGE_NEW.replace("            if last_end > begin:\n                return None\n", ""))

EVENT_LOOP_HEAD = (F, "            event = parser.next_event()\n            while not isinstance(event, (Epilogue, NeedData)):\n", "            while True:\n                event = parser.next_event()\n                if isinstance(event, (NeedData, Epilogue)):\n                    break\n")
EVENT_LOOP_HEAD_NO_NEED_DATA = (F, "            event = parser.next_event()\n            while not isinstance(event, (Epilogue, NeedData)):\n", "            while True:\n                event = parser.next_event()\n                if isinstance(event, Epilogue):\n                    break\n")
EVENT_LOOP_TAIL = (F, "\n                event = parser.next_event()\n\n        return self.cls(fields), self.cls(files)", "\n        return self.cls(fields), self.cls(files)")
CHUNK_OLD = "    while True:\n        data = read(size)\n\n        if not data:\n            break\n\n        yield data\n"
CHUNK_WALRUS = (F, CHUNK_OLD, "    while chunk := read(size):\n        yield chunk\n")
CHUNK_NO_BREAK = (F, CHUNK_OLD, "    while True:\n        data = read(size)\n\n        yield data\n")

IDNA_HELPER = (U, "def _decode_idna(domain: str) -> str:", 'def _label_text(raw: bytes) -> str:\n    try:\n        return raw.decode("idna")\n    except UnicodeError:\n        return raw.decode("ascii")\n\n\ndef _decode_idna(domain: str) -> str:')
IDNA_CALL = (U, '        try:\n            parts.append(part.decode("idna"))\n        except UnicodeError:\n            parts.append(part.decode("ascii"))\n', "        parts.append(_label_text(part))\n")
IDNA_UTF8 = (U, '        data = domain.encode("ascii")\n', '        data = domain.encode("utf-8")\n')

MIME_HELPER = (AC, "def _normalize_mime(value: str) -> list[str]:", "def _mime_head(value: str) -> tuple[str, str]:\n    pieces = _normalize_mime(value)\n    return pieces[0], pieces[1]\n\n\ndef _normalize_mime(value: str) -> list[str]:")
MIME_CALL_V = (AC, "        value_type, value_subtype = normalized_value[:2]\n", "        value_type, value_subtype = _mime_head(value)\n")
MIME_CALL_I = (AC, "        item_type, item_subtype = normalized_item[:2]\n", "        item_type, item_subtype = _mime_head(item)\n")
MIME_ITEM_UNGUARDED = (AC, '        if "/" not in item:\n            return False\n\n        # value comes', "        # value comes")

MUTANTS += [
    {"name": "q-helper-regex-allows-exponent", "expect": "R7.1", "edits": [Q_HELPER, Q_CALL, Q_EXP]},
    {"name": "q-helper-caller-guard-dropped", "expect": "R7.1", "edits": [Q_HELPER, Q_CALL_UNGUARDED]},
    {"name": "unslash-renamed-without-length-test", "expect": "R7.1", "edits": [UNSLASH_NO_TEST]},
    {"name": "unslash-renamed-any-octal", "expect": "R7.1", "edits": [UNSLASH_RENAMED, (S, r'rb"\\([0-3][0-7]{2}|.)"', r'rb"\\([0-7]{3}|.)"')]},
    {"name": "option-helper-empty-key-kept", "expect": "R7.1", "edits": [OPT_HELPER, OPT_CALL, EMPTY_KEY_KEPT]},
    {"name": "range-rewritten-off-by-one", "expect": "R7.1", "edits": [RANGE_REWRITTEN_OFF_BY_ONE]},
    {"name": "range-rewritten-begin-floor-dropped", "expect": "R7.1", "edits": [RANGE_REWRITTEN_NO_FLOOR]},
    {"name": "idna-helper-fed-utf8", "expect": "R7.1", "edits": [IDNA_HELPER, IDNA_CALL, IDNA_UTF8]},
    {"name": "mime-helper-item-unguarded", "expect": "R7.1", "edits": [MIME_HELPER, MIME_CALL_V, MIME_CALL_I, MIME_ITEM_UNGUARDED]},
    {"name": "key-rebound-after-emptiness-test", "expect": "R7.1", "edits": [(H, "        key = key.strip()\n\n        if not key:\n            # =value is not valid\n            continue\n", "        if not key:\n            # =value is not valid\n            continue\n\n        key = key.strip()\n")]},
    {"name": "event-loop-never-leaves-on-need-data", "expect": "R7.2", "edits": [EVENT_LOOP_HEAD_NO_NEED_DATA, EVENT_LOOP_TAIL]},
    {"name": "chunk-loop-without-empty-read-exit", "expect": "R7.2", "edits": [CHUNK_NO_BREAK]},
    {"name": "etag-regex-tail-optional", "expect": "R7.2", "edits": [(H, "(?:\\s*,\\s*|$)')", "(?:\\s*,\\s*)?')")]},
    {"name": "data-event-without-buffer-deletion", "expect": "R7.2", "edits": [(M, "self._parse_data(self.buffer, start=False)\n            del self.buffer[:del_index]\n", "self._parse_data(self.buffer, start=False)\n")]},
]
TWINS += [
    {"name": "q-conversion-in-helper-guard-in-caller", "edits": [Q_HELPER, Q_CALL]},
    {"name": "unslash-renamed-flipped", "edits": [UNSLASH_RENAMED]},
    {"name": "option-item-helper", "edits": [OPT_HELPER, OPT_CALL]},
    {"name": "range-parser-rewritten", "edits": [RANGE_REWRITTEN]},
    {"name": "event-loop-while-true-and-walrus-chunks", "edits": [EVENT_LOOP_HEAD, EVENT_LOOP_TAIL, CHUNK_WALRUS]},
    {"name": "idna-label-helper", "edits": [IDNA_HELPER, IDNA_CALL]},
    {"name": "mime-head-helper-guard-in-caller", "edits": [MIME_HELPER, MIME_CALL_V, MIME_CALL_I]},
    {"name": "match-test-spelled-is-not-none", "edits": [(H, "            key = key[:-1]\n            match = _charset_value_re.match(value)\n\n            if match:\n", "            key = key[:-1]\n            match = _charset_value_re.match(value)\n\n            if match is not None:\n")]},
    {"name": "csp-early-continue-plain-split", "edits": [(H, '        if " " in policy:\n            directive, value = policy.strip().split(" ", 1)\n            items.append((directive.strip(), value.strip()))\n', '        if " " not in policy:\n            continue\n\n        directive, value = policy.split(" ", 1)\n        items.append((directive.strip(), value.strip()))\n')]},
]

# a read / allocation sized by the client's Content-Length (new modelled kind `size`)
W = "wsgi.py"
MUTANTS += [
    {"name": "readall-asks-for-the-whole-remaining-length", "expect": "R7.1", "edits": [(W, "            data = self.read(1024 * 64)\n", "            left = self.limit - self._pos\n            data = self.read(max(1, left))\n")]},
    {"name": "temp-buffer-sized-by-limit-unguarded", "expect": "R7.1", "edits": [(W, "            if size <= remaining:\n                # The size fits", "            if size == remaining:\n                # The size fits")]},
]
TWINS += [
    {"name": "readall-chunk-capped-by-min", "edits": [(W, "            data = self.read(1024 * 64)\n", "            data = self.read(min(1024 * 64, self.limit - self._pos))\n")]},
    {"name": "temp-buffer-in-conditional-expression", "edits": [(W, "            else:\n                # Use a temp buffer with the remaining limit as the size.\n                temp_b = bytearray(remaining)\n", "            else:\n                # Use a temp buffer with the remaining limit as the size.\n                small = remaining < size\n                temp_b = bytearray(remaining) if small else bytearray(size)\n")]},
]

# further spellings of the same code
TWINS += [
    {"name": "etag-loop-else-break", "edits": [(H, "        if match is None:\n            break\n        is_weak, quoted, raw = match.groups()\n        if raw == \"*\":\n            return ds.ETags(star_tag=True)\n        elif quoted:\n            raw = quoted\n        if is_weak:\n            weak.append(raw)\n        else:\n            strong.append(raw)\n        pos = match.end()\n", "        if match is not None:\n            is_weak, quoted, raw = match.groups()\n            if raw == \"*\":\n                return ds.ETags(star_tag=True)\n            elif quoted:\n                raw = quoted\n            if is_weak:\n                weak.append(raw)\n            else:\n                strong.append(raw)\n            pos = match.end()\n        else:\n            break\n")]},
    {"name": "option-parts-unpacked-in-the-body", "edits": [(H, "    for pk, pv in parts:\n        if pk[-1] == \"*\":", "    for part in parts:\n        pk, pv = part\n\n        if pk[-1] == \"*\":")]},
    {"name": "q-converted-from-the-match-object", "edits": [(H, "            if _q_value_re.fullmatch(q_str) is None:\n                # ignore an invalid q\n                continue\n\n            q = float(q_str)\n", "            q_match = _q_value_re.fullmatch(q_str)\n\n            if not q_match:\n                # ignore an invalid q\n                continue\n\n            q = float(q_match.group())\n")]},
    {"name": "options-iterated-by-key", "edits": [(H, "    for key, value in options.items():\n        if value is None:\n            continue\n\n        if key[-1] == \"*\":", "    for key in options:\n        value = options[key]\n\n        if value is None:\n            continue\n\n        if key[-1] == \"*\":")]},
]
