"""self-validation battery for C07."""
H = "http.py"
A = "datastructures/auth.py"
S = "sansio/http.py"
Q = "sansio/request.py"
U = "urls.py"
F = "formparser.py"
I = "_internal.py"
MUTANTS = [
    {"name": "auth-handler-narrowed", "expect": "R7.1", "edits": [(A, "            except ValueError:\n                return None", "            except UnicodeError:\n                return None")]},
    {"name": "parse-date-handler-loses-overflow", "expect": "R7.1", "edits": [(H, "    except (TypeError, ValueError, OverflowError):", "    except (TypeError, ValueError):")]},
    {"name": "parse-age-without-try", "expect": "R7.1", "edits": [(H, "    try:\n        seconds = int(value)\n    except ValueError:\n        return None\n", "    seconds = int(value)\n")]},
    {"name": "cookie-strict-decode", "expect": "R7.1", "edits": [(H, 'cookie = cookie.encode("latin1").decode(errors="replace")', 'cookie = cookie.encode("latin1").decode()')]},
    {"name": "args-strict-decode", "expect": "R7.1", "edits": [(Q, '                self.query_string.decode(errors="replace"),', "                self.query_string.decode(),")]},
    {"name": "content-range-plain-int-outside-try", "expect": "R7.1", "edits": [(H, "    try:\n        start = _plain_int(start_str)\n        stop = _plain_int(stop_str) + 1\n    except ValueError:\n        return None\n", "    start = _plain_int(start_str)\n    stop = _plain_int(stop_str) + 1\n")]},
    {"name": "new-int-on-header", "expect": "R7.1", "edits": [(Q, "        return parse_range_header(self.headers.get(\"Range\"))", "        if int(self.headers.get(\"X-Range-Version\", \"1\")) > 1:\n            return None\n        return parse_range_header(self.headers.get(\"Range\"))")]},
    {"name": "range-guard-off-by-one", "expect": "R7.1", "edits": [(H, "                if begin >= end:\n                    return None", "                if begin > end:\n                    return None")]},
    {"name": "unslash-regex-any-octal", "expect": "R7.1", "edits": [(S, r'rb"\\([0-3][0-7]{2}|.)"', r'rb"\\([0-7]{3}|.)"')]},
    {"name": "empty-option-key-kept", "expect": "R7.1", "edits": [(H, "        if not pk:\n            # *=a or *0=a has no key, skip this invalid part\n            continue\n\n", "")]},
    {"name": "q-regex-allows-exponent", "expect": "R7.1", "edits": [(H, '_q_value_re = re.compile(r"-?\\d+(\\.\\d+)?", re.ASCII)', '_q_value_re = re.compile(r"-?\\d+(\\.\\d+)?(e\\w+)?", re.ASCII)')]},
    {"name": "idna-handler-narrow", "expect": "R7.1", "edits": [(U, "        return data.decode(\"idna\")\n    except UnicodeError:", "        return data.decode(\"idna\")\n    except UnicodeDecodeError:")]},
    {"name": "dict-header-match-unchecked", "expect": "R7.1", "edits": [(H, "            match = _charset_value_re.match(value)\n\n            if match:\n                # If there is a charset marker in the value, split it off.\n                encoding, value = match.groups()\n                encoding = encoding.lower()", "            match = _charset_value_re.match(value)\n            # If there is a charset marker in the value, split it off.\n            encoding, value = match.groups()\n            encoding = encoding.lower()")]},
    {"name": "form-parser-not-silent", "expect": "R7.1", "edits": [("wrappers/request.py", "            max_form_parts=self.max_form_parts,\n            cls=self.parameter_storage_class,", "            max_form_parts=self.max_form_parts,\n            cls=self.parameter_storage_class,\n            silent=False,")]},
    {"name": "etag-loop-without-advance", "expect": "R7.2", "edits": [(H, "        pos = match.end()\n    return ds.ETags(strong, weak)", "        pos = match.start()\n    return ds.ETags(strong, weak)")]},
    {"name": "options-loop-forgets-to-advance", "expect": "R7.2", "edits": [(H, "        rest = rest[end + 1 :].lstrip()", "        rest = rest[end:].lstrip()")]},
    {"name": "accessor-catches-only-valueerror", "expect": "R7.3", "edits": [(I, "            except (ValueError, TypeError):\n                return self.default", "            except ValueError:\n                return self.default")]},
    {"name": "args-default-error-handler", "expect": "R7.3", "edits": [(Q, '                keep_blank_values=True,\n                errors="werkzeug.url_quote",\n            )\n        )', "                keep_blank_values=True,\n            )\n        )")]},
    {"name": "decoding-dance-strict", "expect": "R7.3", "edits": [(I, 'return s.encode("latin1").decode(errors="replace")', 'return s.encode("latin1").decode()')]},
]
TWINS = [
    {"name": "handler-widened", "edits": [(H, "    except (TypeError, ValueError, OverflowError):", "    except Exception:")]},
    {"name": "guarded-int-moved-into-helper", "edits": [(H, "def parse_age(value: str | None = None) -> timedelta | None:", "def _age_seconds(value: str) -> int | None:\n    try:\n        return int(value)\n    except ValueError:\n        return None\n\n\ndef parse_age(value: str | None = None) -> timedelta | None:"), (H, "    try:\n        seconds = int(value)\n    except ValueError:\n        return None\n    if seconds < 0:", "    seconds = _age_seconds(value)\n    if seconds is None:\n        return None\n    if seconds < 0:")]},
    {"name": "range-guard-mirrored", "edits": [(H, "                if begin >= end:\n                    return None", "                if end <= begin:\n                    return None")]},
]

# ---------------------------------------------------------------------
# refactored shapes (own variants): a site moved into a helper / rewritten must be accepted only while the premise can
# still be established on the new shape; the same shape with the premise broken must still be reported.
M = "sansio/multipart.py"
AC = "datastructures/accept.py"

Q_HELPER = (H, '_TAnyAccept = t.TypeVar("_TAnyAccept", bound="ds.Accept")', '_TAnyAccept = t.TypeVar("_TAnyAccept", bound="ds.Accept")\n\n\ndef _to_quality(text: str) -> float:\n    return float(text)')
Q_CALL = (H, "            q = float(q_str)\n", "            q = _to_quality(q_str)\n")
Q_CALL_UNGUARDED = (H, "            if _q_value_re.fullmatch(q_str) is None:\n                # ignore an invalid q\n                continue\n\n            q = float(q_str)\n", "            q = _to_quality(q_str)\n")
Q_EXP = (H, '_q_value_re = re.compile(r"-?\\d+(\\.\\d+)?", re.ASCII)', '_q_value_re = re.compile(r"-?\\d+(\\.\\d+)?(e\\w+)?", re.ASCII)')

UNSLASH_OLD = '    v = m.group(1)\n\n    if len(v) == 1:\n        return v\n\n    return int(v, 8).to_bytes(1, "big")\n'
UNSLASH_RENAMED = (S, UNSLASH_OLD, '    digits = m.group(1)\n\n    if len(digits) > 1:\n        code = int(digits, 8)\n        return code.to_bytes(1, "big")\n\n    return digits\n')
UNSLASH_NO_TEST = (S, UNSLASH_OLD, '    digits = m.group(1)\n    code = int(digits, 8)\n    return code.to_bytes(1, "big")\n')

OPT_HELPER = (H, "def dump_options_header(header: str | None, options: t.Mapping[str, t.Any]) -> str:", 'def _fmt_option(name: str, val: t.Any) -> str:\n    star = name[-1] == "*"\n    return f"{name}={val}" if star else f"{name}={quote_header_value(val)}"\n\n\ndef dump_options_header(header: str | None, options: t.Mapping[str, t.Any]) -> str:')
OPT_CALL = (H, '        if key[-1] == "*":\n            segments.append(f"{key}={value}")\n        else:\n            segments.append(f"{key}={quote_header_value(value)}")\n', "        segments.append(_fmt_option(key, value))\n")
EMPTY_KEY_KEPT = (H, "        if not pk:\n            # *=a or *0=a has no key, skip this invalid part\n            continue\n\n", "")

RANGE_OLD = """        if "-" not in item:
            return None
        if item.startswith("-"):
            if last_end < 0:
                return None
            try:
                begin = _plain_int(item)
            except ValueError:
                return None
            end = None
            last_end = -1
        elif "-" in item:
            begin_str, end_str = item.split("-", 1)
            begin_str = begin_str.strip()
            end_str = end_str.strip()

            try:
                begin = _plain_int(begin_str)
            except ValueError:
                return None

            if begin < last_end or last_end < 0:
                return None
            if end_str:
                if end_str.startswith("-"):
                    # _plain_int accepts a sign, a position does not have one
                    return None

                try:
                    end = _plain_int(end_str) + 1
                except ValueError:
                    return None

                if begin >= end:
                    return None
            else:
                end = None
            last_end = end if end is not None else -1
        ranges.append((begin, end))
"""
RANGE_NEW = """        if "-" not in item:
            return None
        if last_end < 0:
            return None
        first, _dash, last = item.partition("-")
        first = first.strip()
        last = last.strip()
        try:
            if not first:
                begin = _plain_int(item)
                end = None
            else:
                begin = _plain_int(first)
                end = _plain_int(last) + 1 if last else None
        except ValueError:
            return None
        if first:
            if last_end > begin:
                return None
            if end is not None and not begin < end:
                return None
        last_end = end if end is not None else -1
        ranges.append((begin, end))
"""
RANGE_REWRITTEN = (H, RANGE_OLD, RANGE_NEW)
RANGE_REWRITTEN_OFF_BY_ONE = (H, RANGE_OLD, RANGE_NEW.replace("not begin < end", "not begin <= end"))
RANGE_REWRITTEN_NO_FLOOR = (H, RANGE_OLD, RANGE_NEW.replace("            if last_end > begin:\n                return None\n", ""))

EVENT_LOOP_HEAD = (F, "            event = parser.next_event()\n            while not isinstance(event, (Epilogue, NeedData)):\n", "            while True:\n                event = parser.next_event()\n                if isinstance(event, (NeedData, Epilogue)):\n                    break\n")
EVENT_LOOP_HEAD_NO_NEED_DATA = (F, "            event = parser.next_event()\n            while not isinstance(event, (Epilogue, NeedData)):\n", "            while True:\n                event = parser.next_event()\n                if isinstance(event, Epilogue):\n                    break\n")
EVENT_LOOP_TAIL = (F, "\n                event = parser.next_event()\n\n        return self.cls(fields), self.cls(files)", "\n        return self.cls(fields), self.cls(files)")
CHUNK_OLD = "    while True:\n        data = read(size)\n\n        if not data:\n            break\n\n        yield data\n"
CHUNK_WALRUS = (F, CHUNK_OLD, "    while chunk := read(size):\n        yield chunk\n")
CHUNK_NO_BREAK = (F, CHUNK_OLD, "    while True:\n        data = read(size)\n\n        yield data\n")

IDNA_HELPER = (U, "def _decode_idna(domain: str) -> str:", 'def _label_text(raw: bytes) -> str:\n    try:\n        return raw.decode("idna")\n    except UnicodeError:\n        return raw.decode("ascii")\n\n\ndef _decode_idna(domain: str) -> str:')
IDNA_CALL = (U, '        try:\n            parts.append(part.decode("idna"))\n        except UnicodeError:\n            parts.append(part.decode("ascii"))\n', "        parts.append(_label_text(part))\n")
IDNA_UTF8 = (U, '        data = domain.encode("ascii")\n', '        data = domain.encode("utf-8")\n')

MIME_HELPER = (AC, "def _normalize_mime(value: str) -> list[str]:", "def _mime_head(value: str) -> tuple[str, str]:\n    pieces = _normalize_mime(value)\n    return pieces[0], pieces[1]\n\n\ndef _normalize_mime(value: str) -> list[str]:")
MIME_CALL_V = (AC, "        value_type, value_subtype = normalized_value[:2]\n", "        value_type, value_subtype = _mime_head(value)\n")
MIME_CALL_I = (AC, "        item_type, item_subtype = normalized_item[:2]\n", "        item_type, item_subtype = _mime_head(item)\n")
MIME_ITEM_UNGUARDED = (AC, '        if "/" not in item:\n            return False\n\n        # value comes', "        # value comes")

MUTANTS += [
    {"name": "q-helper-regex-allows-exponent", "expect": "R7.1", "edits": [Q_HELPER, Q_CALL, Q_EXP]},
    {"name": "q-helper-caller-guard-dropped", "expect": "R7.1", "edits": [Q_HELPER, Q_CALL_UNGUARDED]},
    {"name": "unslash-renamed-without-length-test", "expect": "R7.1", "edits": [UNSLASH_NO_TEST]},
    {"name": "unslash-renamed-any-octal", "expect": "R7.1", "edits": [UNSLASH_RENAMED, (S, r'rb"\\([0-3][0-7]{2}|.)"', r'rb"\\([0-7]{3}|.)"')]},
    {"name": "option-helper-empty-key-kept", "expect": "R7.1", "edits": [OPT_HELPER, OPT_CALL, EMPTY_KEY_KEPT]},
    {"name": "range-rewritten-off-by-one", "expect": "R7.1", "edits": [RANGE_REWRITTEN_OFF_BY_ONE]},
    {"name": "range-rewritten-begin-floor-dropped", "expect": "R7.1", "edits": [RANGE_REWRITTEN_NO_FLOOR]},
    {"name": "idna-helper-fed-utf8", "expect": "R7.1", "edits": [IDNA_HELPER, IDNA_CALL, IDNA_UTF8]},
    {"name": "mime-helper-item-unguarded", "expect": "R7.1", "edits": [MIME_HELPER, MIME_CALL_V, MIME_CALL_I, MIME_ITEM_UNGUARDED]},
    {"name": "key-rebound-after-emptiness-test", "expect": "R7.1", "edits": [(H, "        key = key.strip()\n\n        if not key:\n            # =value is not valid\n            continue\n", "        if not key:\n            # =value is not valid\n            continue\n\n        key = key.strip()\n")]},
    {"name": "event-loop-never-leaves-on-need-data", "expect": "R7.2", "edits": [EVENT_LOOP_HEAD_NO_NEED_DATA, EVENT_LOOP_TAIL]},
    {"name": "chunk-loop-without-empty-read-exit", "expect": "R7.2", "edits": [CHUNK_NO_BREAK]},
    {"name": "etag-regex-tail-optional", "expect": "R7.2", "edits": [(H, "(?:\\s*,\\s*|$)')", "(?:\\s*,\\s*)?')")]},
    {"name": "data-event-without-buffer-deletion", "expect": "R7.2", "edits": [(M, "self._parse_data(self.buffer, start=False)\n            del self.buffer[:del_index]\n", "self._parse_data(self.buffer, start=False)\n")]},
]
TWINS += [
    {"name": "q-conversion-in-helper-guard-in-caller", "edits": [Q_HELPER, Q_CALL]},
    {"name": "unslash-renamed-flipped", "edits": [UNSLASH_RENAMED]},
    {"name": "option-item-helper", "edits": [OPT_HELPER, OPT_CALL]},
    {"name": "range-parser-rewritten", "edits": [RANGE_REWRITTEN]},
    {"name": "event-loop-while-true-and-walrus-chunks", "edits": [EVENT_LOOP_HEAD, EVENT_LOOP_TAIL, CHUNK_WALRUS]},
    {"name": "idna-label-helper", "edits": [IDNA_HELPER, IDNA_CALL]},
    {"name": "mime-head-helper-guard-in-caller", "edits": [MIME_HELPER, MIME_CALL_V, MIME_CALL_I]},
    {"name": "match-test-spelled-is-not-none", "edits": [(H, "            key = key[:-1]\n            match = _charset_value_re.match(value)\n\n            if match:\n", "            key = key[:-1]\n            match = _charset_value_re.match(value)\n\n            if match is not None:\n")]},
    {"name": "csp-early-continue-plain-split", "edits": [(H, '        if " " in policy:\n            directive, value = policy.strip().split(" ", 1)\n            items.append((directive.strip(), value.strip()))\n', '        if " " not in policy:\n            continue\n\n        directive, value = policy.split(" ", 1)\n        items.append((directive.strip(), value.strip()))\n')]},
]

# a read / allocation sized by the client's Content-Length (new modelled kind `size`)
W = "wsgi.py"
MUTANTS += [
    {"name": "readall-asks-for-the-whole-remaining-length", "expect": "R7.1", "edits": [(W, "            data = self.read(1024 * 64)\n", "            left = self.limit - self._pos\n            data = self.read(max(1, left))\n")]},
    {"name": "temp-buffer-sized-by-limit-unguarded", "expect": "R7.1", "edits": [(W, "            if size <= remaining:\n                # The size fits", "            if size == remaining:\n                # The size fits")]},
]
TWINS += [
    {"name": "readall-chunk-capped-by-min", "edits": [(W, "            data = self.read(1024 * 64)\n", "            data = self.read(min(1024 * 64, self.limit - self._pos))\n")]},
    {"name": "temp-buffer-in-conditional-expression", "edits": [(W, "            else:\n                # Use a temp buffer with the remaining limit as the size.\n                temp_b = bytearray(remaining)\n", "            else:\n                # Use a temp buffer with the remaining limit as the size.\n                small = remaining < size\n                temp_b = bytearray(remaining) if small else bytearray(size)\n")]},
]

# further spellings of the same code
TWINS += [
    {"name": "etag-loop-else-break", "edits": [(H, "        if match is None:\n            break\n        is_weak, quoted, raw = match.groups()\n        if raw == \"*\":\n            return ds.ETags(star_tag=True)\n        elif quoted:\n            raw = quoted\n        if is_weak:\n            weak.append(raw)\n        else:\n            strong.append(raw)\n        pos = match.end()\n", "        if match is not None:\n            is_weak, quoted, raw = match.groups()\n            if raw == \"*\":\n                return ds.ETags(star_tag=True)\n            elif quoted:\n                raw = quoted\n            if is_weak:\n                weak.append(raw)\n            else:\n                strong.append(raw)\n            pos = match.end()\n        else:\n            break\n")]},
    {"name": "option-parts-unpacked-in-the-body", "edits": [(H, "    for pk, pv in parts:\n        if pk[-1] == \"*\":", "    for part in parts:\n        pk, pv = part\n\n        if pk[-1] == \"*\":")]},
    {"name": "q-converted-from-the-match-object", "edits": [(H, "            if _q_value_re.fullmatch(q_str) is None:\n                # ignore an invalid q\n                continue\n\n            q = float(q_str)\n", "            q_match = _q_value_re.fullmatch(q_str)\n\n            if not q_match:\n                # ignore an invalid q\n                continue\n\n            q = float(q_match.group())\n")]},
    {"name": "options-iterated-by-key", "edits": [(H, "    for key, value in options.items():\n        if value is None:\n            continue\n\n        if key[-1] == \"*\":", "    for key in options:\n        value = options[key]\n\n        if value is None:\n            continue\n\n        if key[-1] == \"*\":")]},
]


# ---------------------------------------------------------------------
# round 2: further spellings of every premise (each one a behaviour-preserving rewrite, confirmed by a differential run
# against the unchanged tree while the checker was developed) and, for every new shape that is accepted, the same shape
# with the premise broken.  The groups are evaluated in order; constants may be redefined from one group to the next.


def V(name, *edits, expect=None):
    return {"name": name, "expect": expect, "edits": list(edits)}


_SKIP = {"age-isdigit", "M:range-sentinel-negative-start"}


def _split(variants):
    for v in variants:
        if v["name"] in _SKIP:
            continue
        if v["expect"] is None:
            TWINS.append({"name": v["name"], "edits": v["edits"]})
        else:
            MUTANTS.append({"name": v["name"].removeprefix("M:"), "expect": v["expect"], "edits": v["edits"]})


# -- the range premise: every place that puts a pair into the list handed to Range
R = "datastructures/range.py"
DEF = "def parse_range_header(\n"
RET = "    return ds.Range(units, ranges)\n"

def body(new, *more, name, expect=None):
    return {"name": name, "expect": expect, "edits": [(H, RANGE_OLD, new), *more]}

HELPER_ITEM = '''def _range_item(item: str) -> tuple[int, int | None] | None:
    if item.startswith("-"):
        try:
            return _plain_int(item), None
        except ValueError:
            return None

    begin_str, _, end_str = item.partition("-")

    try:
        begin = _plain_int(begin_str)
        end = _plain_int(end_str) + 1 if end_str.strip() else None
    except ValueError:
        return None

    if end is not None and begin >= end:
        return None

    return begin, end


'''
LOOP_ITEM = '''        if "-" not in item:
            return None
        if last_end < 0:
            return None
        parsed = _range_item(item)
        if parsed is None:
            return None
        begin, end = parsed
        if not item.startswith("-") and begin < last_end:
            return None
        last_end = -1 if end is None else end
        ranges.append(parsed)
'''
INT_OR_NONE = '''def _int_or_none(text: str) -> int | None:
    try:
        return _plain_int(text)
    except ValueError:
        return None


'''
LOOP_OPT = '''        if "-" not in item:
            return None
        if item.startswith("-"):
            if last_end < 0:
                return None
            begin = _int_or_none(item)
            if begin is None:
                return None
            end = None
            last_end = -1
        else:
            begin_str, end_str = item.split("-", 1)
            begin = _int_or_none(begin_str)
            if begin is None or begin < last_end or last_end < 0:
                return None
            end = None
            if end_str.strip():
                stop = _int_or_none(end_str)
                if stop is None or begin > stop:
                    return None
                end = stop + 1
            last_end = end if end is not None else -1
        pair = (begin, end)
        ranges += [pair]
'''
LOOP_FLAG = RANGE_OLD.replace('''            if begin < last_end or last_end < 0:
                return None
''', '''            out_of_order = begin < last_end or last_end < 0
            if out_of_order:
                return None
''').replace("        ranges.append((begin, end))\n", "        ranges = [*ranges, (begin, end)]\n")
LOOP_WALRUS = '''        if "-" not in item:
            return None
        if item.startswith("-"):
            if last_end < 0 or (begin := _int_or_none(item)) is None:
                return None
            ranges.extend([(begin, None)])
            last_end = -1
            continue
        begin_str, end_str = item.split("-", 1)
        if (begin := _int_or_none(begin_str)) is None:
            return None
        if not 0 <= last_end <= begin:
            return None
        if not end_str.strip():
            ranges.insert(len(ranges), (begin, None))
            last_end = -1
            continue
        if (stop := _int_or_none(end_str)) is None or stop < begin:
            return None
        last_end = stop + 1
        ranges.append((begin, last_end))
'''
ADD_HELPER = '''def _add_range(acc: list[tuple[int, int | None]], begin: int, end: int | None) -> None:
    acc.append((begin, end))


'''
LOOP_ADD = RANGE_OLD.replace("        ranges.append((begin, end))\n", "        _add_range(ranges, begin, end)\n")
LOOP_ADD_UNGUARDED = LOOP_ADD.replace("                if begin >= end:\n                    return None\n", "")

CT_OLD = '''        for start, end in ranges:
            if start is None or (end is not None and (start < 0 or start >= end)):
                raise ValueError(f"{(start, end)} is not a valid range.")
'''
CT_SPLIT = '''        for rng in ranges:
            start, end = rng
            if start is None:
                raise ValueError(f"{rng} has no start.")
            if end is None:
                continue
            if not 0 <= start < end:
                raise ValueError(f"{rng} is not a valid range.")
'''
CT_HELPER_DEF = '''def _check_range(start: int | None, end: int | None) -> None:
    if start is None or (end is not None and (start < 0 or start >= end)):
        raise ValueError(f"{(start, end)} is not a valid range.")


class Range:
'''
CT_HELPER = '''        for i, (start, end) in enumerate(ranges):
            _check_range(start, end)
'''
CT_STRICTER = CT_OLD.replace("start >= end", "start + 1 >= end")

VARIANTS = [
    body(LOOP_ITEM, (H, DEF, HELPER_ITEM + DEF), name="range-item-helper-returns-pair"),
    body(LOOP_ITEM.replace("        if not item.startswith(\"-\") and begin < last_end:\n            return None\n", ""), (H, DEF, HELPER_ITEM + DEF), name="M:range-item-helper-caller-floor-dropped", expect="R7.1"),
    body(LOOP_ITEM, (H, DEF, HELPER_ITEM.replace("begin >= end", "begin > end") + DEF), name="M:range-item-helper-off-by-one", expect="R7.1"),
    body(LOOP_OPT, (H, DEF, INT_OR_NONE + DEF), name="range-int-or-none-stop-based-named-pair-iadd"),
    body(LOOP_OPT.replace("begin > stop", "begin > stop + 1"), (H, DEF, INT_OR_NONE + DEF), name="M:range-stop-based-off-by-one", expect="R7.1"),
    body(LOOP_OPT.replace("            begin = _int_or_none(item)\n            if begin is None:\n                return None\n", "            begin = _int_or_none(item)\n"), (H, DEF, INT_OR_NONE + DEF), name="M:range-int-or-none-unchecked", expect="R7.1"),
    body(LOOP_FLAG, name="range-order-flag-list-rebuilt"),
    body(LOOP_FLAG.replace("            if out_of_order:\n                return None\n", ""), name="M:range-order-flag-ignored", expect="R7.1"),
    body(LOOP_WALRUS, (H, DEF, INT_OR_NONE + DEF), name="range-walrus-chained-extend-insert"),
    body(LOOP_WALRUS.replace("stop < begin", "stop + 1 < begin"), (H, DEF, INT_OR_NONE + DEF), name="M:range-walrus-off-by-one", expect="R7.1"),
    body(LOOP_WALRUS.replace("        if not 0 <= last_end <= begin:\n            return None\n", "        if not last_end <= begin:\n            return None\n"), (H, DEF, INT_OR_NONE + DEF), name="M:range-walrus-floor-dropped", expect="R7.1"),
    body(LOOP_ADD, (H, DEF, ADD_HELPER + DEF), name="range-append-in-helper"),
    body(LOOP_ADD_UNGUARDED, (H, DEF, ADD_HELPER + DEF), name="M:range-append-in-helper-unguarded", expect="R7.1"),
    {"name": "range-ctor-kw-copy-local", "expect": None, "edits": [(H, RET, "    rv = ds.Range(ranges=list(ranges), units=units)\n    return rv\n")]},
    {"name": "range-ctor-split-two-raises", "expect": None, "edits": [(R, CT_OLD, CT_SPLIT)]},
    {"name": "M:range-ctor-split-stricter", "expect": "R7.1", "edits": [(R, CT_OLD, CT_SPLIT.replace("0 <= start < end", "0 < start < end"))]},
    {"name": "range-ctor-check-helper-enumerate", "expect": None, "edits": [(R, CT_OLD, CT_HELPER), (R, "class Range:\n", CT_HELPER_DEF)]},
    {"name": "M:range-ctor-stricter", "expect": "R7.1", "edits": [(R, CT_OLD, CT_STRICTER)]},
    {"name": "range-ctor-split+item-helper", "expect": None, "edits": [(R, CT_OLD, CT_SPLIT), (H, RANGE_OLD, LOOP_ITEM), (H, DEF, HELPER_ITEM + DEF)]},
]

LOOP_MAX = RANGE_OLD.replace('''            if begin < last_end or last_end < 0:
                return None
''', '''            if last_end < 0 or begin < max(last_end, 0):
                return None
''').replace('''                if begin >= end:
                    return None
''', '''                if not begin + 1 <= end:
                    return None
''')
LOOP_WHILE_OLD_HEAD = '    for item in rng.split(","):\n        item = item.strip()\n'
LOOP_WHILE_NEW_HEAD = '    items = rng.split(",")\n    index = 0\n\n    while index < len(items):\n        item = items[index].strip()\n        index += 1\n'
LOOP_INLINE_INT = RANGE_OLD.replace('''            try:
                begin = _plain_int(begin_str)
            except ValueError:
                return None
''', '''            if _plain_int_re.fullmatch(begin_str) is None:
                return None

            begin = int(begin_str)
''')
VARIANTS += [
    body(LOOP_MAX, name="range-floor-through-max-plus-one"),
    body(LOOP_MAX.replace("begin + 1 <= end", "begin <= end"), name="M:range-max-off-by-one", expect="R7.1"),
    {"name": "range-while-loop-over-items", "expect": None, "edits": [(H, LOOP_WHILE_OLD_HEAD, LOOP_WHILE_NEW_HEAD)]},
    {"name": "M:range-while-loop-off-by-one", "expect": "R7.1", "edits": [(H, LOOP_WHILE_OLD_HEAD, LOOP_WHILE_NEW_HEAD), (H, "                if begin >= end:\n                    return None", "                if begin > end:\n                    return None")]},
]

SENTINEL_HEAD_OLD = "    last_end = 0\n    units, rng = value.split(\"=\", 1)\n"
SENTINEL_HEAD_NEW = "    last_end: int | None = 0\n    units, rng = value.split(\"=\", 1)\n"
LOOP_SENTINEL = '''        if "-" not in item:
            return None
        if last_end is None:
            # an open-ended or suffix range must be the last one
            return None
        if item.startswith("-"):
            try:
                begin = _plain_int(item)
            except ValueError:
                return None
            end = None
        else:
            begin_str, end_str = item.split("-", 1)
            try:
                begin = _plain_int(begin_str)
            except ValueError:
                return None
            if begin < last_end:
                return None
            end = None
            if end_str.strip():
                try:
                    end = _plain_int(end_str) + 1
                except ValueError:
                    return None
                if begin >= end:
                    return None
        last_end = end
        ranges.append((begin, end))
'''
VARIANTS += [
    body(LOOP_SENTINEL, (H, SENTINEL_HEAD_OLD, SENTINEL_HEAD_NEW), name="range-last-end-none-sentinel"),
    body(LOOP_SENTINEL.replace("                if begin >= end:\n                    return None\n", ""), (H, SENTINEL_HEAD_OLD, SENTINEL_HEAD_NEW), name="M:range-sentinel-unordered", expect="R7.1"),
    body(LOOP_SENTINEL, (H, SENTINEL_HEAD_OLD, SENTINEL_HEAD_NEW.replace("= 0", "= -5")), name="M:range-sentinel-negative-start", expect="R7.1"),
]
_split(VARIANTS)

# -- value premises: Accept pairs / fallback search / application's value / q / octal escapes / ASCII bytes / guards of index and unpack sites
H = "http.py"; AC = "datastructures/accept.py"; S = "sansio/http.py"; U = "urls.py"; SU = "sansio/utils.py"; RG = "datastructures/range.py"; WR = "wrappers/request.py"; FS = "datastructures/file_storage.py"; I = "_internal.py"

BEST_OLD = "        if self:\n            return self[0][0]\n\n        return None\n"
PRIM_DEF = 'def _primary_tag(tag: str) -> str:\n    return _locale_delim_re.split(tag, 1)[0]\n\n\nclass LanguageAccept(Accept):\n'
FB_OLD = '''        fallback_matches = [_locale_delim_re.split(item, 1)[0] for item in matches]
        result = super().best_match(fallback_matches)

        # Return a value from the original match list. Find the first
        # original value that starts with the matched primary tag.
        if result is not None:
            return next(
                item
                for item in matches
                if _locale_delim_re.split(item, 1)[0] == result
            )
'''
FB_HELPER = '''        fallback_matches = [_primary_tag(offer) for offer in matches]
        primary = super().best_match(fallback_matches)

        if primary is None:
            return default

        return next(offer for offer in matches if primary == _primary_tag(offer))
'''
FB_APPEND = '''        fallback_matches = []

        for offer in matches:
            fallback_matches.append(_locale_delim_re.split(offer, 1)[0])

        result = super().best_match(fallback_matches)

        if result is not None:
            return next(
                item
                for item in matches
                if _locale_delim_re.split(item, 1)[0] == result
            )
'''
FB_INLINE = '''        result = super().best_match(
            _locale_delim_re.split(item, 1)[0] for item in matches
        )

        if result is not None:
            return next(
                item
                for item in matches
                if _locale_delim_re.split(item, 1)[0] == result
            )
'''
FB_LIST_GEN = FB_OLD.replace("[_locale_delim_re.split(item, 1)[0] for item in matches]", "list(_locale_delim_re.split(item, 1)[0] for item in matches)")
FB_MAP = FB_HELPER.replace("[_primary_tag(offer) for offer in matches]", "list(map(_primary_tag, matches))")
FB_WRONG_KEY = FB_HELPER.replace("[_primary_tag(offer) for offer in matches]", "[offer.lower() for offer in matches]")
FB_NO_TEST = FB_HELPER.replace("        if primary is None:\n            return default\n\n", "")
FALLBACK_PAIRS_OLD = "            [(_locale_delim_re.split(item[0], 1)[0], item[1]) for item in self]\n"

VM_OLD = '''        # value comes from the application, tell the developer when it
        # doesn't look valid.
        if "/" not in value:
            raise ValueError(f"invalid mimetype {value!r}")

        # Split the match value into type, subtype, and a sorted list of parameters.
        normalized_value = _normalize_mime(value)
        value_type, value_subtype = normalized_value[:2]
        value_params = sorted(normalized_value[2:])

        # "*/*" is the only valid value that can start with "*".
        if value_type == "*" and value_subtype != "*":
            raise ValueError(f"invalid mimetype {value!r}")
'''
VM_HELPER_DEF = '''def _split_offer(value: str) -> tuple[str, str, list[str]]:
    """Split an application-provided mimetype, telling the developer when it is invalid."""
    if "/" not in value:
        raise ValueError(f"invalid mimetype {value!r}")

    pieces = _normalize_mime(value)
    kind, subkind = pieces[:2]

    if kind == "*" and subkind != "*":
        raise ValueError(f"invalid mimetype {value!r}")

    return kind, subkind, sorted(pieces[2:])


class MIMEAccept(Accept):
'''
VM_HELPER_USE = "        value_type, value_subtype, value_params = _split_offer(value)\n"
VM_FLIP = VM_OLD.replace('''        if "/" not in value:
            raise ValueError(f"invalid mimetype {value!r}")
''', '''        offer_ok = "/" in value

        if not offer_ok:
            raise ValueError(f"invalid mimetype {value!r}")
''')

Q_OLD = '''            if _q_value_re.fullmatch(q_str) is None:
                # ignore an invalid q
                continue

            q = float(q_str)

            if q < 0 or q > 1:
                # ignore an invalid q
                continue
'''
Q_NESTED = '''            if _q_value_re.fullmatch(q_str):
                q = float(q_str)
            else:
                continue

            if not 0 <= q <= 1:
                # ignore an invalid q
                continue
'''
Q_HELPER_DEF = '''def _parse_q(text: str) -> float | None:
    if not _q_value_re.fullmatch(text):
        return None

    number = float(text)
    return number if 0 <= number <= 1 else None


'''
Q_HELPER_USE = '''            parsed_q = _parse_q(q_str)

            if parsed_q is None:
                # ignore an invalid q
                continue

            q = parsed_q
'''
Q_WALRUS = '''            if (q_match := _q_value_re.fullmatch(q_str)) is None:
                continue

            q = float(q_match[0])

            if q < 0 or q > 1:
                continue
'''
Q_MATCH_PREFIX = Q_OLD.replace("_q_value_re.fullmatch(q_str)", "_q_value_re.match(q_str)")

UNSLASH_OLD = '    v = m.group(1)\n\n    if len(v) == 1:\n        return v\n\n    return int(v, 8).to_bytes(1, "big")\n'
UNSLASH_BYTES = '    escaped = m[1]\n    return escaped if len(escaped) < 2 else bytes([int(escaped, 8)])\n'
UNSLASH_GROUPS = '    (v,) = m.groups()\n\n    if len(v) != 3:\n        return v\n\n    return int(v, 8).to_bytes(1, "big")\n'
UNSLASH_LEN3 = '    v = m.group(1)\n\n    if len(v) == 3:\n        return int(v, 8).to_bytes(1, "big")\n\n    return v\n'

IDNA_OLD = '''    for part in data.split(b"."):
        try:
            parts.append(part.decode("idna"))
        except UnicodeError:
            parts.append(part.decode("ascii"))

    return ".".join(parts)
'''
IDNA_COMP_DEF = '''def _decode_label(label: bytes) -> str:
    try:
        return label.decode("idna")
    except UnicodeError:
        return str(label, "ascii")


def _decode_idna(domain: str) -> str:
'''
IDNA_COMP = '    return ".".join(_decode_label(label) for label in data.split(b"."))\n'
IDNA_COMP2_DEF = IDNA_COMP_DEF.replace('str(label, "ascii")', 'label.decode("ascii")')
IDNA_OLD_FULL_HEAD = '''    try:
        data = domain.encode("ascii")
    except UnicodeEncodeError:
        # If the domain is not ASCII, it's decoded already.
        return domain
'''
IDNA_ISASCII = '''    if not domain.isascii():
        # If the domain is not ASCII, it's decoded already.
        return domain

    data = domain.encode()
'''

COOKIE_L1_OLD = '''    if cookie:
        cookie = cookie.encode("latin1").decode(errors="replace")

    return _sansio_http.parse_cookie(cookie=cookie, cls=cls)
'''
COOKIE_L1_HELPER_DEF = '''def _redecode_cookie(raw: str) -> str:
    return raw.encode("latin1").decode(errors="replace")


def parse_cookie(
    header: WSGIEnvironment | str | None,
'''
COOKIE_L1_HELPER = '''    text = _redecode_cookie(cookie) if cookie else cookie
    return _sansio_http.parse_cookie(cookie=text, cls=cls)
'''
COOKIE_L1_BYTES = '''    if cookie:
        raw = bytes(cookie, "latin1")
        cookie = raw.decode(errors="replace")

    return _sansio_http.parse_cookie(cookie=cookie, cls=cls)
'''

HOST_OLD = '''        if ":" in host and host[0] != "[":
            host = f"[{host}]"
'''
HOST_STARTS = '''        if ":" in host and not host.startswith("["):
            host = f"[{host}]"
'''
HOST_UNPACK_OLD = '''        host = server[0]

        # If SERVER_NAME is IPv6, wrap it in [] to match Host header.
        # Check for : because domain or IPv4 can't have that.
        if ":" in host and host[0] != "[":
            host = f"[{host}]"

        if server[1] is not None:
            host = f"{host}:{server[1]}"
'''
HOST_UNPACK = '''        name, port = server
        host = name

        # If SERVER_NAME is IPv6, wrap it in [] to match Host header.
        # Check for : because domain or IPv4 can't have that.
        if ":" in name and name[:1] != "[":
            host = f"[{name}]"

        if port is not None:
            host = f"{host}:{port}"
'''
HOST_EMPTY_UNGUARDED = HOST_OLD.replace('if ":" in host and host[0] != "["', 'if host[0] != "[" and ":" in host')

LIST_OLD = '''        if len(item) >= 2 and item[0] == item[-1] == '"':
            item = item[1:-1]
'''
LIST_V1 = '''        if len(item) > 1 and item.startswith('"') and item.endswith('"'):
            item = item[1:-1]
'''
LIST_V2 = '''        quoted = len(item) >= 2 and item[0] == '"' == item[-1]

        if quoted:
            item = item[1:-1]
'''
LIST_V3 = '''        if len(item) < 2:
            result.append(item)
            continue

        first, last = item[0], item[-1]

        if first == last == '"':
            item = item[1:-1]
'''
LIST_V4_DEF = '''def _strip_quotes(text: str) -> str:
    if len(text) >= 2 and text[0] == text[-1] == '"':
        return text[1:-1]

    return text


def parse_list_header(value: str) -> list[str]:
'''
LIST_V4 = "        item = _strip_quotes(item)\n"
LIST_BAD = LIST_OLD.replace("len(item) >= 2 and ", "")

OPT_PV_OLD = '''        if pv[0] == pv[-1] == '"':
'''
OPT_PV_V1 = '''        if pv[:1] == '"' == pv[-1:]:
'''
OPT_PV_V2 = '''        if pv.startswith('"') and pv.endswith('"'):
'''
OPT_PK_OLD = '''    for pk, pv in parts:
        if pk[-1] == "*":
'''
OPT_PK_V1 = '''    for pk, pv in parts:
        if pk.endswith("*"):
'''
OPT_PK_V2 = '''    for index in range(len(parts)):
        pk, pv = parts[index]

        if pk[-1] == "*":
'''
OPT_PK_V3 = '''    for pk, pv in parts:
        extended = pk[-1:] == "*"

        if extended:
'''

CR_OLD = '''    if "/" not in rangedef:
        return None
    rng, length_str = rangedef.split("/", 1)
'''
CR_V1 = '''    rng, slash, length_str = rangedef.partition("/")
    if not slash:
        return None
'''
CR_V2 = '''    if rangedef.find("/") < 0:
        return None
    rng, length_str = rangedef.split("/", 1)
'''
CR_V3 = '''    pieces = rangedef.split("/", 1)
    if len(pieces) != 2:
        return None
    rng, length_str = pieces
'''
CR_V4 = '''    try:
        rng, length_str = rangedef.split("/", 1)
    except ValueError:
        return None
'''
CR_V5 = '''    if rangedef.count("/") == 0:
        return None
    rng, length_str = rangedef.split("/", 1)
'''
CR_BAD = '''    rng, length_str = rangedef.split("/", 1)
'''
CRC_OLD = '''    if is_byte_range_valid(start, stop, length):
        return ds.ContentRange(units, start, stop, length, on_update=on_update)

    return None
'''
CRC_V1 = '''    if not is_byte_range_valid(start, stop, length):
        return None

    return ds.ContentRange(units, start, stop, length, on_update=on_update)
'''
CRC_V2 = '''    valid = is_byte_range_valid(start, stop, length)
    return ds.ContentRange(units, start, stop, length, on_update=on_update) if valid else None
'''
CRC_V3 = '''    rv = None

    if is_byte_range_valid(start, stop, length):
        rv = ds.ContentRange(units, start, stop, length, on_update=on_update)

    return rv
'''
CRC_BAD = '''    return ds.ContentRange(units, start, stop, length, on_update=on_update)
'''

ETAG_OLD = '''        if match is None:
            break
        is_weak, quoted, raw = match.groups()
'''
ETAG_V1 = '''        if not match:
            break
        is_weak, quoted, raw = match.group(1, 2, 3)
'''

FS_OLD = '''            if filename and filename[0] == "<" and filename[-1] == ">":
                filename = None
'''
FS_V1 = '''            if filename is not None and len(filename) > 0:
                if filename[0] == "<" and filename[-1] == ">":
                    filename = None
'''
FS_V2 = '''            if filename and filename.startswith("<") and filename.endswith(">"):
                filename = None
'''

DH_OLD = '''        if len(value) >= 2 and value[0] == value[-1] == '"':
            value = value[1:-1]

        result[key] = value
'''
DH_V1 = '''        if len(value) >= 2:
            if value[0] == '"' and value[-1] == '"':
                value = value[1:-1]

        result[key] = value
'''
DH_V2 = '''        result[key] = value[1:-1] if len(value) >= 2 and value[0] == value[-1] == '"' else value
'''
DH_KEY_OLD = '''        if not key:
            # =value is not valid
            continue

        if not has_value:
            result[key] = None
            continue
'''
DH_KEY_V1 = '''        if key == "":
            # =value is not valid
            continue

        if not has_value:
            result[key] = None
            continue
'''
DH_KEY_V2 = '''        if len(key) == 0:
            # =value is not valid
            continue

        if not has_value:
            result[key] = None
            continue
'''

VARIANTS = [
    V("best-alias-first", (AC, BEST_OLD, "        if not self:\n            return None\n\n        first = self[0]\n        return first[0]\n")),
    V("best-ifexp", (AC, BEST_OLD, "        return self[0][0] if self else None\n")),
    V("best-len", (AC, BEST_OLD, "        if len(self) == 0:\n            return None\n\n        value, _quality = self[0]\n        return value\n")),
    V("M:best-unguarded", (AC, BEST_OLD, "        return self[0][0]\n"), expect="R7.1"),
    V("fallback-key-helper-flipped", (AC, FB_OLD, FB_HELPER), (AC, "class LanguageAccept(Accept):\n", PRIM_DEF)),
    V("fallback-append-loop", (AC, FB_OLD, FB_APPEND)),
    V("fallback-generator-inline", (AC, FB_OLD, FB_INLINE)),
    V("fallback-list-of-generator", (AC, FB_OLD, FB_LIST_GEN)),
    V("fallback-map", (AC, FB_OLD, FB_MAP), (AC, "class LanguageAccept(Accept):\n", PRIM_DEF)),
    V("M:fallback-wrong-key", (AC, FB_OLD, FB_WRONG_KEY), (AC, "class LanguageAccept(Accept):\n", PRIM_DEF), expect="R7.1"),
    V("M:fallback-no-none-test", (AC, FB_OLD, FB_NO_TEST), (AC, "class LanguageAccept(Accept):\n", PRIM_DEF), expect="R7.1"),
    V("fallback-pairs-unpacked", (AC, FALLBACK_PAIRS_OLD, "            [(_locale_delim_re.split(tag, 1)[0], q) for tag, q in self]\n")),
    V("offer-check-in-helper", (AC, VM_OLD, VM_HELPER_USE), (AC, "class MIMEAccept(Accept):\n", VM_HELPER_DEF)),
    V("offer-check-flag", (AC, VM_OLD, VM_FLIP)),
    V("q-nested-chain", (H, Q_OLD, Q_NESTED)),
    V("q-helper-all-in-one", (H, Q_OLD, Q_HELPER_USE), (H, "def parse_accept_header(\n    value: str | None, cls: type[_TAnyAccept] | None = None\n", Q_HELPER_DEF + "def parse_accept_header(\n    value: str | None, cls: type[_TAnyAccept] | None = None\n")),
    V("q-walrus-match-item", (H, Q_OLD, Q_WALRUS)),
    V("M:q-prefix-match", (H, Q_OLD, Q_MATCH_PREFIX), expect="R7.1"),
    V("unslash-bytes-ifexp", (S, UNSLASH_OLD, UNSLASH_BYTES)),
    V("unslash-groups-len-ne-3", (S, UNSLASH_OLD, UNSLASH_GROUPS)),
    V("unslash-len-eq-3", (S, UNSLASH_OLD, UNSLASH_LEN3)),
    V("idna-label-helper-generator", (U, IDNA_OLD, IDNA_COMP), (U, "def _decode_idna(domain: str) -> str:\n", IDNA_COMP2_DEF), (U, "    # Decode each part separately, leaving invalid parts as punycode.\n    parts = []\n\n", "")),
    V("idna-label-helper-str-ctor", (U, IDNA_OLD, IDNA_COMP), (U, "def _decode_idna(domain: str) -> str:\n", IDNA_COMP_DEF), (U, "    # Decode each part separately, leaving invalid parts as punycode.\n    parts = []\n\n", "")),
    V("idna-isascii-guard", (U, IDNA_OLD_FULL_HEAD, IDNA_ISASCII)),
    V("cookie-redecode-helper", (H, COOKIE_L1_OLD, COOKIE_L1_HELPER), (H, "def parse_cookie(\n    header: WSGIEnvironment | str | None,\n", COOKIE_L1_HELPER_DEF)),
    V("cookie-bytes-ctor", (H, COOKIE_L1_OLD, COOKIE_L1_BYTES)),
    V("host-startswith", (SU, HOST_OLD, HOST_STARTS)),
    V("host-server-unpacked", (SU, HOST_UNPACK_OLD, HOST_UNPACK)),
    V("M:host-index-before-colon-test", (SU, HOST_OLD, HOST_EMPTY_UNGUARDED), expect="R7.1"),
    V("list-startswith", (H, LIST_OLD, LIST_V1)),
    V("list-flag", (H, LIST_OLD, LIST_V2)),
    V("list-early-continue-locals", (H, LIST_OLD, LIST_V3)),
    V("list-strip-helper", (H, LIST_OLD, LIST_V4), (H, "def parse_list_header(value: str) -> list[str]:\n", LIST_V4_DEF)),
    V("M:list-no-len", (H, LIST_OLD, LIST_BAD), expect="R7.1"),
    V("opt-pv-slices", (H, OPT_PV_OLD, OPT_PV_V1)),
    V("opt-pv-startswith", (H, OPT_PV_OLD, OPT_PV_V2)),
    V("opt-pk-endswith", (H, OPT_PK_OLD, OPT_PK_V1)),
    V("opt-pk-indexed-loop", (H, OPT_PK_OLD, OPT_PK_V2)),
    V("opt-pk-flag-slice", (H, OPT_PK_OLD, OPT_PK_V3)),
    V("cr-partition", (H, CR_OLD, CR_V1)),
    V("cr-find", (H, CR_OLD, CR_V2)),
    V("cr-len-pieces", (H, CR_OLD, CR_V3)),
    V("cr-try", (H, CR_OLD, CR_V4)),
    V("cr-count", (H, CR_OLD, CR_V5)),
    V("M:cr-unguarded", (H, CR_OLD, CR_BAD), expect="R7.1"),
    V("crc-early-return", (H, CRC_OLD, CRC_V1)),
    V("crc-flag-ifexp", (H, CRC_OLD, CRC_V2)),
    V("crc-result-local", (H, CRC_OLD, CRC_V3)),
    V("M:crc-unvalidated", (H, CRC_OLD, CRC_BAD), expect="R7.1"),
    V("etag-not-match-group-tuple", (H, ETAG_OLD, ETAG_V1)),
    V("fs-nested-len", (FS, FS_OLD, FS_V1)),
    V("fs-startswith", (FS, FS_OLD, FS_V2)),
    V("dh-nested", (H, DH_OLD, DH_V1)),
    V("dh-ifexp", (H, DH_OLD, DH_V2)),
    V("dh-key-eq-empty", (H, DH_KEY_OLD, DH_KEY_V1)),
    V("dh-key-len0", (H, DH_KEY_OLD, DH_KEY_V2)),
]

VARIANTS += [
    V("M:q-walrus-unguarded-item", (H, Q_OLD, Q_WALRUS.replace("            if (q_match := _q_value_re.fullmatch(q_str)) is None:\n                continue\n\n", "            q_match = _q_value_re.fullmatch(q_str)\n")), expect="R7.1"),
    V("M:unslash-bytes-no-length-test", (S, UNSLASH_OLD, '    escaped = m[1]\n    return bytes([int(escaped, 8)])\n'), expect="R7.1"),
    V("M:unslash-groups-any-octal", (S, UNSLASH_OLD, UNSLASH_GROUPS), (S, r'rb"\\([0-3][0-7]{2}|.)"', r'rb"\\([0-7]{3}|.)"'), expect="R7.1"),
    V("M:idna-isascii-guard-dropped", (U, IDNA_OLD_FULL_HEAD, "    data = domain.encode()\n"), expect="R7.1"),
    V("M:offer-helper-checks-item", (AC, VM_OLD, VM_HELPER_USE.replace("_split_offer(value)", "_split_offer(item)")), (AC, "class MIMEAccept(Accept):\n", VM_HELPER_DEF), expect="R7.1"),
    V("M:fallback-append-other-key", (AC, FB_OLD, FB_APPEND.replace("fallback_matches.append(_locale_delim_re.split(offer, 1)[0])", "fallback_matches.append(offer.lower())")), expect="R7.1"),
    V("M:cr-find-wrong-sense", (H, CR_OLD, CR_V2.replace('rangedef.find("/") < 0', 'rangedef.find("/") > 0')), expect="R7.1"),
    V("M:cr-count-other-char", (H, CR_OLD, CR_V5.replace('rangedef.count("/") == 0', 'rangedef.count("-") == 0')), expect="R7.1"),
    V("M:crc-flag-ignored", (H, CRC_OLD, CRC_V2.replace(" if valid else None", "")), expect="R7.1"),
    V("M:best-len-wrong-sense", (AC, BEST_OLD, "        if len(self) != 0:\n            return None\n\n        value, _quality = self[0]\n        return value\n"), expect="R7.1"),
    V("M:opt-pk-indexed-unfiltered", (H, OPT_PK_OLD, OPT_PK_V2), (H, "            if (m := _parameter_token_value_re.match(rest)) is not None:\n                parts.append((pk, m.group()))\n", "            if (m := _parameter_token_value_re.match(rest)) is not None:\n                parts.append((pk[:0], m.group()))\n"), expect="R7.1"),
    V("M:cookie-bytes-ctor-ascii", (H, COOKIE_L1_OLD, COOKIE_L1_BYTES.replace('bytes(cookie, "latin1")', 'bytes(cookie, "ascii")')), expect="R7.1"),
    V("M:dh-key-len-test-dropped", (H, DH_KEY_OLD, DH_KEY_V2.replace("        if len(key) == 0:\n            # =value is not valid\n            continue\n\n", "")), expect="R7.1"),
]
_split(VARIANTS)

# -- loop progress (R7.2), lenient decoders (R7.3), flags, remaining guard idioms
H = "http.py"; AC = "datastructures/accept.py"; S = "sansio/http.py"; U = "urls.py"; SU = "sansio/utils.py"; WR = "wrappers/request.py"; I = "_internal.py"; F = "formparser.py"; W = "wsgi.py"; ST = "datastructures/structures.py"; Q = "sansio/request.py"

ETAG_LOOP_OLD = '''    while pos < end:
        match = _etag_re.match(value, pos)
        if match is None:
            break
        is_weak, quoted, raw = match.groups()
        if raw == "*":
            return ds.ETags(star_tag=True)
        elif quoted:
            raw = quoted
        if is_weak:
            weak.append(raw)
        else:
            strong.append(raw)
        pos = match.end()
    return ds.ETags(strong, weak)
'''
ETAG_WALRUS = '''    while pos < end and (match := _etag_re.match(value, pos)) is not None:
        is_weak, quoted, raw = match.groups()
        if raw == "*":
            return ds.ETags(star_tag=True)
        tag = quoted or raw
        (weak if is_weak else strong).append(tag)
        pos = match.end()
    return ds.ETags(strong, weak)
'''
ETAG_TRUE = '''    while True:
        if pos >= end:
            break
        match = _etag_re.match(value, pos)
        if not match:
            break
        is_weak, quoted, raw = match.groups()
        if raw == "*":
            return ds.ETags(star_tag=True)
        elif quoted:
            raw = quoted
        if is_weak:
            weak.append(raw)
        else:
            strong.append(raw)
        pos = match.end()
    return ds.ETags(strong, weak)
'''
ETAG_SPAN = ETAG_LOOP_OLD.replace("        pos = match.end()\n", "        pos = match.span()[1]\n")
ETAG_END0 = ETAG_LOOP_OLD.replace("        pos = match.end()\n", "        _, pos = match.span()\n")
ETAG_NEWPOS = ETAG_LOOP_OLD.replace("        pos = match.end()\n", "        new_pos = match.end()\n        pos = new_pos\n")
ETAG_STUCK = ETAG_TRUE.replace("        if pos >= end:\n            break\n", "        if pos > end:\n            break\n")

CHUNK_OLD = "    while True:\n        data = read(size)\n\n        if not data:\n            break\n\n        yield data\n\n    yield None\n"
CHUNK_ITER = "    yield from iter(lambda: read(size), b\"\")\n    yield None\n"
CHUNK_LEN = "    while True:\n        data = read(size)\n\n        if len(data) == 0:\n            break\n\n        yield data\n\n    yield None\n"
CHUNK_FLAG = "    data = read(size)\n\n    while data:\n        yield data\n        data = read(size)\n\n    yield None\n"
CHUNK_RETURN = "    while True:\n        data = read(size)\n\n        if data:\n            yield data\n        else:\n            yield None\n            return\n"
CHUNK_FLAG_BAD = "    data = read(size)\n\n    while data:\n        yield data\n\n    yield None\n"

READALL_OLD = '''        while not self.is_exhausted:
            data = self.read(1024 * 64)

            # Stream may return empty before a max limit is reached.
            if not data:
                break

            out.extend(data)
'''
READALL_WALRUS = '''        while not self.is_exhausted and (data := self.read(1024 * 64)):
            out.extend(data)
'''
READALL_NESTED = '''        while not self.is_exhausted:
            data = self.read(1024 * 64)

            # Stream may return empty before a max limit is reached.
            if data:
                out.extend(data)
            else:
                break
'''
READALL_LEN = READALL_OLD.replace("if not data:", "if len(data) < 1:")

EVT_HEAD_OLD = "            event = parser.next_event()\n            while not isinstance(event, (Epilogue, NeedData)):\n"
EVT_TAIL_OLD = "\n                event = parser.next_event()\n\n        return self.cls(fields), self.cls(files)"
EVT_WALRUS = "            while not isinstance(event := parser.next_event(), (Epilogue, NeedData)):\n"
EVT_TWO_TESTS = "            while True:\n                event = parser.next_event()\n                if isinstance(event, NeedData):\n                    break\n                if isinstance(event, Epilogue):\n                    break\n"
EVT_TAIL_NONE = "\n        return self.cls(fields), self.cls(files)"

OPT_REST_OLD = "            rest = rest[m.end() :]\n"
OPT_REST_V1 = "            consumed = m.end()\n            rest = rest[consumed:]\n"
OPT_REST_V2 = "            rest = rest[len(m.group()) :]\n"
OPT_REST_V3 = "            rest = rest.removeprefix(m.group())\n"
OPT_END_OLD = '''        if (end := rest.find(";")) == -1:
            break

        rest = rest[end + 1 :].lstrip()
'''
OPT_END_V1 = '''        end = rest.find(";")

        if end < 0:
            break

        rest = rest[end + 1 :].lstrip()
'''
OPT_END_V2 = '''        _, found, rest = rest.partition(";")

        if not found:
            break

        rest = rest.lstrip()
'''
OPT_END_V3 = '''        if ";" not in rest:
            break

        rest = rest[rest.index(";") + 1 :].lstrip()
'''
OPT_END_V4 = '''        if ";" not in rest:
            break

        rest = rest.split(";", 1)[1].lstrip()
'''
OPT_END_BAD = '''        if (end := rest.find(";")) == -1:
            break

        rest = rest[end:].lstrip()
'''
OPT_INNER_OLD = '''                while pos < length:
                    if rest[pos : pos + 2] in {"\\\\\\\\", '\\\\"'}:
                        # Consume escaped slashes and quotes.
                        pos += 2
'''

GET_OLD = '''            try:
                return self.load_func(value)
            except (ValueError, TypeError):
                return self.default  # type: ignore
'''
GET_V1 = '''            try:
                loaded = self.load_func(value)
            except (TypeError, ValueError):
                loaded = self.default

            return loaded  # type: ignore
'''
GET_V2 = '''            load = self.load_func

            try:
                return load(value)
            except Exception:
                return self.default  # type: ignore
'''
TCD_OLD = '''        try:
            return type(rv)
        except (ValueError, TypeError):
            return default
'''
TCD_V1 = '''        try:
            rv = type(rv)
        except ValueError:
            rv = default
        except TypeError:
            rv = default

        return rv
'''
TCD_BAD = '''        try:
            rv = type(rv)
        except ValueError:
            rv = default

        return rv
'''
ARGS_OLD = '''            parse_qsl(
                self.query_string.decode(errors="replace"),
                keep_blank_values=True,
                errors="werkzeug.url_quote",
            )
'''
ARGS_V1 = '''            parse_qsl(
                str(self.query_string, "utf-8", "replace"),
                True,
                errors="werkzeug.url_quote",
            )
'''
DANCE_OLD = '    return s.encode("latin1").decode(errors="replace")\n'
DANCE_V1 = '    raw = s.encode("latin1")\n    return raw.decode("utf-8", "replace")\n'
DANCE_V2 = '    return str(s.encode("latin1"), errors="replace")\n'

SHALLOW_OLD = '''        if self.shallow:
            raise RuntimeError(
                "This request was created with 'shallow=True', reading"
                " from the input stream is disabled."
            )

        return get_input_stream(
            self.environ, max_content_length=self.max_content_length
        )
'''
SHALLOW_V1 = '''        if not self.shallow:
            return get_input_stream(
                self.environ, max_content_length=self.max_content_length
            )

        raise RuntimeError(
            "This request was created with 'shallow=True', reading"
            " from the input stream is disabled."
        )
'''
SHALLOW_V2 = '''        shallow = self.shallow

        if shallow:
            raise RuntimeError(
                "This request was created with 'shallow=True', reading"
                " from the input stream is disabled."
            )

        return get_input_stream(
            self.environ, max_content_length=self.max_content_length
        )
'''
SHALLOW_V3 = '''        self._require_stream()
        return get_input_stream(
            self.environ, max_content_length=self.max_content_length
        )

    def _require_stream(self) -> None:
        if self.shallow:
            raise RuntimeError(
                "This request was created with 'shallow=True', reading"
                " from the input stream is disabled."
            )
'''
SILENT_OLD = '''        try:
            return parse_func(stream, mimetype, content_length, options)
        except ValueError:
            if not self.silent:
                raise

        return stream, self.cls(), self.cls()
'''
SILENT_V1 = '''        try:
            return parse_func(stream, mimetype, content_length, options)
        except ValueError:
            if self.silent:
                return stream, self.cls(), self.cls()

            raise
'''
SILENT_V2 = '''        try:
            parsed = parse_func(stream, mimetype, content_length, options)
        except ValueError:
            if self.silent is False:
                raise

            parsed = stream, self.cls(), self.cls()

        return parsed
'''
CSP_OLD = '''        if " " in policy:
            directive, value = policy.strip().split(" ", 1)
            items.append((directive.strip(), value.strip()))
'''
CSP_V1 = '''        directive, space, value = policy.partition(" ")

        if space:
            items.append((directive.strip(), value.strip()))
'''
CSP_V2 = '''        if policy.count(" ") >= 1:
            pieces = policy.split(" ", 1)
            items.append((pieces[0].strip(), pieces[1].strip()))
'''
CSP_V3 = '''        if policy.find(" ") != -1:
            directive, value = policy.split(" ", 1)
            items.append((directive.strip(), value.strip()))
'''
CSP_V4 = '''        pieces = policy.split(None, 1)

        if len(pieces) == 2:
            directive, value = pieces
            items.append((directive.strip(), value.strip()))
'''
CSP_BAD = '''        if policy:
            directive, value = policy.split(" ", 1)
            items.append((directive.strip(), value.strip()))
'''
IFR_OLD = "    return ds.IfRange(unquote_etag(value)[0])\n"
IFR_V1 = "    etag, _weak = unquote_etag(value)\n    return ds.IfRange(etag)\n"
IFR_V2 = "    unquoted = unquote_etag(value)\n    return ds.IfRange(unquoted[0])\n"
MT_OLD = "        return self._parsed_content_type[0].lower()\n"
MT_V1 = "        mimetype, _params = self._parsed_content_type\n        return mimetype.lower()\n"
MT_V2 = "        parsed = self._parsed_content_type\n        return parsed[0].lower()\n"
PCT_OLD = '''        if not hasattr(self, "_parsed_content_type"):
            self._parsed_content_type = parse_options_header(
                self.headers.get("Content-Type", "")
            )
'''
PCT_V1 = '''        if hasattr(self, "_parsed_content_type"):
            return

        header = self.headers.get("Content-Type", "")
        parsed = parse_options_header(header)
        self._parsed_content_type = parsed
'''
SP_OLD = '    return host.partition(":")[0]\n'
SP_V1 = '    name, _, _port = host.partition(":")\n    return name\n'
SP_V2 = '    return host.split(":", 1)[0]\n'
SP_V3 = '    colon = host.find(":")\n    return host if colon < 0 else host[:colon]\n'
GPC_OLD = "            parameters = parse_options_header(content_type)[1]\n"
GPC_V1 = "            _, parameters = parse_options_header(content_type)\n"
GPC_V2 = "            parsed = parse_options_header(content_type)\n            parameters = parsed[-1]\n"
LANG_OLD = "            [(_locale_delim_re.split(item[0], 1)[0], item[1]) for item in self]\n"
LANG_V1 = "            [(_locale_delim_re.split(self[i][0], 1)[0], self[i][1]) for i in range(len(self))]\n"
LANG_V2 = "            [(_locale_delim_re.split(pair[0], 1)[0],) + tuple(pair[1:]) for pair in self]\n"

VARIANTS = [
    V("etag-loop-walrus-in-header", (H, ETAG_LOOP_OLD, ETAG_WALRUS)),
    V("etag-loop-while-true", (H, ETAG_LOOP_OLD, ETAG_TRUE)),
    V("etag-loop-span-index", (H, ETAG_LOOP_OLD, ETAG_SPAN)),
    V("etag-loop-span-unpack", (H, ETAG_LOOP_OLD, ETAG_END0)),
    V("etag-loop-end-via-local", (H, ETAG_LOOP_OLD, ETAG_NEWPOS)),
    V("M:etag-loop-bound-off-by-one", (H, ETAG_LOOP_OLD, ETAG_STUCK), expect="R7.2"),
    V("chunk-iter-sentinel", (F, CHUNK_OLD, CHUNK_ITER)),
    V("chunk-len-zero", (F, CHUNK_OLD, CHUNK_LEN)),
    V("chunk-read-before-and-at-end", (F, CHUNK_OLD, CHUNK_FLAG)),
    V("chunk-return-in-else", (F, CHUNK_OLD, CHUNK_RETURN)),
    V("M:chunk-never-rereads", (F, CHUNK_OLD, CHUNK_FLAG_BAD), expect="R7.2"),
    V("readall-walrus-header", (W, READALL_OLD, READALL_WALRUS)),
    V("readall-else-break", (W, READALL_OLD, READALL_NESTED)),
    V("readall-len-lt-1", (W, READALL_OLD, READALL_LEN)),
    V("event-loop-walrus-header", (F, EVT_HEAD_OLD, EVT_WALRUS), (F, EVT_TAIL_OLD, EVT_TAIL_NONE)),
    V("event-loop-two-tests", (F, EVT_HEAD_OLD, EVT_TWO_TESTS), (F, EVT_TAIL_OLD, EVT_TAIL_NONE)),
    V("opt-rest-consumed-local", (H, OPT_REST_OLD, OPT_REST_V1)),
    V("opt-rest-len-of-group", (H, OPT_REST_OLD, OPT_REST_V2)),
    V("opt-rest-removeprefix", (H, OPT_REST_OLD, OPT_REST_V3)),
    V("opt-end-plain-find", (H, OPT_END_OLD, OPT_END_V1)),
    V("opt-end-partition", (H, OPT_END_OLD, OPT_END_V2)),
    V("opt-end-in-index", (H, OPT_END_OLD, OPT_END_V3)),
    V("opt-end-in-split", (H, OPT_END_OLD, OPT_END_V4)),
    V("M:opt-end-no-advance", (H, OPT_END_OLD, OPT_END_BAD), expect="R7.2"),
    V("get-loaded-local", (I, GET_OLD, GET_V1)),
    V("get-load-alias-exception", (I, GET_OLD, GET_V2)),
    V("tcd-two-handlers", (ST, TCD_OLD, TCD_V1)),
    V("M:tcd-valueerror-only", (ST, TCD_OLD, TCD_BAD), expect="R7.3"),
    V("args-str-ctor-positional", (Q, ARGS_OLD, ARGS_V1)),
    V("dance-local-positional", (I, DANCE_OLD, DANCE_V1)),
    V("dance-str-ctor", (I, DANCE_OLD, DANCE_V2)),
    V("shallow-flipped", (WR, SHALLOW_OLD, SHALLOW_V1)),
    V("shallow-local-alias", (WR, SHALLOW_OLD, SHALLOW_V2)),
    V("shallow-helper-method", (WR, SHALLOW_OLD, SHALLOW_V3)),
    V("silent-flipped", (F, SILENT_OLD, SILENT_V1)),
    V("silent-is-false-local", (F, SILENT_OLD, SILENT_V2)),
    V("csp-partition", (H, CSP_OLD, CSP_V1)),
    V("csp-count-pieces", (H, CSP_OLD, CSP_V2)),
    V("csp-find", (H, CSP_OLD, CSP_V3)),
    V("csp-split-none-len", (H, CSP_OLD, CSP_V4)),
    V("M:csp-truthy-only", (H, CSP_OLD, CSP_BAD), expect="R7.1"),
    V("ifr-unpack", (H, IFR_OLD, IFR_V1)),
    V("ifr-local", (H, IFR_OLD, IFR_V2)),
    V("mimetype-unpack", (Q, MT_OLD, MT_V1)),
    V("mimetype-local", (Q, MT_OLD, MT_V2)),
    V("parsed-ct-early-return", (Q, PCT_OLD, PCT_V1)),
    V("strip-port-unpack", (SU, SP_OLD, SP_V1)),
    V("strip-port-split", (SU, SP_OLD, SP_V2)),
    V("strip-port-find", (SU, SP_OLD, SP_V3)),
    V("part-charset-unpack", (F, GPC_OLD, GPC_V1)),
    V("part-charset-last", (F, GPC_OLD, GPC_V2)),
    V("lang-fallback-indexed", (AC, LANG_OLD, LANG_V1)),
    V("lang-fallback-tuple-concat", (AC, LANG_OLD, LANG_V2)),
]

VARIANTS += [
    V("M:etag-loop-span-start", (H, ETAG_LOOP_OLD, ETAG_SPAN.replace("match.span()[1]", "match.span()[0]")), expect="R7.2"),
    V("M:opt-end-partition-no-exit", (H, OPT_END_OLD, OPT_END_V2.replace("        if not found:\n            break\n\n", "")), expect="R7.2"),
    V("M:event-walrus-no-need-data", (F, EVT_HEAD_OLD, EVT_WALRUS.replace("(Epilogue, NeedData)", "Epilogue")), (F, EVT_TAIL_OLD, EVT_TAIL_NONE), expect="R7.2"),
    V("M:readall-len-never-negative", (W, READALL_OLD, READALL_OLD.replace("if not data:", "if len(data) < 0:")), expect="R7.2"),
    V("M:chunk-else-without-return", (F, CHUNK_OLD, CHUNK_RETURN.replace("            yield None\n            return\n", "            yield None\n")), expect="R7.2"),
    V("M:opt-rest-removeprefix-empty", (H, OPT_REST_OLD, "            rest = rest.removeprefix(\"\")\n"), (H, OPT_END_OLD, OPT_END_BAD), expect="R7.2"),
    V("M:dance-str-ctor-strict", (I, DANCE_OLD, '    return str(s.encode("latin1"), "utf-8")\n'), expect="R7.3"),
    V("M:get-load-alias-narrow", (I, GET_OLD, GET_V2.replace("except Exception:", "except ValueError:")), expect="R7.3"),
    V("M:silent-flipped-wrong-way", (F, SILENT_OLD, SILENT_V1.replace("            if self.silent:\n", "            if not self.silent:\n")), expect="R7.1"),
    V("M:shallow-helper-not-flag", (WR, SHALLOW_OLD, SHALLOW_V3.replace("        if self.shallow:\n            raise RuntimeError(", "        if self.environ.get(\"HTTP_X\"):\n            raise RuntimeError(")), expect="R7.1"),
    V("M:strip-port-split-index-1", (SU, SP_OLD, '    return host.split(":", 1)[1]\n'), expect="R7.1"),
    V("M:mimetype-third", (Q, MT_OLD, "        parsed = self._parsed_content_type\n        return parsed[2].lower()\n"), expect="R7.1"),
]
_split(VARIANTS)

# -- handlers around conversions
H = "http.py"; AU = "datastructures/auth.py"; SU = "sansio/utils.py"; I = "_internal.py"

AUTH_OLD = '''            try:
                username, _, password = base64.b64decode(rest).decode().partition(":")
            except ValueError:
                return None

            return cls(scheme, {"username": username, "password": password})
'''
AUTH_V1 = '''            try:
                raw = base64.b64decode(rest)
            except ValueError:
                return None

            try:
                text = raw.decode()
            except UnicodeDecodeError:
                return None

            username, _, password = text.partition(":")
            return cls(scheme, {"username": username, "password": password})
'''
AUTH_V2_DEF = '''def _decode_basic(credentials: str) -> tuple[str, str] | None:
    try:
        decoded = str(base64.b64decode(credentials), "utf-8")
    except (binascii.Error, UnicodeError, ValueError):
        return None

    username, _, password = decoded.partition(":")
    return username, password


class Authorization:
'''
AUTH_V2 = '''            pair = _decode_basic(rest)

            if pair is None:
                return None

            return cls(scheme, {"username": pair[0], "password": pair[1]})
'''
AUTH_V3 = '''            try:
                username, _, password = base64.b64decode(rest).decode().partition(":")
            except Exception:
                return None
            else:
                return cls(scheme, {"username": username, "password": password})
'''
AUTH_BAD = AUTH_V1.replace("            except UnicodeDecodeError:\n                return None\n", "            except UnicodeEncodeError:\n                return None\n")
AUTH_BAD2 = AUTH_V1.replace("            try:\n                raw = base64.b64decode(rest)\n            except ValueError:\n                return None\n", "            raw = base64.b64decode(rest)\n")

DATE_OLD = '''    try:
        dt = email.utils.parsedate_to_datetime(value)
    except (TypeError, ValueError, OverflowError):
        return None
'''
DATE_V1 = '''    try:
        dt = email.utils.parsedate_to_datetime(value)
    except (TypeError, ValueError):
        return None
    except OverflowError:
        return None
'''
DATE_V2_DEF = '''def _parsedate(value: str) -> datetime | None:
    try:
        return email.utils.parsedate_to_datetime(value)
    except (ArithmeticError, TypeError, ValueError):
        return None


def parse_date(value: str | None) -> datetime | None:
'''
DATE_V2 = '''    dt = _parsedate(value)

    if dt is None:
        return None
'''
AGE_OLD = '''    try:
        seconds = int(value)
    except ValueError:
        return None
    if seconds < 0:
        return None
    try:
        return timedelta(seconds=seconds)
    except OverflowError:
        return None
'''
AGE_V1 = '''    try:
        seconds = int(value)

        if seconds < 0:
            return None

        return timedelta(seconds=seconds)
    except (ValueError, OverflowError):
        return None
'''
AGE_V2 = '''    if not value.strip().isdigit():
        return None

    try:
        return timedelta(seconds=int(value))
    except (OverflowError, ValueError):
        return None
'''
AGE_BAD = AGE_V1.replace("    except (ValueError, OverflowError):", "    except ValueError:")
CL_OLD = '''    try:
        return max(0, _plain_int(http_content_length))
    except ValueError:
        return 0
'''
CL_V1 = '''    try:
        length = _plain_int(http_content_length)
    except ValueError:
        length = 0

    return length if length > 0 else 0
'''
PI_OLD = '''    value = value.strip()
    if _plain_int_re.fullmatch(value) is None:
        raise ValueError

    return int(value)
'''
PI_V1 = '''    stripped = value.strip()

    if not _plain_int_re.fullmatch(stripped):
        raise ValueError(f"not a plain integer: {value!r}")

    return int(stripped)
'''

VARIANTS = [
    V("auth-two-tries", (AU, AUTH_OLD, AUTH_V1)),
    V("auth-decode-helper-str-ctor", (AU, AUTH_OLD, AUTH_V2), (AU, "class Authorization:\n", AUTH_V2_DEF), (AU, "import base64\n", "import base64\nimport binascii\n")),
    V("auth-except-exception-else", (AU, AUTH_OLD, AUTH_V3)),
    V("M:auth-two-tries-wrong-handler", (AU, AUTH_OLD, AUTH_BAD), expect="R7.1"),
    V("M:auth-b64-outside-try", (AU, AUTH_OLD, AUTH_BAD2), expect="R7.1"),
    V("date-two-handlers", (H, DATE_OLD, DATE_V1)),
    V("date-helper-arithmetic-error", (H, DATE_OLD, DATE_V2), (H, "def parse_date(value: str | None) -> datetime | None:\n", DATE_V2_DEF)),
    V("age-one-try", (H, AGE_OLD, AGE_V1)),
    V("age-isdigit", (H, AGE_OLD, AGE_V2)),
    V("M:age-one-try-narrow", (H, AGE_OLD, AGE_BAD), expect="R7.1"),
    V("content-length-local", (SU, CL_OLD, CL_V1)),
    V("plain-int-renamed-message", (I, PI_OLD, PI_V1)),
]
_split(VARIANTS)

# ---------------------------------------------------------------------
# datetime-range sites (R7.1): moving a datetime that a parser built from client text can leave datetime.min..max.
# 'Fri, 31 Dec 9999 23:59:59 -0100' parses; astimezone(utc) / + timedelta / - utcoffset then raise OverflowError, and
# replace(year=..) re-validates Feb 29 (ValueError).  Only a handler discharges such a site.
DT_TAIL = "    if dt.tzinfo is None:\n        return dt.replace(tzinfo=timezone.utc)\n\n    return dt\n"
DT_IMPORTS = (Q, "from datetime import datetime\n", "from datetime import datetime\nfrom datetime import timedelta\nfrom datetime import timezone\n")
DT_PROP_AT = "    @cached_property\n    def if_modified_since(self) -> datetime | None:\n"


def _prop(body: str):
    return (Q, DT_PROP_AT, body + "\n" + DT_PROP_AT)


IFR_OLD = "        if date is not None:\n            return ds.IfRange(date=date)\n"
DT_VARIANTS = [
    # mutants, one spelling each
    V("M:date-utc-helper-after-try", (H, DT_TAIL, "    return _dt_as_utc(dt)\n"), expect="R7.1"),
    V("M:date-astimezone-inline", (H, DT_TAIL, "    if dt.tzinfo is None:\n        return dt.replace(tzinfo=timezone.utc)\n\n    return dt.astimezone(timezone.utc)\n"), expect="R7.1"),
    V("M:date-minus-utcoffset", (H, DT_TAIL, "    shift = dt.utcoffset()\n\n    if shift is None:\n        return dt.replace(tzinfo=timezone.utc)\n\n    return (dt - shift).replace(tzinfo=timezone.utc)\n"), expect="R7.1"),
    V("M:if-range-grace-second-augassign", (H, IFR_OLD, "        if date is not None:\n            date += timedelta(seconds=1)\n            return ds.IfRange(date=date)\n"), expect="R7.1"),
    V("M:date-clamped-to-epoch-year", (H, DT_TAIL, "    if dt.year < 1970:\n        dt = dt.replace(year=1970)\n\n" + DT_TAIL), expect="R7.1"),
    V("M:date-naive-timestamp-test", (H, DT_TAIL, "    if dt.timestamp() < 0:\n        return None\n\n" + DT_TAIL), expect="R7.1"),
    V("M:request-date-utc-property-unhandled", DT_IMPORTS, _prop("    @property\n    def date_utc(self) -> datetime | None:\n        sent = self.date\n        return sent.astimezone(timezone.utc) if sent is not None else None\n"), expect="R7.1"),
    V("M:request-expiry-property-plus-delta", DT_IMPORTS, _prop("    @property\n    def revalidate_after(self) -> datetime | None:\n        since = self.if_modified_since\n\n        if since is None:\n            return None\n\n        return timedelta(minutes=5) + since\n"), expect="R7.1"),
    V("M:request-mirrored-date-tuple-unpack", DT_IMPORTS, _prop("    @property\n    def mirrored_date(self) -> datetime | None:\n        since, sent = self.if_modified_since, self.date\n\n        if since is None or sent is None:\n            return None\n\n        return since + (since - sent)\n"), expect="R7.1"),
    # neutral
    V("date-tail-conditional-expression", (H, DT_TAIL, "    return dt if dt.tzinfo is not None else dt.replace(tzinfo=timezone.utc)\n")),
    V("date-tail-assume-utc-helper", (H, DT_TAIL, "    return _assume_utc(dt)\n"), (H, "def parse_date(value: str | None) -> datetime | None:\n", "def _assume_utc(moment: datetime) -> datetime:\n    if moment.utcoffset() is None and moment.tzinfo is None:\n        moment = moment.replace(tzinfo=timezone.utc)\n\n    return moment\n\n\ndef parse_date(value: str | None) -> datetime | None:\n")),
    V("request-date-utc-property-handled", DT_IMPORTS, _prop("    @property\n    def date_utc(self) -> datetime | None:\n        sent = self.date\n\n        if sent is None:\n            return None\n\n        try:\n            return sent.astimezone(timezone.utc)\n        except OverflowError:\n            return None\n")),
    V("request-date-age-property-difference", DT_IMPORTS, _prop("    @property\n    def date_age(self) -> timedelta | None:\n        sent = self.date\n\n        if sent is None:\n            return None\n\n        return (datetime.now(timezone.utc) + timedelta(seconds=1)) - sent\n")),
    V("request-date-epoch-property-aware-timestamp", DT_IMPORTS, _prop("    @property\n    def date_epoch(self) -> float | None:\n        sent = self.if_modified_since\n        return sent.replace(microsecond=0).timestamp() if sent is not None else None\n")),
    V("request-since-minus-date-property", DT_IMPORTS, _prop("    @property\n    def since_before_date(self) -> timedelta | None:\n        since = self.if_modified_since\n        sent = self.date\n\n        if since is None or sent is None:\n            return None\n\n        return since - sent\n")),
]
_split(DT_VARIANTS)


# ---------------------------------------------------------------------
# round 3: logic moved between caller and callee, a local's representation changed, **kwargs built from a table.
# Own variants of the held-out shapes; for every shape that is accepted, the same shape with the premise broken.
WR = "wrappers/request.py"

# -- R7.2: the etag scanning loop lives in a generator / a list-building helper (no emptiness test in front of len())
ETAG_OLD = '''    strong = []
    weak = []
    end = len(value)
    pos = 0
    while pos < end:
        match = _etag_re.match(value, pos)
        if match is None:
            break
        is_weak, quoted, raw = match.groups()
        if raw == "*":
            return ds.ETags(star_tag=True)
        elif quoted:
            raw = quoted
        if is_weak:
            weak.append(raw)
        else:
            strong.append(raw)
        pos = match.end()
    return ds.ETags(strong, weak)
'''
ETAG_DEF = "def parse_etags(value: str | None) -> ds.ETags:\n"
ETAG_GEN_CALLER = '''    strong = []
    weak = []

    for found in _etag_matches(value):
        is_weak, quoted, raw = found.groups()
        if raw == "*":
            return ds.ETags(star_tag=True)
        elif quoted:
            raw = quoted
        (weak if is_weak else strong).append(raw)

    return ds.ETags(strong, weak)
'''
ETAG_GEN = '''def _etag_matches(header: str) -> t.Iterator[t.Match[str]]:
    cursor = 0

    while cursor < len(header):
        found = _etag_re.match(header, cursor)

        if found is None:
            return

        yield found
        _, cursor = found.span()


'''
ETAG_GEN_TRUE = '''def _etag_matches(header: str) -> t.Iterator[t.Match[str]]:
    size = len(header)
    cursor = 0

    while True:
        if cursor >= size:
            break

        found = _etag_re.match(header, cursor)

        if not found:
            break

        cursor = found.end()
        yield found


'''
ETAG_LIST_CALLER = '''    star, strong, weak = _scan_etags(value)

    if star:
        return ds.ETags(star_tag=True)

    return ds.ETags(strong, weak)
'''
ETAG_LIST = '''def _scan_etags(text: str) -> tuple[bool, list[str], list[str]]:
    tags: tuple[list[str], list[str]] = ([], [])
    size = len(text)
    at = 0

    while at < size:
        m = _etag_re.match(text, at)

        if m is None:
            break

        is_weak, quoted, raw = m.groups()

        if raw == "*":
            return True, [], []

        tags[1 if is_weak else 0].append(quoted or raw)
        at = m.end()

    return False, tags[0], tags[1]


'''
ETAG_TAIL_OPTIONAL = (H, "(?:\\s*,\\s*|$)')", "(?:\\s*,\\s*)?')")
R3_ETAG = [
    V("r3-etag-generator-yields-matches-span-cursor", (H, ETAG_OLD, ETAG_GEN_CALLER), (H, ETAG_DEF, ETAG_GEN + ETAG_DEF)),
    V("r3-etag-generator-while-true-advance-before-yield", (H, ETAG_OLD, ETAG_GEN_CALLER), (H, ETAG_DEF, ETAG_GEN_TRUE + ETAG_DEF)),
    V("r3-etag-list-helper-len-without-emptiness-test", (H, ETAG_OLD, ETAG_LIST_CALLER), (H, ETAG_DEF, ETAG_LIST + ETAG_DEF)),
    V("M:r3-etag-generator-cursor-from-span-start", (H, ETAG_OLD, ETAG_GEN_CALLER), (H, ETAG_DEF, ETAG_GEN.replace("_, cursor = found.span()", "cursor, _ = found.span()") + ETAG_DEF), expect="R7.2"),
    V("M:r3-etag-generator-regex-tail-optional", (H, ETAG_OLD, ETAG_GEN_CALLER), (H, ETAG_DEF, ETAG_GEN + ETAG_DEF), ETAG_TAIL_OPTIONAL, expect="R7.2"),
    V("M:r3-etag-generator-advance-only-after-weak", (H, ETAG_OLD, ETAG_GEN_CALLER), (H, ETAG_DEF, ETAG_GEN_TRUE.replace("        cursor = found.end()\n", "        if found.group(1):\n            cursor = found.end()\n") + ETAG_DEF), expect="R7.2"),
    V("M:r3-etag-list-helper-bound-is-not-the-length", (H, ETAG_OLD, ETAG_LIST_CALLER), (H, ETAG_DEF, ETAG_LIST.replace("    size = len(text)\n", "    size = len(text) + 1\n") + ETAG_DEF), expect="R7.2"),
]
_split(R3_ETAG)

# -- R7.1: the quoted-string scan of parse_options_header in a helper that returns an index or a `not found` sentinel;
# the value put into `parts` is non-empty because the index is >= 2 once the sentinel is excluded
QS_OLD = '''            elif rest[:1] == '"':
                pos = 1
                length = len(rest)

                while pos < length:
                    if rest[pos : pos + 2] in {"\\\\\\\\", '\\\\"'}:
                        # Consume escaped slashes and quotes.
                        pos += 2
                    elif rest[pos] == '"':
                        # Stop at an unescaped quote.
                        parts.append((pk, rest[: pos + 1]))
                        rest = rest[pos + 1 :]
                        break
                    else:
                        # Consume any other character.
                        pos += 1
'''
QS_DEF = "def parse_options_header(value: str | None) -> tuple[str, dict[str, str]]:\n"
QS_HELPER = '''def _closing_quote(text: str) -> int:
    """index of the unescaped quote that closes the quoted string ``text`` starts with, -1 without one."""
    at = 1

    while at < len(text):
        if text[at : at + 2] in {"\\\\\\\\", '\\\\"'}:
            at += 2
        elif text[at] == '"':
            return at
        else:
            at += 1

    return -1


'''
QS_CALLER_GE = '''            elif rest[:1] == '"':
                stop = _closing_quote(rest)

                if stop >= 0:
                    parts.append((pk, rest[: stop + 1]))
                    rest = rest[stop + 1 :]
'''
QS_CALLER_WALRUS = '''            elif rest[:1] == '"' and (stop := _closing_quote(rest)) != -1:
                parts.append((pk, rest[: stop + 1]))
                rest = rest[stop + 1 :]
'''
QS_CALLER_LT_CONTINUE = '''            elif rest.startswith('"'):
                stop = _closing_quote(rest)
                cut = 0 if stop < 0 else stop + 1

                if cut:
                    parts.append((pk, rest[:cut]))
                    rest = rest[cut:]
'''
QS_HELPER_NONE = QS_HELPER.replace("-> int:", "-> int | None:").replace("            return at\n", "            return at + 1\n").replace("    return -1\n", "    return None\n")
QS_CALLER_NONE = '''            elif rest[:1] == '"':
                cut = _closing_quote(rest)

                if cut is not None:
                    parts.append((pk, rest[:cut]))
                    rest = rest[cut:]
'''
QS_CALLER_UNCHECKED = '''            elif rest[:1] == '"':
                stop = _closing_quote(rest)
                parts.append((pk, rest[: stop + 1]))
                rest = rest[stop + 1 :]
'''
R3_QUOTED = [
    V("r3-closing-quote-helper-minus-one-tested-ge-zero", (H, QS_OLD, QS_CALLER_GE), (H, QS_DEF, QS_HELPER + QS_DEF)),
    V("r3-closing-quote-helper-walrus-not-equal", (H, QS_OLD, QS_CALLER_WALRUS), (H, QS_DEF, QS_HELPER + QS_DEF)),
    V("r3-closing-quote-helper-conditional-cut-truthiness", (H, QS_OLD, QS_CALLER_LT_CONTINUE), (H, QS_DEF, QS_HELPER + QS_DEF)),
    V("r3-closing-quote-helper-none-sentinel", (H, QS_OLD, QS_CALLER_NONE), (H, QS_DEF, QS_HELPER_NONE + QS_DEF)),
    V("M:r3-closing-quote-sentinel-unchecked", (H, QS_OLD, QS_CALLER_UNCHECKED), (H, QS_DEF, QS_HELPER + QS_DEF), expect="R7.1"),
    V("M:r3-closing-quote-wrong-sentinel-tested", (H, QS_OLD, QS_CALLER_GE.replace("stop >= 0", "stop != 0")), (H, QS_DEF, QS_HELPER + QS_DEF), expect="R7.1"),
    V("M:r3-closing-quote-none-sentinel-index-before-the-quote", (H, QS_OLD, QS_CALLER_NONE), (H, QS_DEF, QS_HELPER_NONE.replace("            return at + 1\n", "            return at - 1\n") + QS_DEF), expect="R7.1"),
    V("M:r3-closing-quote-cut-falls-back-to-zero-unchecked", (H, QS_OLD, QS_CALLER_LT_CONTINUE.replace("                if cut:\n                    parts.append((pk, rest[:cut]))\n                    rest = rest[cut:]\n", "                parts.append((pk, rest[:cut]))\n                rest = rest[cut:]\n")), (H, QS_DEF, QS_HELPER + QS_DEF), expect="R7.1"),
]
_split(R3_QUOTED)

# -- R7.1 silent-mode premise: what make_form_data_parser hands to FormDataParser(silent=...) when the keyword
# arguments are built as a mapping
MK_OLD = '''        return self.form_data_parser_class(
            stream_factory=self._get_file_stream,
            max_form_memory_size=self.max_form_memory_size,
            max_content_length=self.max_content_length,
            max_form_parts=self.max_form_parts,
            cls=self.parameter_storage_class,
        )
'''
MK_COMP = '''        limits = {
            name: getattr(self, name)
            for name in ("max_form_memory_size", "max_content_length", "max_form_parts")
        }
        return self.form_data_parser_class(
            stream_factory=self._get_file_stream,
            cls=self.parameter_storage_class,
            **limits,
        )
'''
MK_ZIP = '''        names = ("max_form_memory_size", "max_content_length", "max_form_parts")
        options = dict(zip(names, (self.max_form_memory_size, self.max_content_length, self.max_form_parts)))
        options.update(stream_factory=self._get_file_stream, cls=self.parameter_storage_class)
        make = self.form_data_parser_class
        return make(**options)
'''
MK_HELPER = '''        return self.form_data_parser_class(**self._form_parser_options())

    def _form_parser_options(self) -> dict[str, t.Any]:
        options: dict[str, t.Any] = {
            "stream_factory": self._get_file_stream,
            "cls": self.parameter_storage_class,
        }

        for attr, key in (
            ("max_form_memory_size", "max_form_memory_size"),
            ("max_content_length", "max_content_length"),
            ("max_form_parts", "max_form_parts"),
        ):
            options[key] = getattr(self, attr)

        return options
'''
MK_TRUE = MK_OLD.replace("            cls=self.parameter_storage_class,\n", "            cls=self.parameter_storage_class,\n            silent=True,\n")
MK_MERGE = '''        fixed = {"stream_factory": self._get_file_stream, "cls": self.parameter_storage_class}
        limits = dict.fromkeys(_PARSER_LIMITS)

        for name in limits:
            limits[name] = getattr(self, name)

        return self.form_data_parser_class(**(fixed | limits))
'''
MK_MERGE_CONST = (WR, "class Request(_SansIORequest):\n", '_PARSER_LIMITS = ("max_form_memory_size", "max_content_length", "max_form_parts")\n\n\nclass Request(_SansIORequest):\n')
MK_POSITIONAL_FALSE = '''        return self.form_data_parser_class(
            self._get_file_stream,
            self.max_form_memory_size,
            self.max_content_length,
            self.parameter_storage_class,
            False,
            max_form_parts=self.max_form_parts,
        )
'''
R3_SILENT = [
    V("r3-parser-kwargs-dict-comprehension-over-names", (WR, MK_OLD, MK_COMP)),
    V("r3-parser-kwargs-dict-zip-then-update-aliased-class", (WR, MK_OLD, MK_ZIP)),
    V("r3-parser-kwargs-built-by-a-private-method", (WR, MK_OLD, MK_HELPER)),
    V("r3-parser-silent-true-written-out", (WR, MK_OLD, MK_TRUE)),
    V("r3-parser-kwargs-fromkeys-module-constant-merged", (WR, MK_OLD, MK_MERGE), MK_MERGE_CONST),
    V("M:r3-parser-kwargs-comprehension-and-silent-false", (WR, MK_OLD, MK_COMP.replace("            **limits,\n", "            **limits,\n            **{\"silent\": False},\n")), expect="R7.1"),
    V("M:r3-parser-kwargs-update-silent-from-shallow", (WR, MK_OLD, MK_ZIP.replace("cls=self.parameter_storage_class)", "cls=self.parameter_storage_class, silent=not self.shallow)")), expect="R7.1"),
    V("M:r3-parser-kwargs-helper-table-carries-silent", (WR, MK_OLD, MK_HELPER.replace('            "cls": self.parameter_storage_class,\n', '            "cls": self.parameter_storage_class,\n            "silent": False,\n')), expect="R7.1"),
    V("M:r3-parser-silent-false-positional", (WR, MK_OLD, MK_POSITIONAL_FALSE), expect="R7.1"),
    V("M:r3-parser-kwargs-constant-names-include-silent", (WR, MK_OLD, MK_MERGE), (WR, "class Request(_SansIORequest):\n", '_PARSER_LIMITS = ("max_form_memory_size", "max_content_length", "max_form_parts", "silent")\n\n\nclass Request(_SansIORequest):\n'), expect="R7.1"),
]
_split(R3_SILENT)

# -- the same scan with the index unpacked from a (found, index) result (path-wise relation between the components), and
# as a str.find from a moving position (the hit is not in front of the position searched from)
QS_HELPER_PAIR = '''def _scan_quoted(text: str) -> tuple[bool, int]:
    at = 1

    while at < len(text):
        if text[at : at + 2] in {"\\\\\\\\", '\\\\"'}:
            at += 2
        elif text[at] == '"':
            return True, at + 1
        else:
            at += 1

    return False, 0


'''
QS_CALLER_PAIR = '''            elif rest[:1] == '"':
                closed, cut = _scan_quoted(rest)

                if closed:
                    parts.append((pk, rest[:cut]))
                    rest = rest[cut:]
'''
QS_CALLER_FIND = '''            elif rest[:1] == '"':
                pos = 1

                while True:
                    stop = rest.find('"', pos)

                    if stop < 0:
                        break

                    back = len(rest[pos:stop]) - len(rest[pos:stop].rstrip("\\\\"))

                    if back % 2 == 0:
                        parts.append((pk, rest[: stop + 1]))
                        rest = rest[stop + 1 :]
                        break

                    pos = stop + 1
'''
R3_QUOTED2 = [
    V("r3-quoted-scan-helper-returns-flag-and-index", (H, QS_OLD, QS_CALLER_PAIR), (H, QS_DEF, QS_HELPER_PAIR + QS_DEF)),
    V("r3-quoted-scan-find-from-moving-position", (H, QS_OLD, QS_CALLER_FIND)),
    V("M:r3-quoted-scan-flag-tested-inverted", (H, QS_OLD, QS_CALLER_PAIR.replace("                if closed:\n", "                if not closed:\n")), (H, QS_DEF, QS_HELPER_PAIR + QS_DEF), expect="R7.1"),
    V("M:r3-quoted-scan-flag-true-with-index-before-quote", (H, QS_OLD, QS_CALLER_PAIR), (H, QS_DEF, QS_HELPER_PAIR.replace("            return True, at + 1\n", "            return True, at - 1\n") + QS_DEF), expect="R7.1"),
    V("M:r3-quoted-scan-find-restarts-at-the-hit", (H, QS_OLD, QS_CALLER_FIND.replace("                    pos = stop + 1\n", "                    pos = stop\n")), expect="R7.2"),
    V("M:r3-quoted-scan-find-miss-not-excluded", (H, QS_OLD, QS_CALLER_FIND.replace("                    if stop < 0:\n", "                    if stop < -1:\n")), expect="R7.1"),
]
_split(R3_QUOTED2)

# -- the etag cursor advanced by the length of the whole match / the text shortened by the whole match (an anchored
# attempt's whole match is as long as the distance its end() moves; not so for search())
ETAG_BODY = '''        is_weak, quoted, raw = match.groups()
        if raw == "*":
            return ds.ETags(star_tag=True)
        elif quoted:
            raw = quoted
        if is_weak:
            weak.append(raw)
        else:
            strong.append(raw)
'''
ETAG_LEN_GROUP = '''    strong = []
    weak = []
    end = len(value)
    pos = 0
    while pos < end:
        match = _etag_re.match(value, pos)
        if match is None:
            break
''' + ETAG_BODY + '''        pos += len(match.group())
    return ds.ETags(strong, weak)
'''
ETAG_REMOVEPREFIX = '''    strong = []
    weak = []
    rest = value
    while len(rest) > 0:
        match = _etag_re.match(rest)
        if match is None:
            break
''' + ETAG_BODY + '''        rest = rest.removeprefix(match[0])
    return ds.ETags(strong, weak)
'''
R3_ETAG2 = [
    V("r3-etag-cursor-plus-length-of-whole-match", (H, ETAG_OLD, ETAG_LEN_GROUP)),
    V("r3-etag-text-shortened-by-whole-match-prefix", (H, ETAG_OLD, ETAG_REMOVEPREFIX)),
    V("M:r3-etag-cursor-plus-length-regex-tail-optional", (H, ETAG_OLD, ETAG_LEN_GROUP), ETAG_TAIL_OPTIONAL, expect="R7.2"),
    V("M:r3-etag-text-shortened-by-searched-match", (H, ETAG_OLD, ETAG_REMOVEPREFIX.replace("_etag_re.match(rest)", "_etag_re.search(rest)")), expect="R7.2"),
]
_split(R3_ETAG2)


# -- round-4 seed C07-H: the *value* of the errors handler that reaches a decode must not plant lone surrogates (R7.3)
I = "_internal.py"; Q = "sansio/request.py"; H = "http.py"; F = "formparser.py"; WR = "wrappers/request.py"; U = "urls.py"
DANCE_DEF_OLD = 'def _wsgi_decoding_dance(s: str) -> str:\n    return s.encode("latin1").decode(errors="replace")\n'
FULLPATH_OLD = '        return f"{self.path}?{self.query_string.decode(errors="replace")}"\n'
OPT_UNQUOTE_OLD = "                pv = unquote(pv, encoding=encoding)\n"
GETDATA_OLD = '            rv = rv.decode(errors="replace")\n'
URLQ_OLD = '    out = quote(e.object[e.start : e.end], safe="")  # type: ignore\n'
R4_SURROGATES = [
    V("r4-dance-handler-module-constant", (I, DANCE_DEF_OLD, '_CGI_ERRORS = "replace"\n\n\ndef _wsgi_decoding_dance(s: str) -> str:\n    return s.encode("latin1").decode(errors=_CGI_ERRORS)\n')),
    V("r4-dance-handler-parameter-default", (I, DANCE_DEF_OLD, 'def _wsgi_decoding_dance(s: str, errors: str = "replace") -> str:\n    return s.encode("latin1").decode("utf-8", errors)\n')),
    V("r4-dance-handler-local", (I, DANCE_DEF_OLD, 'def _wsgi_decoding_dance(s: str) -> str:\n    handler = "replace"\n    raw = s.encode("latin1")\n    return str(raw, "utf-8", handler)\n')),
    V("r4-unquote-explicit-default-handler", (H, OPT_UNQUOTE_OLD, '                pv = unquote(pv, encoding, "replace")\n')),
    V("r4-full-path-helper-decodes", (Q, FULLPATH_OLD, '        return f"{self.path}?{self._query_text()}"\n\n    def _query_text(self) -> str:\n        return str(self.query_string, errors="replace")\n')),
    V("M:r4-dance-positional-surrogateescape", (I, DANCE_DEF_OLD, 'def _wsgi_decoding_dance(s: str) -> str:\n    raw = s.encode("latin1")\n    return raw.decode("utf-8", "surrogateescape")\n'), expect="R7.3"),
    V("M:r4-dance-str-ctor-surrogatepass", (I, DANCE_DEF_OLD, 'def _wsgi_decoding_dance(s: str) -> str:\n    return str(s.encode("latin1"), "utf-8", "surrogatepass")\n'), expect="R7.3"),
    V("M:r4-dance-module-constant-surrogateescape", (I, DANCE_DEF_OLD, '_CGI_ERRORS = "surrogateescape"\n\n\ndef _wsgi_decoding_dance(s: str) -> str:\n    return s.encode("latin1").decode(errors=_CGI_ERRORS)\n'), expect="R7.3"),
    V("M:r4-dance-parameter-default-surrogateescape", (I, DANCE_DEF_OLD, 'def _wsgi_decoding_dance(s: str, errors: str = "surrogateescape") -> str:\n    return s.encode("latin1").decode("utf-8", errors)\n'), expect="R7.3"),
    V("M:r4-full-path-surrogateescape", (Q, FULLPATH_OLD, '        return f"{self.path}?{self.query_string.decode(errors="surrogateescape")}"\n'), expect="R7.3"),
    V("M:r4-unquote-surrogateescape", (H, OPT_UNQUOTE_OLD, '                pv = unquote(pv, encoding=encoding, errors="surrogateescape")\n'), expect="R7.3"),
    V("M:r4-get-data-encode-only-handler", (WR, GETDATA_OLD, '            rv = rv.decode(errors="xmlcharrefreplace")\n'), expect="R7.3"),
    V("M:r4-full-path-handler-name-typo", (Q, FULLPATH_OLD, '        return f"{self.path}?{self.query_string.decode(errors="werkzeug.url_qoute")}"\n'), expect="R7.3"),
    V("M:r4-registered-handler-hands-back-surrogate", (U, URLQ_OLD, '    out = "\\udcff"\n'), expect="R7.3"),
    V("M:r4-helper-decodes-surrogateescape", (Q, FULLPATH_OLD, '        return f"{self.path}?{self._query_text()}"\n\n    def _query_text(self) -> str:\n        return str(self.query_string, errors="surrogateescape")\n'), expect="R7.3"),
]
_split(R4_SURROGATES)


# -- round-4 seed C07-I: nested unbounded repeats that cut one run of a character in more than one way (R7.4)
S = "sansio/http.py"; H = "http.py"; I = "_internal.py"
CK_QUOTED_OLD = '        "(?:[^\\\\"]|\\\\.)*"\n'
PKEY_OLD = '''_parameter_key_re = re.compile(r"([\\w!#$%&'*+\\-.^`|~]+)=", flags=re.ASCII)\n'''
CSV_OLD = "    ([\\w!#$%&*+\\-.^`|~]*)'  # charset part, could be empty\n"
CONT_OLD = '_continuation_re = re.compile(r"\\*(\\d+)$", re.ASCII)\n'
QV_OLD = '_q_value_re = re.compile(r"-?\\d+(\\.\\d+)?", re.ASCII)\n'
PINT_OLD = '_plain_int_re = re.compile(r"-?\\d+", re.ASCII)\n'
ETAG_RE_OLD = '''_etag_re = re.compile(r'([Ww]/)?(?:"(.*?)"|(.*?))(?:\\s*,\\s*|$)')\n'''
R4_REGEX = [
    V("r4-cookie-quoted-unrolled-loop", (S, CK_QUOTED_OLD, '        "[^\\\\"]*(?:\\\\.[^\\\\"]*)*"\n')),
    V("r4-cookie-quoted-alternatives-swapped", (S, CK_QUOTED_OLD, '        "(?:\\\\.|[^\\\\"])*"\n')),
    V("r4-param-key-counted-repeat", (H, PKEY_OLD, '''_parameter_key_re = re.compile(r"([\\w!#$%&'*+\\-.^`|~]{1,})=", flags=re.ASCII)\n''')),
    V("r4-continuation-digit-class", (H, CONT_OLD, '_continuation_re = re.compile(r"\\*([0-9]+)$", re.ASCII)\n')),
    V("r4-q-value-digit-class", (H, QV_OLD, '_q_value_re = re.compile(r"-?[0-9]+(\\.[0-9]+)?", re.ASCII)\n')),
    V("r4-etag-weak-prefix-alternation", (H, ETAG_RE_OLD, '''_etag_re = re.compile(r'(W/|w/)?(?:"(.*?)"|(.*?))(?:\\s*,\\s*|$)')\n''')),
    V("M:r4-cookie-quoted-run-inside-star", (S, CK_QUOTED_OLD, '        "(?:\\\\.|[^\\\\"]+)*"\n'), expect="R7.4"),
    V("M:r4-cookie-quoted-star-inside-star", (S, CK_QUOTED_OLD, '        "(?:[^\\\\"]*|\\\\.)*"\n'), expect="R7.4"),
    V("M:r4-param-key-plus-of-plus", (H, PKEY_OLD, '''_parameter_key_re = re.compile(r"((?:[\\w!#$%&'*+\\-.^`|~]+)+)=", flags=re.ASCII)\n'''), expect="R7.4"),
    V("M:r4-charset-star-of-star", (H, CSV_OLD, "    ((?:[\\w!#$%&*+\\-.^`|~]*)*)'  # charset part, could be empty\n"), expect="R7.4"),
    V("M:r4-continuation-groups-of-digits-before-end", (H, CONT_OLD, '_continuation_re = re.compile(r"\\*((?:\\d+)+)$", re.ASCII)\n'), expect="R7.4"),
    V("M:r4-q-value-groups-of-digits-fullmatch", (H, QV_OLD, '_q_value_re = re.compile(r"-?(?:\\d+)+(\\.\\d+)?", re.ASCII)\n'), expect="R7.4"),
    V("M:r4-plain-int-digit-groups-fullmatch", (I, PINT_OLD, '_plain_int_re = re.compile(r"-?(?:\\d\\d*)+", re.ASCII)\n'), expect="R7.4"),
    V("M:r4-etag-quoted-lazy-run-in-star", (H, ETAG_RE_OLD, '''_etag_re = re.compile(r'([Ww]/)?(?:"((?:[^"]+?)*)"|(.*?))(?:\\s*,\\s*|$)')\n'''), expect="R7.4"),
]
_split(R4_REGEX)

GETDATA_SIG_OLD = "        self, cache: bool = True, as_text: bool = False, parse_form_data: bool = False\n    ) -> bytes | str:\n"
R4_SURROGATES_2 = [
    V("r4-get-data-handler-public-parameter", (WR, GETDATA_SIG_OLD, '        self, cache: bool = True, as_text: bool = False, parse_form_data: bool = False, errors: str = "replace"\n    ) -> bytes | str:\n'), (WR, GETDATA_OLD, "            rv = rv.decode(errors=errors)\n")),
    V("M:r4-get-data-public-parameter-surrogateescape", (WR, GETDATA_SIG_OLD, '        self, cache: bool = True, as_text: bool = False, parse_form_data: bool = False, errors: str = "surrogateescape"\n    ) -> bytes | str:\n'), (WR, GETDATA_OLD, "            rv = rv.decode(errors=errors)\n"), expect="R7.3"),
]
_split(R4_SURROGATES_2)


# ---------------------------------------------------------------------
# round 5 (held-out twin C15-13 and own probes of the recently added rule families)
# -- the `is ASCII` guard idiom: after a dominating test that means `x is ASCII-only` a strict encode of x to ascii / latin-1
#    cannot raise (and the bytes decode as ASCII); str.isdigit() / isdecimal() + int(x) is NOT such a guard (unicode digits)
U = "urls.py"; H = "http.py"; W = "wsgi.py"; Q = "sansio/request.py"; F = "formparser.py"; I = "_internal.py"; WR = "wrappers/request.py"; S = "sansio/http.py"; AC = "datastructures/accept.py"
R5_HEAD = '''    try:
        data = domain.encode("ascii")
    except UnicodeEncodeError:
        # If the domain is not ASCII, it's decoded already.
        return domain
'''
R5_DEF = "def _decode_idna(domain: str) -> str:\n"
R5_GUARD = '    if not domain.isascii():\n        return domain\n\n'
R5_AGE_OLD = "    try:\n        seconds = int(value)\n    except ValueError:\n        return None\n    if seconds < 0:\n        return None\n"
R5_ASCII = [
    V("r5-isascii-early-return-encode-ascii", (U, R5_HEAD, R5_GUARD + '    data = domain.encode("ascii")\n')),
    V("r5-isascii-true-branch", (U, R5_HEAD, '    if domain.isascii():\n        data = domain.encode("ascii")\n    else:\n        return domain\n')),
    V("r5-isascii-conditional-expression", (U, R5_HEAD, '    data = domain.encode("ascii") if domain.isascii() else None\n\n    if data is None:\n        return domain\n')),
    V("r5-isascii-guard-in-caller-encode-in-helper", (U, R5_HEAD, R5_GUARD + '    data = _idna_bytes(domain)\n'), (U, R5_DEF, 'def _idna_bytes(text: str) -> bytes:\n    return text.encode("ascii")\n\n\n' + R5_DEF)),
    V("r5-isascii-predicate-helper", (U, R5_HEAD, '    if not _is_ascii(domain):\n        return domain\n\n    data = domain.encode("ascii")\n'), (U, R5_DEF, 'def _is_ascii(text: str) -> bool:\n    """Whether the text can be encoded as ASCII."""\n    return text.isascii()\n\n\n' + R5_DEF)),
    V("r5-isascii-negative-predicate-helper", (U, R5_HEAD, '    if _has_wide(domain):\n        return domain\n\n    data = domain.encode("ascii")\n'), (U, R5_DEF, 'def _has_wide(text: str) -> bool:\n    return not text.isascii()\n\n\n' + R5_DEF)),
    V("r5-isascii-flag", (U, R5_HEAD, '    plain = domain.isascii()\n\n    if not plain:\n        return domain\n\n    data = domain.encode("ascii")\n')),
    V("r5-all-ord-below-128", (U, R5_HEAD, '    if not all(ord(ch) < 128 for ch in domain):\n        return domain\n\n    data = domain.encode("ascii")\n')),
    V("r5-any-ord-above-127", (U, R5_HEAD, '    if any(ord(ch) > 127 for ch in domain):\n        return domain\n\n    data = domain.encode("ascii")\n')),
    V("r5-isascii-encode-latin1", (U, R5_HEAD, R5_GUARD + '    data = domain.encode("latin1")\n')),
    V("r5-isascii-bytes-constructor", (U, R5_HEAD, R5_GUARD + '    data = bytes(domain, "ascii")\n')),
    V("r5-isascii-on-the-bytes", (U, R5_HEAD, '    data = domain.encode()\n\n    if not data.isascii():\n        return domain\n')),
    V("r5-isascii-compound-test", (U, R5_HEAD, '    if not domain or not domain.isascii():\n        return domain\n\n    data = domain.encode("ascii")\n')),
    V("r5-isascii-helper-returns-optional-bytes", (U, R5_HEAD, '    data = _ascii_or_none(domain)\n\n    if data is None:\n        return domain\n'), (U, R5_DEF, 'def _ascii_or_none(text: str) -> bytes | None:\n    return text.encode("ascii") if text.isascii() else None\n\n\n' + R5_DEF)),
    V("M:r5-isascii-wrong-polarity", (U, R5_HEAD, '    if domain.isascii():\n        return domain\n\n    data = domain.encode("ascii")\n'), expect="R7.1"),
    V("M:r5-isascii-of-another-value", (U, R5_HEAD, '    if not domain.lower().isascii():\n        return domain\n\n    data = domain.encode("ascii")\n'), expect="R7.1"),
    V("M:r5-isascii-rebound-before-encode", (U, R5_HEAD, R5_GUARD + '    domain = unquote(domain)\n    data = domain.encode("ascii")\n'), expect="R7.1"),
    V("M:r5-isascii-and-instead-of-or", (U, R5_HEAD, '    if not domain and not domain.isascii():\n        return domain\n\n    data = domain.encode("ascii")\n'), expect="R7.1"),
    V("M:r5-isalnum-is-no-ascii-test", (U, R5_HEAD, '    if not domain.isalnum():\n        return domain\n\n    data = domain.encode("ascii")\n'), expect="R7.1"),
    V("M:r5-all-ord-below-256", (U, R5_HEAD, '    if not all(ord(ch) < 256 for ch in domain):\n        return domain\n\n    data = domain.encode("ascii")\n'), expect="R7.1"),
    V("M:r5-predicate-helper-tests-printable", (U, R5_HEAD, '    if not _is_ascii(domain):\n        return domain\n\n    data = domain.encode("ascii")\n'), (U, R5_DEF, 'def _is_ascii(text: str) -> bool:\n    return text.isprintable()\n\n\n' + R5_DEF), expect="R7.1"),
    V("M:r5-negative-predicate-helper-flipped", (U, R5_HEAD, '    if not _has_wide(domain):\n        return domain\n\n    data = domain.encode("ascii")\n'), (U, R5_DEF, 'def _has_wide(text: str) -> bool:\n    return not text.isascii()\n\n\n' + R5_DEF), expect="R7.1"),
    V("M:r5-encode-helper-second-caller-unguarded", (U, R5_HEAD, R5_GUARD + '    data = _idna_bytes(domain)\n'), (U, R5_DEF, 'def _idna_bytes(text: str) -> bytes:\n    return text.encode("ascii")\n\n\n' + R5_DEF), (U, '        netloc = _decode_idna(parts.hostname)\n', '        netloc = _decode_idna(parts.hostname)\n        _idna_bytes(parts.hostname)\n'), expect="R7.1"),
    V("M:r5-isascii-does-not-cover-idna", (U, R5_HEAD + '\n    try:\n        # Try decoding in one shot.\n        return data.decode("idna")\n    except UnicodeError:\n        pass\n', R5_GUARD + '    data = domain.encode("ascii")\n    data.decode("idna")\n'), expect="R7.1"),
    V("M:r5-helper-returns-utf8-of-printable", (U, R5_HEAD, '    data = _ascii_or_none(domain)\n\n    if data is None:\n        return domain\n'), (U, R5_DEF, 'def _ascii_or_none(text: str) -> bytes | None:\n    return text.encode() if text.isprintable() else None\n\n\n' + R5_DEF), expect="R7.1"),
    V("M:r5-age-isdigit-is-no-guard-for-int", (H, R5_AGE_OLD, "    if not value.isdigit():\n        return None\n\n    seconds = int(value)\n"), expect="R7.1"),
    V("M:r5-age-isdecimal-is-no-guard-for-int", (H, R5_AGE_OLD, "    if not value.isdecimal():\n        return None\n\n    seconds = int(value)\n"), expect="R7.1"),
    V("M:r5-age-isascii-alone-is-no-guard-for-int", (H, R5_AGE_OLD, "    if not value.isascii():\n        return None\n\n    seconds = int(value)\n"), expect="R7.1"),
]
_split(R5_ASCII)

# -- R7.3: every spelling of a codec call (unbound method, codecs.decode / encode) and every origin of the handler's value
#    (class attribute, tuple assignment, `**` table, module table, decode moved into a helper)
R5_DANCE_OLD = 'def _wsgi_decoding_dance(s: str) -> str:\n    return s.encode("latin1").decode(errors="replace")\n'
R5_FULLPATH_OLD = '        return f"{self.path}?{self.query_string.decode(errors="replace")}"\n'
R5_GETDATA_OLD = '            rv = rv.decode(errors="replace")\n'
R5_ARGS_DEC_OLD = '                self.query_string.decode(errors="replace"),\n'
R5_COOKIE_OLD = '        cookie = cookie.encode("latin1").decode(errors="replace")\n'
R5_CLS_ATTR = (Q, "    #: the class to use for `args` and `form`.  The default is an", '    #: how undecodable bytes in the query string are handled\n    encoding_errors = "replace"\n\n    #: the class to use for `args` and `form`.  The default is an')
R5_FP_ATTR = (Q, R5_FULLPATH_OLD, '        return f"{self.path}?{self.query_string.decode(errors=self.encoding_errors)}"\n')
R5_CODECS_I = (I, "import logging\n", "import codecs\nimport logging\n")
R5_CODECS_H = (H, "import email.utils\n", "import codecs\nimport email.utils\n")
R5_ARGS_OLD = '''            parse_qsl(
                self.query_string.decode(errors="replace"),
                keep_blank_values=True,
                errors="werkzeug.url_quote",
            )
'''
R5_FORM_OLD = '''        items = parse_qsl(
            stream.read().decode(),
            keep_blank_values=True,
            errors="werkzeug.url_quote",
        )
'''
R5_PAIRS_AT = "class FormDataParser:\n"
R5_HANDLERS = [
    V("r5-handler-class-attribute", R5_FP_ATTR, R5_CLS_ATTR, (Q, R5_ARGS_DEC_OLD, '                self.query_string.decode(errors=self.encoding_errors),\n')),
    V("r5-dance-unbound-bytes-decode", (I, R5_DANCE_OLD, 'def _wsgi_decoding_dance(s: str) -> str:\n    return bytes.decode(s.encode("latin1"), "utf-8", "replace")\n')),
    V("r5-dance-codecs-decode", (I, R5_DANCE_OLD, 'def _wsgi_decoding_dance(s: str) -> str:\n    return codecs.decode(s.encode("latin1"), "utf-8", "replace")\n'), R5_CODECS_I),
    V("r5-cookie-unbound-bytes-decode", (H, R5_COOKIE_OLD, '        cookie = bytes.decode(cookie.encode("latin1"), "utf-8", "replace")\n')),
    V("r5-cookie-codecs-decode", (H, R5_COOKIE_OLD, '        cookie = codecs.decode(cookie.encode("latin1"), errors="replace")\n'), R5_CODECS_H),
    V("r5-cookie-unbound-str-encode", (H, R5_COOKIE_OLD, '        cookie = str.encode(cookie, "latin1").decode(errors="replace")\n')),
    V("r5-dance-handler-tuple-assignment", (I, R5_DANCE_OLD, 'def _wsgi_decoding_dance(s: str) -> str:\n    charset, errors = "utf-8", "replace"\n    return s.encode("latin1").decode(charset, errors)\n')),
    V("r5-get-data-kwargs-display", (WR, R5_GETDATA_OLD, '            rv = rv.decode(**{"errors": "replace"})\n')),
    V("r5-dance-handler-module-table", (I, R5_DANCE_OLD, '_ERRORS = {"cgi": "replace"}\n\n\ndef _wsgi_decoding_dance(s: str) -> str:\n    return s.encode("latin1").decode(errors=_ERRORS["cgi"])\n')),
    V("r5-dance-decode-in-helper", (I, R5_DANCE_OLD, 'def _wsgi_decoding_dance(s: str) -> str:\n    return _lenient_utf8(s.encode("latin1"))\n\n\ndef _lenient_utf8(raw: bytes) -> str:\n    return raw.decode("utf-8", errors="replace")\n')),
    V("r5-form-parse-qsl-local-handler", (F, R5_FORM_OLD, '        handler = "werkzeug.url_quote"\n        items = parse_qsl(stream.read().decode(), keep_blank_values=True, errors=handler)\n')),
    V("r5-form-parse-qsl-positional", (F, R5_FORM_OLD, '        items = parse_qsl(stream.read().decode(), True, False, "utf-8", "werkzeug.url_quote")\n')),
    V("r5-args-parse-qsl-in-method-helper", (Q, R5_ARGS_OLD, "            self._query_items()\n"), (Q, "    @cached_property\n    def access_route(self) -> list[str]:\n", '    def _query_items(self) -> list[tuple[str, str]]:\n        return parse_qsl(\n            self.query_string.decode(errors="replace"),\n            keep_blank_values=True,\n            errors="werkzeug.url_quote",\n        )\n\n    @cached_property\n    def access_route(self) -> list[str]:\n')),
    V("r5-form-parse-qsl-in-module-helper", (F, R5_FORM_OLD, "        items = _parse_pairs(stream.read().decode())\n"), (F, R5_PAIRS_AT, 'def _parse_pairs(text: str) -> list[tuple[str, str]]:\n    return parse_qsl(text, keep_blank_values=True, errors="werkzeug.url_quote")\n\n\n' + R5_PAIRS_AT)),
    V("r5-form-parse-qsl-kwargs-table", (F, R5_FORM_OLD, '        options_ = {"keep_blank_values": True, "errors": "werkzeug.url_quote"}\n        items = parse_qsl(stream.read().decode(), **options_)\n')),
    V("r5-form-parse-qs-flattened", (F, R5_FORM_OLD, '        items = [\n            (key, value)\n            for key, values in parse_qs(stream.read().decode(), keep_blank_values=True, errors="werkzeug.url_quote").items()\n            for value in values\n        ]\n'), (F, "from urllib.parse import parse_qsl\n", "from urllib.parse import parse_qs\n")),
    V("M:r5-handler-class-attribute-surrogateescape", R5_FP_ATTR, (R5_CLS_ATTR[0], R5_CLS_ATTR[1], R5_CLS_ATTR[2].replace('"replace"', '"surrogateescape"')), expect="R7.3"),
    V("M:r5-handler-class-attribute-subclass-overrides", R5_FP_ATTR, R5_CLS_ATTR, (WR, "    #: the maximum content length.", '    encoding_errors = "surrogateescape"\n\n    #: the maximum content length.'), expect="R7.3"),
    V("M:r5-handler-class-attribute-set-in-init", R5_FP_ATTR, R5_CLS_ATTR, (Q, "        self.query_string = query_string\n", '        self.query_string = query_string\n        self.encoding_errors = "surrogatepass"\n'), expect="R7.3"),
    V("M:r5-dance-unbound-decode-surrogateescape", (I, R5_DANCE_OLD, 'def _wsgi_decoding_dance(s: str) -> str:\n    return bytes.decode(s.encode("latin1"), "utf-8", "surrogateescape")\n'), expect="R7.3"),
    V("M:r5-cookie-unbound-decode-strict", (H, R5_COOKIE_OLD, '        cookie = bytes.decode(cookie.encode("latin1"), "utf-8")\n'), expect="R7.1"),
    V("M:r5-dance-codecs-decode-surrogateescape", (I, R5_DANCE_OLD, 'def _wsgi_decoding_dance(s: str) -> str:\n    return codecs.decode(s.encode("latin1"), "utf-8", "surrogateescape")\n'), R5_CODECS_I, expect="R7.3"),
    V("M:r5-cookie-codecs-decode-strict", (H, R5_COOKIE_OLD, '        cookie = codecs.decode(cookie.encode("latin1"), "utf-8")\n'), R5_CODECS_H, expect="R7.1"),
    V("M:r5-cookie-unbound-encode-ascii", (H, R5_COOKIE_OLD, '        cookie = str.encode(cookie, "ascii").decode(errors="replace")\n'), expect="R7.1"),
    V("M:r5-dance-tuple-assignment-surrogateescape", (I, R5_DANCE_OLD, 'def _wsgi_decoding_dance(s: str) -> str:\n    charset, errors = "utf-8", "surrogateescape"\n    return s.encode("latin1").decode(charset, errors)\n'), expect="R7.3"),
    V("M:r5-dance-tuple-assignment-swapped", (I, R5_DANCE_OLD, 'def _wsgi_decoding_dance(s: str) -> str:\n    errors, charset = "utf-8", "replace"\n    return s.encode("latin1").decode(charset, errors)\n'), expect="R7.3"),
    V("M:r5-get-data-kwargs-display-surrogateescape", (WR, R5_GETDATA_OLD, '            rv = rv.decode(**{"errors": "surrogateescape"})\n'), expect="R7.3"),
    V("M:r5-get-data-kwargs-display-strict", (WR, R5_GETDATA_OLD, '            rv = rv.decode(**{"encoding": "utf-8"})\n'), expect="R7.1"),
    V("M:r5-dance-module-table-surrogateescape", (I, R5_DANCE_OLD, '_ERRORS = {"cgi": "surrogateescape"}\n\n\ndef _wsgi_decoding_dance(s: str) -> str:\n    return s.encode("latin1").decode(errors=_ERRORS["cgi"])\n'), expect="R7.3"),
    V("M:r5-dance-helper-decodes-strict", (I, R5_DANCE_OLD, 'def _wsgi_decoding_dance(s: str) -> str:\n    return _lenient_utf8(s.encode("latin1"))\n\n\ndef _lenient_utf8(raw: bytes) -> str:\n    return raw.decode("utf-8")\n'), expect="R7.3"),
    V("M:r5-form-parse-qsl-local-handler-strict", (F, R5_FORM_OLD, '        handler = "strict"\n        items = parse_qsl(stream.read().decode(), keep_blank_values=True, errors=handler)\n'), expect="R7.3"),
    V("M:r5-form-parse-qsl-helper-default-handler", (F, R5_FORM_OLD, "        items = _parse_pairs(stream.read().decode())\n"), (F, R5_PAIRS_AT, 'def _parse_pairs(text: str) -> list[tuple[str, str]]:\n    return parse_qsl(text, keep_blank_values=True)\n\n\n' + R5_PAIRS_AT), expect="R7.3"),
    V("M:r5-form-parse-qsl-kwargs-table-without-handler", (F, R5_FORM_OLD, '        options_ = {"keep_blank_values": True}\n        items = parse_qsl(stream.read().decode(), **options_)\n'), expect="R7.3"),
]
_split(R5_HANDLERS)

# -- R7.4: the same patterns assembled / flagged / grouped differently stay silent
R5_PKEY_OLD = '''_parameter_key_re = re.compile(r"([\\w!#$%&'*+\\-.^`|~]+)=", flags=re.ASCII)\n'''
R5_PTOK_OLD = '''_parameter_token_value_re = re.compile(r"[\\w!#$%&'*+\\-.^`|~]+", flags=re.ASCII)\n'''
R5_CONT_OLD = '_continuation_re = re.compile(r"\\*(\\d+)$", re.ASCII)\n'
R5_QV_OLD = '_q_value_re = re.compile(r"-?\\d+(\\.\\d+)?", re.ASCII)\n'
R5_PINT_OLD = '_plain_int_re = re.compile(r"-?\\d+", re.ASCII)\n'
R5_ETAG_RE_OLD = '''_etag_re = re.compile(r'([Ww]/)?(?:"(.*?)"|(.*?))(?:\\s*,\\s*|$)')\n'''
R5_CKQ_OLD = '        "(?:[^\\\\"]|\\\\.)*"\n'
R5_REGEX = [
    V("r5-token-class-shared-f-string", (H, R5_PKEY_OLD + R5_PTOK_OLD, '''_TOKEN_CHARS = r"[\\w!#$%&'*+\\-.^`|~]"\n_parameter_key_re = re.compile(f"({_TOKEN_CHARS}+)=", flags=re.ASCII)\n_parameter_token_value_re = re.compile(f"{_TOKEN_CHARS}+", flags=re.ASCII)\n''')),
    V("r5-token-class-percent-format", (H, R5_PKEY_OLD + R5_PTOK_OLD, '''_TOKEN_CHARS = "[" + "".join([r"\\w", "!#$%&'*+", r"\\-", ".^`|~"]) + "]"\n_parameter_key_re = re.compile("(%s+)=" % _TOKEN_CHARS, flags=re.ASCII)\n_parameter_token_value_re = re.compile("%s+" % _TOKEN_CHARS, flags=re.ASCII)\n''')),
    V("r5-continuation-inline-flag-named-group", (H, R5_CONT_OLD, '_continuation_re = re.compile(r"(?a)\\*(?P<index>\\d+)$")\n')),
    V("r5-q-value-verbose", (H, R5_QV_OLD, '_q_value_re = re.compile(\n    r"""\n    -?\\d+        # integer part\n    (\\.\\d+)?    # optional fraction\n    """,\n    re.ASCII | re.VERBOSE,\n)\n')),
    V("r5-plain-int-possessive", (I, R5_PINT_OLD, '_plain_int_re = re.compile(r"-?\\d++", re.ASCII)\n')),
    V("r5-plain-int-re-function-with-constant-pattern", (I, R5_PINT_OLD + "\n\ndef _plain_int(value: str) -> int:", '_PLAIN_INT = r"-?\\d+"\n\n\ndef _plain_int(value: str) -> int:'), (I, "    if _plain_int_re.fullmatch(value) is None:\n", "    if re.fullmatch(_PLAIN_INT, value, re.ASCII) is None:\n")),
    V("r5-cookie-quoted-atomic-group", (S, R5_CKQ_OLD, '        "(?>[^\\\\"]|\\\\.)*"\n')),
    V("r5-etag-pattern-from-parts", (H, R5_ETAG_RE_OLD, '''_ETAG_WEAK = r"([Ww]/)?"\n_ETAG_VALUE = r'(?:"(.*?)"|(.*?))'\n_ETAG_END = r"(?:\\s*,\\s*|$)"\n_etag_re = re.compile(_ETAG_WEAK + _ETAG_VALUE + _ETAG_END)\n''')),
    V("r5-continuation-pattern-moved-to-internal", (H, R5_CONT_OLD, ""), (I, R5_PINT_OLD, R5_PINT_OLD + '_continuation_re = re.compile(r"\\*(\\d+)$", re.ASCII)\n'), (H, "from ._internal import _plain_int\n", "from ._internal import _continuation_re\nfrom ._internal import _plain_int\n")),
    V("M:r5-token-class-f-string-plus-of-plus", (H, R5_PKEY_OLD + R5_PTOK_OLD, '''_TOKEN_CHARS = r"[\\w!#$%&'*+\\-.^`|~]"\n_parameter_key_re = re.compile(f"((?:{_TOKEN_CHARS}+)+)=", flags=re.ASCII)\n_parameter_token_value_re = re.compile(f"{_TOKEN_CHARS}+", flags=re.ASCII)\n'''), expect="R7.4"),
    V("M:r5-plain-int-re-function-groups-of-digits", (I, R5_PINT_OLD + "\n\ndef _plain_int(value: str) -> int:", '_PLAIN_INT = r"-?(?:\\d+)+"\n\n\ndef _plain_int(value: str) -> int:'), (I, "    if _plain_int_re.fullmatch(value) is None:\n", "    if re.fullmatch(_PLAIN_INT, value, re.ASCII) is None:\n"), expect="R7.4"),
]
_split(R5_REGEX)

# -- size / datetime-range site kinds: the bound on a read / allocation and the fields of replace() in other spellings
R5_TEMP_OLD = "                temp_b = bytearray(remaining)\n"
R5_FITS_OLD = "            if size <= remaining:\n"
R5_READ_OLD = "                data = self._stream.read(min(size, remaining))\n"
R5_CHUNK_OLD = "            data = self.read(1024 * 64)\n"
R5_RI_HEAD_OLD = "        size = len(b)\n        remaining = self.limit - self._pos\n"
R5_DT_TAIL = "    if dt.tzinfo is None:\n        return dt.replace(tzinfo=timezone.utc)\n\n    return dt\n"
R5_SIZES = [
    V("r5-temp-buffer-helper", (W, R5_TEMP_OLD, "                temp_b = self._scratch(remaining)\n"), (W, "    def readall(self) -> bytes:\n", "    def _scratch(self, length: int) -> bytearray:\n        return bytearray(length)\n\n    def readall(self) -> bytes:\n")),
    V("r5-fits-test-mirrored-flag", (W, R5_FITS_OLD, "            fits = remaining >= size\n\n            if fits:\n")),
    V("r5-wanted-size-local", (W, R5_RI_HEAD_OLD, R5_RI_HEAD_OLD + "        want = min(size, remaining)\n"), (W, R5_TEMP_OLD, "                temp_b = bytearray(want)\n"), (W, R5_READ_OLD, "                data = self._stream.read(want)\n")),
    V("r5-read-min-as-conditional-expression", (W, R5_READ_OLD, "                data = self._stream.read(size if size < remaining else remaining)\n")),
    V("r5-read-min-as-conditional-expression-le", (W, R5_READ_OLD, "                data = self._stream.read(remaining if remaining <= size else size)\n")),
    V("r5-read-clamped-local", (W, R5_READ_OLD, "                count = size\n\n                if count > remaining:\n                    count = remaining\n\n                data = self._stream.read(count)\n")),
    V("r5-chunk-size-class-constant", (W, R5_CHUNK_OLD, "            data = self.read(self._chunk_size)\n"), (W, "    def readall(self) -> bytes:\n", "    _chunk_size = 1024 * 64\n\n    def readall(self) -> bytes:\n")),
    V("r5-date-replace-kwargs-display", (H, R5_DT_TAIL, "    if dt.tzinfo is None:\n        return dt.replace(**{\"tzinfo\": timezone.utc})\n\n    return dt\n")),
    V("r5-date-replace-tzinfo-or", (H, R5_DT_TAIL, "    return dt.replace(tzinfo=dt.tzinfo or timezone.utc)\n")),
    V("r5-date-combine", (H, R5_DT_TAIL, "    if dt.tzinfo is None:\n        return datetime.combine(dt.date(), dt.time(), timezone.utc)\n\n    return dt\n")),
    V("M:r5-read-remaining", (W, R5_READ_OLD, "                data = self._stream.read(remaining)\n"), expect="R7.1"),
    V("M:r5-read-max-as-conditional-expression", (W, R5_READ_OLD, "                data = self._stream.read(size if size > remaining else remaining)\n"), expect="R7.1"),
    V("M:r5-read-conditional-expression-arms-swapped", (W, R5_READ_OLD, "                data = self._stream.read(remaining if size < remaining else size)\n"), expect="R7.1"),
    V("M:r5-read-clamped-the-wrong-way", (W, R5_READ_OLD, "                count = size\n\n                if count < remaining:\n                    count = remaining\n\n                data = self._stream.read(count)\n"), expect="R7.1"),
    V("M:r5-date-replace-kwargs-display-year", (H, R5_DT_TAIL, "    if dt.tzinfo is None:\n        return dt.replace(**{\"tzinfo\": timezone.utc, \"year\": max(dt.year, 1970)})\n\n    return dt\n"), expect="R7.1"),
]
_split(R5_SIZES)

# -- an ASCII start says nothing about a buffer / list that grows in place afterwards
R5_BUFFERS = [
    V("r5-isascii-bytearray-constructor-copy", (U, R5_HEAD, R5_GUARD + '    data = bytes(bytearray(domain, "ascii"))\n')),
    V("r5-isascii-joined-tuple-of-encoded", (U, R5_HEAD, R5_GUARD + '    data = b"".join((domain.encode("ascii"),))\n')),
    V("M:r5-ascii-buffer-extended-with-utf8", (U, R5_HEAD, '    buf = bytearray(b"")\n    buf.extend(domain.encode())\n    data = bytes(buf)\n'), expect="R7.1"),
    V("M:r5-ascii-list-appended-with-utf8", (U, R5_HEAD, '    pieces = [b"x"]\n    pieces.append(domain.encode())\n    data = b"".join(pieces)\n'), expect="R7.1"),
    V("M:r5-isascii-buffer-grows-after-the-test", (U, R5_HEAD, '    buf = bytearray(domain.encode())\n\n    if not buf.isascii():\n        return domain\n\n    buf.extend(unquote(domain).encode())\n    data = bytes(buf)\n'), expect="R7.1"),
]
_split(R5_BUFFERS)

# nested local functions are followed (MODEL_DOC["nested-def"]); codecs.lookup raises ValueError for a NUL in the name
_CS_OLD = "            try:\n                return codecs.lookup(name).name\n            except (LookupError, ValueError):\n                # ValueError: the name contains a null character.\n                return name.lower()\n"
MUTANTS += [
    {"name": "charset-normalize-handler-loses-valueerror", "expect": "R7.1", "edits": [(AC, "            except (LookupError, ValueError):\n                # ValueError", "            except LookupError:\n                # ValueError")]},
    {"name": "charset-normalize-without-try", "expect": "R7.1", "edits": [(AC, _CS_OLD, "            return codecs.lookup(name).name\n")]},
    {"name": "charset-normalize-module-level-helper-narrow-handler", "expect": "R7.1", "edits": [
        (AC, "class CharsetAccept(Accept):", "def _normalize_charset(name: str) -> str:\n    try:\n        return codecs.lookup(name).name\n    except LookupError:\n        return name.lower()\n\n\nclass CharsetAccept(Accept):"),
        (AC, "        def _normalize(name: str) -> str:\n" + _CS_OLD + "\n        return item == \"*\" or _normalize(value) == _normalize(item)", "        return item == \"*\" or _normalize_charset(value) == _normalize_charset(item)")]},
    {"name": "charset-normalize-lambda-free-nested-int", "expect": "R7.1", "edits": [(AC, "        def _normalize(name: str) -> str:\n" + _CS_OLD, "        def _normalize(name: str) -> str:\n            if name[:2] == \"cp\":\n                return \"cp%d\" % int(name[2:])\n" + _CS_OLD)]},
]
TWINS += [
    {"name": "charset-normalize-module-level-helper", "edits": [
        (AC, "class CharsetAccept(Accept):", "def _normalize_charset(name: str) -> str:\n    try:\n        return codecs.lookup(name).name\n    except (LookupError, ValueError):\n        return name.lower()\n\n\nclass CharsetAccept(Accept):"),
        (AC, "        def _normalize(name: str) -> str:\n" + _CS_OLD + "\n        return item == \"*\" or _normalize(value) == _normalize(item)", "        return item == \"*\" or _normalize_charset(value) == _normalize_charset(item)")]},
    {"name": "charset-normalize-handler-widened", "edits": [(AC, "            except (LookupError, ValueError):\n                # ValueError", "            except Exception:\n                # ValueError")]},
    {"name": "charset-normalize-try-else", "edits": [(AC, _CS_OLD, "            try:\n                info = codecs.lookup(name)\n            except (LookupError, ValueError):\n                return name.lower()\n            else:\n                return info.name\n")]},
    {"name": "charset-normalize-nested-renamed", "edits": [(AC, "        def _normalize(name: str) -> str:", "        def canonical(name: str) -> str:"), (AC, "_normalize(value) == _normalize(item)", "canonical(value) == canonical(item)")]},
]
