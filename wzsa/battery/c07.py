"""self-validation battery for C07."""
H = "http.py"
A = "datastructures/auth.py"
S = "sansio/http.py"
Q = "sansio/request.py"
U = "urls.py"
F = "formparser.py"
I = "_internal.py"
MUTANTS = [
    {"name": "auth-handler-narrowed", "expect": "R7.1", "edits": [(A, "            except ValueError:\n                return None", "            except UnicodeError:\n                return None")]},
    {"name": "parse-date-handler-loses-overflow", "expect": "R7.1", "edits": [(H, "    except (TypeError, ValueError, OverflowError):", "    except (TypeError, ValueError):")]},
    {"name": "parse-age-without-try", "expect": "R7.1", "edits": [(H, "    try:\n        seconds = int(value)\n    except ValueError:\n        return None\n", "    seconds = int(value)\n")]},
    {"name": "cookie-strict-decode", "expect": "R7.1", "edits": [(H, 'cookie = cookie.encode("latin1").decode(errors="replace")', 'cookie = cookie.encode("latin1").decode()')]},
    {"name": "args-strict-decode", "expect": "R7.1", "edits": [(Q, '                self.query_string.decode(errors="replace"),', "                self.query_string.decode(),")]},
    {"name": "content-range-plain-int-outside-try", "expect": "R7.1", "edits": [(H, "    try:\n        start = _plain_int(start_str)\n        stop = _plain_int(stop_str) + 1\n    except ValueError:\n        return None\n", "    start = _plain_int(start_str)\n    stop = _plain_int(stop_str) + 1\n")]},
    {"name": "new-int-on-header", "expect": "R7.1", "edits": [(Q, "        return parse_range_header(self.headers.get(\"Range\"))", "        if int(self.headers.get(\"X-Range-Version\", \"1\")) > 1:\n            return None\n        return parse_range_header(self.headers.get(\"Range\"))")]},
    {"name": "range-guard-off-by-one", "expect": "R7.1", "edits": [(H, "                if begin >= end:\n                    return None", "                if begin > end:\n                    return None")]},
    {"name": "unslash-regex-any-octal", "expect": "R7.1", "edits": [(S, r'rb"\\([0-3][0-7]{2}|.)"', r'rb"\\([0-7]{3}|.)"')]},
    {"name": "empty-option-key-kept", "expect": "R7.1", "edits": [(H, "        if not pk:\n            # *=a or *0=a has no key, skip this invalid part\n            continue\n\n", "")]},
    {"name": "q-regex-allows-exponent", "expect": "R7.1", "edits": [(H, '_q_value_re = re.compile(r"-?\\d+(\\.\\d+)?", re.ASCII)', '_q_value_re = re.compile(r"-?\\d+(\\.\\d+)?(e\\w+)?", re.ASCII)')]},
    {"name": "idna-handler-narrow", "expect": "R7.1", "edits": [(U, "        return data.decode(\"idna\")\n    except UnicodeError:", "        return data.decode(\"idna\")\n    except UnicodeDecodeError:")]},
    {"name": "dict-header-match-unchecked", "expect": "R7.1", "edits": [(H, "            match = _charset_value_re.match(value)\n\n            if match:\n                # If there is a charset marker in the value, split it off.\n                encoding, value = match.groups()\n                encoding = encoding.lower()", "            match = _charset_value_re.match(value)\n            # If there is a charset marker in the value, split it off.\n            encoding, value = match.groups()\n            encoding = encoding.lower()")]},
    {"name": "form-parser-not-silent", "expect": "R7.1", "edits": [("wrappers/request.py", "            max_form_parts=self.max_form_parts,\n            cls=self.parameter_storage_class,", "            max_form_parts=self.max_form_parts,\n            cls=self.parameter_storage_class,\n            silent=False,")]},
    {"name": "etag-loop-without-advance", "expect": "R7.2", "edits": [(H, "        pos = match.end()\n    return ds.ETags(strong, weak)", "        pos = match.start()\n    return ds.ETags(strong, weak)")]},
    {"name": "options-loop-forgets-to-advance", "expect": "R7.2", "edits": [(H, "        rest = rest[end + 1 :].lstrip()", "        rest = rest[end:].lstrip()")]},
    {"name": "accessor-catches-only-valueerror", "expect": "R7.3", "edits": [(I, "            except (ValueError, TypeError):\n                return self.default", "            except ValueError:\n                return self.default")]},
    {"name": "args-default-error-handler", "expect": "R7.3", "edits": [(Q, '                keep_blank_values=True,\n                errors="werkzeug.url_quote",\n            )\n        )', "                keep_blank_values=True,\n            )\n        )")]},
    {"name": "decoding-dance-strict", "expect": "R7.3", "edits": [(I, 'return s.encode("latin1").decode(errors="replace")', 'return s.encode("latin1").decode()')]},
]
TWINS = [
    {"name": "handler-widened", "edits": [(H, "    except (TypeError, ValueError, OverflowError):", "    except Exception:")]},
    {"name": "guarded-int-moved-into-helper", "edits": [(H, "def parse_age(value: str | None = None) -> timedelta | None:", "def _age_seconds(value: str) -> int | None:\n    try:\n        return int(value)\n    except ValueError:\n        return None\n\n\ndef parse_age(value: str | None = None) -> timedelta | None:"), (H, "    try:\n        seconds = int(value)\n    except ValueError:\n        return None\n    if seconds < 0:", "    seconds = _age_seconds(value)\n    if seconds is None:\n        return None\n    if seconds < 0:")]},
    {"name": "range-guard-mirrored", "edits": [(H, "                if begin >= end:\n                    return None", "                if end <= begin:\n                    return None")]},
]
