"""self-validation battery for C20."""
D = "debug/__init__.py"
U = "sansio/utils.py"
Q = "sansio/request.py"
MUTANTS = [
    {"name": "eval-gate-drops-pin-trust", "expect": "R20.1", "edits": [(D, "                and self.secret == secret\n                and self.check_pin_trust(environ)\n            ):", "                and self.secret == secret\n            ):")]},
    {"name": "eval-gate-drops-secret", "expect": "R20.1", "edits": [(D, "                and frame is not None\n                and self.secret == secret\n", "                and frame is not None\n")]},
    {"name": "eval-gate-drops-evalex", "expect": "R20.1", "edits": [(D, "            elif (\n                self.evalex\n                and cmd is not None", "            elif (\n                cmd is not None")]},
    {"name": "execute-command-no-host-check", "expect": "R20.2", "edits": [(D, "        \"\"\"Execute a command in a console.\"\"\"\n        if not self.check_host_trust(request.environ):\n            return SecurityError()  # type: ignore[return-value]\n", "        \"\"\"Execute a command in a console.\"\"\"\n")]},
    {"name": "console-effect-before-host-check", "expect": "R20.2", "edits": [(D, "        if not self.check_host_trust(request.environ):\n            return SecurityError()  # type: ignore[return-value]\n\n        if 0 not in self.frames:", "        is_trusted = bool(self.check_pin_trust(request.environ))\n\n        if not self.check_host_trust(request.environ):\n            return SecurityError()  # type: ignore[return-value]\n\n        if 0 not in self.frames:")]},
    {"name": "printpin-without-secret", "expect": "R20.2", "edits": [(D, 'elif cmd == "printpin" and secret == self.secret:', 'elif cmd == "printpin":')]},
    {"name": "threshold-100", "expect": "R20.3", "edits": [(D, "elif self._failed_pin_auth.value > 10:", "elif self._failed_pin_auth.value > 100:")]},
    {"name": "pin-compared-before-threshold", "expect": "R20.3", "edits": [(D, "        elif self._failed_pin_auth.value > 10:\n            exhausted = True\n", "        elif request.args[\"pin\"].strip().replace(\"-\", \"\") == pin.replace(\"-\", \"\"):\n            auth = True\n        elif self._failed_pin_auth.value > 10:\n            exhausted = True\n")]},
    {"name": "wrong-pin-not-counted", "expect": "R20.3", "edits": [(D, "                auth = True\n            else:\n                self._fail_pin_auth()", "                auth = True\n            else:\n                pass")]},
    {"name": "counter-saturates", "expect": "R20.3", "edits": [(D, "self._failed_pin_auth.value = count + 1", "self._failed_pin_auth.value = min(count + 1, 10)")]},
    {"name": "cookie-issued-unconditionally", "expect": "R20.3", "edits": [(D, "        if auth:\n            rv.set_cookie(", "        if auth or bad_cookie:\n            rv.set_cookie(")]},
    {"name": "pin-trust-ignores-hash", "expect": "R20.4", "edits": [(D, "        if pin_hash != hash_pin(self.pin):\n            return None\n", "")]},
    {"name": "pin-trust-no-expiry", "expect": "R20.4", "edits": [(D, "        return (time.time() - PIN_TIME) < ts", "        return True")]},
    {"name": "suffix-not-dot-anchored", "expect": "R20.5", "edits": [(U, 'hostname.endswith(f".{ref}")', "hostname.endswith(ref)")]},
    {"name": "empty-list-trusts", "expect": "R20.5", "edits": [(U, "            return True\n\n    return False", "            return True\n\n    return not trusted_list")]},
    {"name": "suffix-for-every-entry", "expect": "R20.5", "edits": [(U, "        else:\n            suffix_match = False", "        else:\n            suffix_match = True")]},
    {"name": "idna-handler-narrow", "expect": "R20.5", "edits": [(U, "        hostname = _strip_port(hostname).encode(\"idna\").decode(\"ascii\")\n    except UnicodeError:", "        hostname = _strip_port(hostname).encode(\"idna\").decode(\"ascii\")\n    except UnicodeEncodeError:")]},
    {"name": "port-strip-not-bracket-aware", "expect": "R20.5", "edits": [(U, "    if host.startswith(\"[\"):\n        # Bracketed IPv6 literal, a port can only follow the closing bracket.\n        return host[: host.find(\"]\") + 1] or host\n\n", "")]},
    {"name": "get-host-warns-only", "expect": "R20.5", "edits": [(U, "            raise SecurityError(f\"Host {host!r} is not trusted.\")", "            pass")]},
    {"name": "request-host-drops-list", "expect": "R20.5", "edits": [(Q, "            self.scheme, self.headers.get(\"host\"), self.server, self.trusted_hosts\n", "            self.scheme, self.headers.get(\"host\"), self.server\n")]},
]
TWINS = [
    {"name": "secret-compare-reversed", "edits": [(D, "                and self.secret == secret\n                and self.check_pin_trust(environ)", "                and secret == self.secret\n                and self.check_pin_trust(environ)")]},
    {"name": "threshold-ge-11", "edits": [(D, "elif self._failed_pin_auth.value > 10:", "elif self._failed_pin_auth.value >= 11:")]},
    {"name": "host-match-split-ifs", "edits": [(U, '        if ref == hostname or (suffix_match and hostname.endswith(f".{ref}")):\n            return True', '        if ref == hostname:\n            return True\n\n        if suffix_match and hostname.endswith("." + ref):\n            return True')]},
    {"name": "idna-handler-wider", "edits": [(U, "        hostname = _strip_port(hostname).encode(\"idna\").decode(\"ascii\")\n    except UnicodeError:", "        hostname = _strip_port(hostname).encode(\"idna\").decode(\"ascii\")\n    except ValueError:")]},
]
