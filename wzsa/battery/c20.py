"""self-validation battery for C20."""
D = "debug/__init__.py"
U = "sansio/utils.py"
Q = "sansio/request.py"
MUTANTS = [
    {"name": "eval-gate-drops-pin-trust", "expect": "R20.1", "edits": [(D, "                and self.secret == secret\n                and self.check_pin_trust(environ)\n            ):", "                and self.secret == secret\n            ):")]},
    {"name": "eval-gate-drops-secret", "expect": "R20.1", "edits": [(D, "                and frame is not None\n                and self.secret == secret\n", "                and frame is not None\n")]},
    {"name": "eval-gate-drops-evalex", "expect": "R20.1", "edits": [(D, "            elif (\n                self.evalex\n                and cmd is not None", "            elif (\n                cmd is not None")]},
    {"name": "execute-command-no-host-check", "expect": "R20.2", "edits": [(D, "        \"\"\"Execute a command in a console.\"\"\"\n        if not self.check_host_trust(request.environ):\n            return SecurityError()  # type: ignore[return-value]\n", "        \"\"\"Execute a command in a console.\"\"\"\n")]},
    {"name": "console-effect-before-host-check", "expect": "R20.2", "edits": [(D, "        if not self.check_host_trust(request.environ):\n            return SecurityError()  # type: ignore[return-value]\n\n        if 0 not in self.frames:", "        is_trusted = bool(self.check_pin_trust(request.environ))\n\n        if not self.check_host_trust(request.environ):\n            return SecurityError()  # type: ignore[return-value]\n\n        if 0 not in self.frames:")]},
    {"name": "printpin-without-secret", "expect": "R20.2", "edits": [(D, 'elif cmd == "printpin" and secret == self.secret:', 'elif cmd == "printpin":')]},
    {"name": "threshold-100", "expect": "R20.3", "edits": [(D, "elif self._failed_pin_auth.value > 10:", "elif self._failed_pin_auth.value > 100:")]},
    {"name": "pin-compared-before-threshold", "expect": "R20.3", "edits": [(D, "        elif self._failed_pin_auth.value > 10:\n            exhausted = True\n", "        elif request.args[\"pin\"].strip().replace(\"-\", \"\") == pin.replace(\"-\", \"\"):\n            auth = True\n        elif self._failed_pin_auth.value > 10:\n            exhausted = True\n")]},
    {"name": "wrong-pin-not-counted", "expect": "R20.3", "edits": [(D, "                auth = True\n            else:\n                self._fail_pin_auth()", "                auth = True\n            else:\n                pass")]},
    {"name": "counter-saturates", "expect": "R20.3", "edits": [(D, "self._failed_pin_auth.value = count + 1", "self._failed_pin_auth.value = min(count + 1, 10)")]},
    {"name": "cookie-issued-unconditionally", "expect": "R20.3", "edits": [(D, "        if auth:\n            rv.set_cookie(", "        if auth or bad_cookie:\n            rv.set_cookie(")]},
    {"name": "pin-trust-ignores-hash", "expect": "R20.4", "edits": [(D, "        if pin_hash != hash_pin(self.pin):\n            return None\n", "")]},
    {"name": "pin-trust-no-expiry", "expect": "R20.4", "edits": [(D, "        return (time.time() - PIN_TIME) < ts", "        return True")]},
    {"name": "suffix-not-dot-anchored", "expect": "R20.5", "edits": [(U, 'hostname.endswith(f".{ref}")', "hostname.endswith(ref)")]},
    {"name": "empty-list-trusts", "expect": "R20.5", "edits": [(U, "            return True\n\n    return False", "            return True\n\n    return not trusted_list")]},
    {"name": "suffix-for-every-entry", "expect": "R20.5", "edits": [(U, "        else:\n            suffix_match = False", "        else:\n            suffix_match = True")]},
    {"name": "idna-handler-narrow", "expect": "R20.5", "edits": [(U, "        hostname = _strip_port(hostname).encode(\"idna\").decode(\"ascii\")\n    except UnicodeError:", "        hostname = _strip_port(hostname).encode(\"idna\").decode(\"ascii\")\n    except UnicodeEncodeError:")]},
    {"name": "port-strip-not-bracket-aware", "expect": "R20.5", "edits": [(U, "    if host.startswith(\"[\"):\n        # Bracketed IPv6 literal, a port can only follow the closing bracket.\n        return host[: host.find(\"]\") + 1] or host\n\n", "")]},
    {"name": "get-host-warns-only", "expect": "R20.5", "edits": [(U, "            raise SecurityError(f\"Host {host!r} is not trusted.\")", "            pass")]},
    {"name": "request-host-drops-list", "expect": "R20.5", "edits": [(Q, "            self.scheme, self.headers.get(\"host\"), self.server, self.trusted_hosts\n", "            self.scheme, self.headers.get(\"host\"), self.server\n")]},
]

# ---------------------------------------------------------------------------------------------
# second robustness round: neutral variants in further spellings (anchors = whole blocks of today's source)

HOST_LOOP = '''    for ref in trusted_list:
        if ref.startswith("."):
            ref = ref[1:]
            suffix_match = True
        else:
            suffix_match = False

        try:
            ref = _strip_port(ref).encode("idna").decode("ascii")
        except UnicodeError:
            return False

        if ref == hostname or (suffix_match and hostname.endswith(f".{ref}")):
            return True

    return False
'''
HOST_DEF = "def host_is_trusted(hostname: str | None, trusted_list: t.Iterable[str]) -> bool:\n"
STRIP_PORT = '''def _strip_port(host: str) -> str:
    if host.startswith("["):
        # Bracketed IPv6 literal, a port can only follow the closing bracket.
        return host[: host.find("]") + 1] or host

    return host.partition(":")[0]
'''
DISPATCH = '''        request = Request(environ)
        response = self.debug_application
        if request.args.get("__debugger__") == "yes":
            cmd = request.args.get("cmd")
            arg = request.args.get("f")
            secret = request.args.get("s")
            frame = self.frames.get(request.args.get("frm", type=int))  # type: ignore
            if cmd == "resource" and arg:
                response = self.get_resource(request, arg)  # type: ignore
            elif cmd == "pinauth" and secret == self.secret:
                response = self.pin_auth(request)  # type: ignore
            elif cmd == "printpin" and secret == self.secret:
                response = self.log_pin_request(request)  # type: ignore
            elif (
                self.evalex
                and cmd is not None
                and frame is not None
                and self.secret == secret
                and self.check_pin_trust(environ)
            ):
                response = self.execute_command(request, cmd, frame)  # type: ignore
        elif (
            self.evalex
            and self.console_path is not None
            and request.path == self.console_path
        ):
            response = self.display_console(request)  # type: ignore
        return response(environ, start_response)
'''
PIN_BODY = '''        exhausted = False
        auth = False
        trust = self.check_pin_trust(request.environ)
        pin = t.cast(str, self.pin)

        # If the trust return value is `None` it means that the cookie is
        # set but the stored pin hash value is bad.  This means that the
        # pin was changed.  In this case we count a bad auth and unset the
        # cookie.  This way it becomes harder to guess the cookie name
        # instead of the pin as we still count up failures.
        bad_cookie = False
        if trust is None:
            self._fail_pin_auth()
            bad_cookie = True

        # If we're trusted, we're authenticated.
        elif trust:
            auth = True

        # If we failed too many times, then we're locked out.
        elif self._failed_pin_auth.value > 10:
            exhausted = True

        # Otherwise go through pin based authentication
        else:
            entered_pin = request.args["pin"]

            if entered_pin.strip().replace("-", "") == pin.replace("-", ""):
                self._failed_pin_auth.value = 0
                auth = True
            else:
                self._fail_pin_auth()

'''
PIN_DEF = "    def pin_auth(self, request: Request) -> Response:\n"
TRUST_BODY = '''        val = parse_cookie(environ).get(self.pin_cookie_name)
        if not val or "|" not in val:
            return False
        ts_str, pin_hash = val.split("|", 1)

        try:
            ts = int(ts_str)
        except ValueError:
            return False

        if pin_hash != hash_pin(self.pin):
            return None
        return (time.time() - PIN_TIME) < ts
'''
FAIL_BODY = '''        with self._failed_pin_auth.get_lock():
            count = self._failed_pin_auth.value
            self._failed_pin_auth.value = count + 1
'''
HOSTGATE_CONSOLE = '''        """Display a standalone shell."""
        if not self.check_host_trust(request.environ):
            return SecurityError()  # type: ignore[return-value]
'''
HOSTGATE_LOG = '''        """Log the pin if needed."""
        if not self.check_host_trust(request.environ):
            return SecurityError()  # type: ignore[return-value]
'''
GET_HOST_TAIL = '''    if trusted_hosts is not None:
        if not host_is_trusted(host, trusted_hosts):
            raise SecurityError(f"Host {host!r} is not trusted.")

    return host
'''

ANY_HELPER = '''def _entry_matches(hostname: str, entry: str) -> bool:
    subdomains = entry.startswith(".")
    name = _strip_port(entry[1:] if subdomains else entry).encode("idna").decode("ascii")

    if name == hostname:
        return True

    return subdomains and hostname.endswith("." + name)


'''

def host_loop(new):
    return [(U, HOST_LOOP, new)]


TWINS = [
    {"name": "secret-compare-reversed", "edits": [(D, "                and self.secret == secret\n                and self.check_pin_trust(environ)", "                and secret == self.secret\n                and self.check_pin_trust(environ)")]},
    {"name": "threshold-ge-11", "edits": [(D, "elif self._failed_pin_auth.value > 10:", "elif self._failed_pin_auth.value >= 11:")]},
    {"name": "host-match-split-ifs", "edits": [(U, '        if ref == hostname or (suffix_match and hostname.endswith(f".{ref}")):\n            return True', '        if ref == hostname:\n            return True\n\n        if suffix_match and hostname.endswith("." + ref):\n            return True')]},
    {"name": "idna-handler-wider", "edits": [(U, "        hostname = _strip_port(hostname).encode(\"idna\").decode(\"ascii\")\n    except UnicodeError:", "        hostname = _strip_port(hostname).encode(\"idna\").decode(\"ascii\")\n    except ValueError:")]},

    {"name": "host-any-over-helper", "edits": [(U, HOST_DEF, ANY_HELPER + HOST_DEF), (U, HOST_LOOP, '''    try:
        return any(_entry_matches(hostname, item) for item in trusted_list)
    except UnicodeError:
        return False
''')]},
    {"name": "host-removeprefix-format", "edits": host_loop('''    for item in trusted_list:
        wildcard = item.startswith(".")

        try:
            name = _strip_port(item.removeprefix(".")).encode("idna").decode("ascii")
        except UnicodeError:
            return False

        if wildcard and hostname.endswith(".{}".format(name)):
            return True
        elif hostname == name:
            return True

    return False
''')},
    {"name": "host-strip-port-conditional-expression", "edits": [(U, STRIP_PORT, '''def _strip_port(host: str) -> str:
    bracketed = host.startswith("[")
    # Bracketed IPv6 literal, a port can only follow the closing bracket.
    return (host[: host.find("]") + 1] or host) if bracketed else host.partition(":")[0]
''')]},
    {"name": "host-continue-style", "edits": host_loop('''    for ref in trusted_list:
        suffix_match = False

        if ref.startswith("."):
            suffix_match = True
            ref = ref[1:]

        try:
            ref = _strip_port(ref).encode("idna").decode("ascii")
        except UnicodeError:
            return False

        if ref != hostname:
            if not suffix_match:
                continue

            if not hostname.endswith(".%s" % ref):
                continue

        return True

    return False
''')},
    {"name": "get-host-early-returns", "edits": [(U, GET_HOST_TAIL, '''    if trusted_hosts is None:
        return host

    if host_is_trusted(host, trusted_hosts):
        return host

    raise SecurityError(f"Host {host!r} is not trusted.")
''')]},
    {"name": "dispatch-table-and-early-returns", "edits": [(D, DISPATCH, '''        request = Request(environ)
        args = request.args

        if args.get("__debugger__") != "yes":
            console = self.evalex and self.console_path is not None
            if console and request.path == self.console_path:
                return self.display_console(request)(environ, start_response)
            return self.debug_application(environ, start_response)

        cmd = args.get("cmd")
        arg = args.get("f")
        secret_ok = args.get("s") == self.secret
        frame = self.frames.get(args.get("frm", type=int))  # type: ignore
        handlers = {"pinauth": self.pin_auth, "printpin": self.log_pin_request}

        if cmd == "resource" and arg:
            response = self.get_resource(request, arg)
        elif cmd in handlers and secret_ok:
            response = handlers[cmd](request)
        elif not (self.evalex and secret_ok) or cmd is None or frame is None:
            response = self.debug_application  # type: ignore
        elif not self.check_pin_trust(environ):
            response = self.debug_application  # type: ignore
        else:
            response = self.execute_command(request, cmd, frame)
        return response(environ, start_response)
''')]},
    {"name": "pin-auth-tuple-helper", "edits": [(D, PIN_DEF, '''    def _authenticate(self, request: Request) -> tuple[bool, bool, bool]:
        """(auth, exhausted, bad_cookie)"""
        cookie_state = self.check_pin_trust(request.environ)

        if cookie_state is None:
            self._fail_pin_auth()
            return False, False, True

        if cookie_state:
            return True, False, False

        if not self._failed_pin_auth.value <= 10:
            return False, True, False

        expected = t.cast(str, self.pin).replace("-", "")

        if request.args["pin"].strip().replace("-", "") != expected:
            self._fail_pin_auth()
            return False, False, False

        self._failed_pin_auth.value = 0
        return True, False, False

''' + PIN_DEF), (D, PIN_BODY, '''        auth, exhausted, bad_cookie = self._authenticate(request)
        pin = t.cast(str, self.pin)

''')]},
    {"name": "pin-trust-len-of-split", "edits": [(D, TRUST_BODY, '''        cookie = parse_cookie(environ).get(self.pin_cookie_name)
        if not cookie:
            return False
        parts = cookie.split("|", 1)
        if len(parts) != 2:
            return False
        stamp, digest = parts

        try:
            issued = int(stamp)
        except ValueError:
            return False

        if hash_pin(self.pin) == digest:
            now = time.time()
            if issued + PIN_TIME > now:
                return True
            return False
        return None
''')]},
    {"name": "fail-pin-auth-augmented", "edits": [(D, FAIL_BODY, '''        with self._failed_pin_auth.get_lock():
            count = self._failed_pin_auth.value
            self._failed_pin_auth.value += 1
''')]},
    {"name": "host-gate-helper", "edits": [(D, PIN_DEF, '''    def _untrusted_host(self, request: Request) -> Response | None:
        if self.check_host_trust(request.environ):
            return None
        return SecurityError()  # type: ignore[return-value]

''' + PIN_DEF), (D, HOSTGATE_CONSOLE, '''        """Display a standalone shell."""
        rejected = self._untrusted_host(request)
        if rejected is not None:
            return rejected
'''), (D, HOSTGATE_LOG, '''        """Log the pin if needed."""
        if (rejected := self._untrusted_host(request)) is not None:
            return rejected
''')]},
]


# ---------------------------------------------------------------------------------------------
# mutants *in the new shapes*: a neutral variant from above (or one of the held-out refactorings) with one
# obligation broken inside it


def _twin(name: str) -> list:
    return [list(e) for t_ in TWINS if t_["name"] == name for e in t_["edits"]]


def _broken(name: str, old: str, new: str) -> list:
    """the edits of twin `name` with `old` -> `new` applied inside its replacement text (exactly once)."""
    edits = _twin(name)
    hits = [e for e in edits if old in e[2]]
    assert len(hits) == 1 and hits[0][2].count(old) == 1, (name, old)
    hits[0][2] = hits[0][2].replace(old, new)
    return [tuple(e) for e in edits]


# the shapes of the held-out refactorings C20-5 (flags as direct boolean expressions) and C20-6 (dispatch helper with
# early returns, default chosen afterwards), re-typed here so that a broken version of each can be built
PIN_BODY_FLAGS = '''        exhausted = False
        auth = False
        trust = self.check_pin_trust(request.environ)
        pin = t.cast(str, self.pin)
        bad_cookie = trust is None

        if bad_cookie:
            self._fail_pin_auth()
        elif trust:
            auth = True
        else:
            exhausted = self._failed_pin_auth.value > 10

            if not exhausted:
                entered_pin = request.args["pin"]
                auth = entered_pin.strip().replace("-", "") == pin.replace("-", "")

                if auth:
                    self._failed_pin_auth.value = 0
                else:
                    self._fail_pin_auth()

'''
DISPATCH_HELPER = '''    def _dispatch_command(self, request: Request) -> Response | None:
        cmd = request.args.get("cmd")
        arg = request.args.get("f")
        secret = request.args.get("s")
        frame = self.frames.get(request.args.get("frm", type=int))  # type: ignore

        if cmd == "resource" and arg:
            return self.get_resource(request, arg)

        if secret != self.secret:
            return None

        if cmd == "pinauth":
            return self.pin_auth(request)

        if cmd == "printpin":
            return self.log_pin_request(request)

        if self.evalex and cmd is not None and frame is not None:
            if self.check_pin_trust(request.environ):
                return self.execute_command(request, cmd, frame)

        return None

'''
DISPATCH_VIA_HELPER = '''        request = Request(environ)
        response = None
        if request.args.get("__debugger__") == "yes":
            response = self._dispatch_command(request)
        elif (
            self.evalex
            and self.console_path is not None
            and request.path == self.console_path
        ):
            response = self.display_console(request)
        if response is None:
            response = self.debug_application  # type: ignore[assignment]
        return response(environ, start_response)
'''
TWINS += [
    {"name": "pin-auth-direct-flags", "edits": [(D, PIN_BODY, PIN_BODY_FLAGS)]},
    {"name": "dispatch-helper-early-returns", "edits": [(D, PIN_DEF, DISPATCH_HELPER + PIN_DEF), (D, DISPATCH, DISPATCH_VIA_HELPER)]},
]

MUTANTS += [
    # host_is_trusted through any() over a helper
    {"name": "any-helper:suffix-not-dot-anchored", "expect": "R20.5", "edits": _broken("host-any-over-helper", 'hostname.endswith("." + name)', "hostname.endswith(name)")},
    {"name": "any-helper:idna-error-escapes", "expect": "R20.5", "edits": _broken("host-any-over-helper", "    except UnicodeError:\n        return False\n", "    except UnicodeDecodeError:\n        return False\n")},
    {"name": "any-helper:entry-not-port-stripped", "expect": "R20.5", "edits": _broken("host-any-over-helper", "_strip_port(entry[1:] if subdomains else entry).encode", "(entry[1:] if subdomains else entry).encode")},
    # removeprefix / format spelling
    {"name": "removeprefix:suffix-for-every-entry", "expect": "R20.5", "edits": _broken("host-removeprefix-format", "if wildcard and hostname.endswith", "if hostname.endswith")},
    {"name": "removeprefix:first-char-always-dropped", "expect": "R20.5", "edits": _broken("host-removeprefix-format", 'item.removeprefix(".")', "item[1:]")},
    # port strip as a conditional expression
    {"name": "condexp:port-strip-ignores-brackets", "expect": "R20.5", "edits": _broken("host-strip-port-conditional-expression", '(host[: host.find("]") + 1] or host) if bracketed else host.partition(":")[0]', 'host.partition(":")[0]')},
    # continue style
    {"name": "continue-style:suffix-for-every-entry", "expect": "R20.5", "edits": _broken("host-continue-style", "            if not suffix_match:\n                continue\n\n", "")},
    {"name": "continue-style:flag-leaks-into-next-entry", "expect": "R20.5", "edits": _broken("host-continue-style", "    for ref in trusted_list:\n        suffix_match = False\n", "    suffix_match = False\n\n    for ref in trusted_list:\n")},
    # get_host with early returns
    {"name": "get-host-early:empty-list-skips-check", "expect": "R20.5", "edits": _broken("get-host-early-returns", "if trusted_hosts is None:", "if not trusted_hosts:")},
    {"name": "get-host-early:falls-through", "expect": "R20.5", "edits": _broken("get-host-early-returns", '    raise SecurityError(f"Host {host!r} is not trusted.")\n', "    return host\n")},
    # dispatch table
    {"name": "dispatch-table:handlers-without-secret", "expect": "R20.2", "edits": _broken("dispatch-table-and-early-returns", "elif cmd in handlers and secret_ok:", "elif cmd in handlers:")},
    {"name": "dispatch-table:eval-without-secret", "expect": "R20.1", "edits": _broken("dispatch-table-and-early-returns", "elif not (self.evalex and secret_ok) or cmd is None or frame is None:", "elif not self.evalex or cmd is None or frame is None:")},
    {"name": "dispatch-table:eval-without-pin-trust", "expect": "R20.1", "edits": _broken("dispatch-table-and-early-returns", "        elif not self.check_pin_trust(environ):\n            response = self.debug_application  # type: ignore\n", "")},
    {"name": "dispatch-table:console-without-evalex", "expect": "R20.2", "edits": _broken("dispatch-table-and-early-returns", "console = self.evalex and self.console_path is not None", "console = self.console_path is not None")},
    # authentication helper returning a tuple
    {"name": "tuple-helper:fields-swapped", "expect": "R20.3", "edits": _broken("pin-auth-tuple-helper", "        auth, exhausted, bad_cookie = self._authenticate(request)", "        exhausted, auth, bad_cookie = self._authenticate(request)")},
    {"name": "tuple-helper:forged-cookie-not-counted", "expect": "R20.3", "edits": _broken("pin-auth-tuple-helper", "        if cookie_state is None:\n            self._fail_pin_auth()\n", "        if cookie_state is None:\n")},
    {"name": "tuple-helper:threshold-after-compare", "expect": "R20.3", "edits": _broken("pin-auth-tuple-helper", "        if not self._failed_pin_auth.value <= 10:\n            return False, True, False\n\n", "")},
    {"name": "tuple-helper:threshold-12", "expect": "R20.3", "edits": _broken("pin-auth-tuple-helper", "self._failed_pin_auth.value <= 10", "self._failed_pin_auth.value <= 12")},
    # cookie taken apart with split + len
    {"name": "len-split:no-separator-test", "expect": "R20.4", "edits": _broken("pin-trust-len-of-split", "        if len(parts) != 2:\n            return False\n", "")},
    {"name": "len-split:expiry-reversed", "expect": "R20.4", "edits": _broken("pin-trust-len-of-split", "if issued + PIN_TIME > now:", "if issued + PIN_TIME < now:")},
    {"name": "len-split:wrong-hash-is-false", "expect": "R20.4", "edits": _broken("pin-trust-len-of-split", "            return False\n        return None\n", "            return False\n        return False\n")},
    # augmented increment
    {"name": "augmented:increment-outside-lock", "expect": "R20.3", "edits": _broken("fail-pin-auth-augmented", "            count = self._failed_pin_auth.value\n            self._failed_pin_auth.value += 1\n", "            count = self._failed_pin_auth.value\n        self._failed_pin_auth.value += 1\n")},
    {"name": "augmented:increment-by-zero", "expect": "R20.3", "edits": _broken("fail-pin-auth-augmented", "self._failed_pin_auth.value += 1", "self._failed_pin_auth.value += 0")},
    # host gate through a helper
    {"name": "gate-helper:verdict-inverted", "expect": "R20.2", "edits": _broken("host-gate-helper", "        if self.check_host_trust(request.environ):\n            return None\n", "        if not self.check_host_trust(request.environ):\n            return None\n")},
    {"name": "gate-helper:result-ignored", "expect": "R20.2", "edits": _broken("host-gate-helper", "        rejected = self._untrusted_host(request)\n        if rejected is not None:\n            return rejected\n", "        rejected = self._untrusted_host(request)\n")},
    # flags assigned directly from boolean expressions
    {"name": "direct-flags:compare-when-exhausted", "expect": "R20.3", "edits": [(D, PIN_BODY, PIN_BODY_FLAGS.replace("            if not exhausted:\n", "            if True:\n"))]},
    {"name": "direct-flags:wrong-pin-not-counted", "expect": "R20.3", "edits": [(D, PIN_BODY, PIN_BODY_FLAGS.replace("                else:\n                    self._fail_pin_auth()\n", ""))]},
    # dispatch helper with early returns
    {"name": "dispatch-helper:secret-guard-after-pinauth", "expect": "R20.2", "edits": [(D, PIN_DEF, DISPATCH_HELPER.replace('        if secret != self.secret:\n            return None\n\n        if cmd == "pinauth":\n            return self.pin_auth(request)\n', '        if cmd == "pinauth":\n            return self.pin_auth(request)\n\n        if secret != self.secret:\n            return None\n') + PIN_DEF), (D, DISPATCH, DISPATCH_VIA_HELPER)]},
    {"name": "dispatch-helper:eval-without-pin-trust", "expect": "R20.1", "edits": [(D, PIN_DEF, DISPATCH_HELPER.replace("            if self.check_pin_trust(request.environ):\n                return self.execute_command(request, cmd, frame)\n", "            return self.execute_command(request, cmd, frame)\n") + PIN_DEF), (D, DISPATCH, DISPATCH_VIA_HELPER)]},
    {"name": "dispatch-helper:called-from-console-too", "expect": "R20.2", "edits": [(D, PIN_DEF, DISPATCH_HELPER + PIN_DEF), (D, DISPATCH, DISPATCH_VIA_HELPER), (D, '        """Display a standalone shell."""\n', '        """Display a standalone shell."""\n        self._dispatch_command(request)\n')]},
]


# further spellings (first-character test, unpacking inside the try, one try around the loop, conditions as expressions)
TWINS += [
  {"name": "first-char-compare", "edits": [(U, HOST_LOOP, '''    for ref in trusted_list:
        suffix_match = ref[:1] == "."
        ref = ref[1:] if suffix_match else ref

        try:
            ref = _strip_port(ref).encode("idna").decode("ascii")
        except UnicodeError:
            return False

        if hostname == ref:
            return True
        if not suffix_match:
            continue
        if hostname.endswith("." + ref):
            return True

    return False
''')]},
  {"name": "unpack-in-try", "edits": [(D, TRUST_BODY, '''        val = parse_cookie(environ).get(self.pin_cookie_name)
        if not val:
            return False

        try:
            ts_str, pin_hash = val.split("|", 1)
            ts = int(ts_str)
        except ValueError:
            return False

        if pin_hash != hash_pin(self.pin):
            return None
        return (time.time() - PIN_TIME) < ts
''')]},
  {"name": "frame-subscript", "edits": [(D, '            frame = self.frames.get(request.args.get("frm", type=int))  # type: ignore\n', '            frame_id = request.args.get("frm", type=int)\n            frame = self.frames[frame_id] if frame_id in self.frames else None  # type: ignore\n')]},
  {"name": "console-truthy-path", "edits": [(D, "            and self.console_path is not None\n", "            and self.console_path\n")]},
  {"name": "host-all-in-one-try", "edits": [(U, HOST_LOOP, '''    try:
        for ref in trusted_list:
            suffix_match = ref.startswith(".")
            if suffix_match:
                ref = ref[1:]
            ref = _strip_port(ref).encode("idna").decode("ascii")
            if ref == hostname or (suffix_match and hostname.endswith(f".{ref}")):
                return True
    except UnicodeError:
        pass

    return False
''')]},
  {"name": "handlers-ternary-gate", "edits": [(D, HOSTGATE_LOG, '''        """Log the pin if needed."""
        trusted = self.check_host_trust(request.environ)
        if trusted is False or not trusted:
            return SecurityError()  # type: ignore[return-value]
''')]},
  {"name": "pin-auth-expression-soup", "edits": [(D, PIN_BODY, '''        trust = self.check_pin_trust(request.environ)
        pin = t.cast(str, self.pin)
        bad_cookie = trust is None
        exhausted = not bad_cookie and not trust and self._failed_pin_auth.value > 10
        auth = bool(trust)

        if bad_cookie:
            self._fail_pin_auth()
        elif not (auth or exhausted):
            auth = request.args["pin"].strip().replace("-", "") == pin.replace("-", "")
            if not auth:
                self._fail_pin_auth()
            else:
                self._failed_pin_auth.value = 0

''')]},
]
MUTANTS += [
    {"name": "first-char:suffix-for-every-entry", "expect": "R20.5", "edits": _broken("first-char-compare", "        if not suffix_match:\n            continue\n", "")},
    {"name": "unpack-in-try:split-outside-try", "expect": "R20.4", "edits": _broken("unpack-in-try", '        try:\n            ts_str, pin_hash = val.split("|", 1)\n', '        ts_str, pin_hash = val.split("|", 1)\n\n        try:\n')},
    {"name": "one-try:handler-too-narrow", "expect": "R20.5", "edits": _broken("host-all-in-one-try", "    except UnicodeError:\n        pass\n", "    except UnicodeEncodeError:\n        pass\n")},
    {"name": "expression-soup:exhausted-ignored", "expect": "R20.3", "edits": _broken("pin-auth-expression-soup", "elif not (auth or exhausted):", "elif not auth:")},
    {"name": "ternary-gate:pin-logged-before-gate", "expect": "R20.2", "edits": _broken("handlers-ternary-gate", "        trusted = self.check_host_trust(request.environ)\n", '        _log("info", " * Debugger pin code: %s", self.pin)\n        trusted = self.check_host_trust(request.environ)\n')},
]


# ---------------------------------------------------------------------------------------------
# detection round (blind seed C20-G): hash_pin must be a function of the whole PIN (R20.4), the cookie pin_auth
# issues must be the one check_pin_trust accepts (R20.3)

HASH_PIN = 'def hash_pin(pin: str) -> str:\n    return hashlib.sha1(f"{pin} added salt".encode("utf-8", "replace")).hexdigest()[:12]\n'
COOKIE_VALUE = '                f"{int(time.time())}|{hash_pin(pin)}",\n'
SET_COOKIE = """            rv.set_cookie(
                self.pin_cookie_name,
                f"{int(time.time())}|{hash_pin(pin)}",
"""

TWINS += [
    {"name": "hash-pin-locals-percent", "edits": [(D, HASH_PIN, """def hash_pin(pin: str) -> str:
    salted = ("%s added salt" % pin).encode("utf-8", "replace")
    digest = hashlib.sha1(salted)
    return digest.hexdigest()[:12]
""")]},
    {"name": "hash-pin-update-style", "edits": [(D, HASH_PIN, """def hash_pin(pin: str) -> str:
    h = hashlib.sha1()
    h.update(pin.encode("utf-8", "replace"))
    h.update(b" added salt")
    return h.hexdigest()[:12]
""")]},
    {"name": "hash-pin-salting-helper", "edits": [(D, HASH_PIN, """def _salted(value: str) -> bytes:
    return "{} added salt".format(value).encode("utf-8", "replace")


def hash_pin(pin: str) -> str:
    hexdigest = hashlib.sha1(_salted(pin)).hexdigest()
    return hexdigest[0:12]
""")]},
    {"name": "hash-pin-renamed-parameter-local-import", "edits": [(D, HASH_PIN, """def hash_pin(value: str) -> str:
    from hashlib import sha1 as _sha1

    data = value.encode("utf-8", "replace") + b" added salt"
    return _sha1(data).hexdigest()[:12]
""")]},
    {"name": "hash-pin-join-bytes", "edits": [(D, HASH_PIN, """def hash_pin(pin: str) -> str:
    text = " ".join([pin, "added", "salt"])
    return hashlib.sha1(bytes(text, "utf-8", "replace")).hexdigest()[:12]
""")]},
    {"name": "issued-cookie-percent-tuple", "edits": [(D, COOKIE_VALUE, '                "%d|%s" % (int(time.time()), hash_pin(pin)),\n')]},
    {"name": "issued-cookie-join-keyword", "edits": [(D, SET_COOKIE, """            issued = int(time.time())
            rv.set_cookie(
                key=self.pin_cookie_name,
                value="|".join([str(issued), hash_pin(self.pin)]),
""")]},
    {"name": "issued-cookie-format-two-slots", "edits": [(D, COOKIE_VALUE, '                "{}|{}".format(int(time.time()), hash_pin(pin)),\n')]},
]

MUTANTS += [
    # the hash no longer depends on the PIN
    {"name": "hash-pin:f-prefix-lost", "expect": "R20.4", "edits": [(D, 'hashlib.sha1(f"{pin} added salt".encode', 'hashlib.sha1("{pin} added salt".encode')]},
    {"name": "hash-pin-percent:constant-formatted", "expect": "R20.4", "edits": _broken("hash-pin-locals-percent", '("%s added salt" % pin)', '("%s added salt" % "pin")')},
    {"name": "hash-pin-update:pin-never-fed", "expect": "R20.4", "edits": _broken("hash-pin-update-style", '    h.update(pin.encode("utf-8", "replace"))\n', "")},
    {"name": "hash-pin-helper:called-with-literal", "expect": "R20.4", "edits": _broken("hash-pin-salting-helper", "_salted(pin)", '_salted("pin")')},
    {"name": "hash-pin-helper:helper-ignores-argument", "expect": "R20.4", "edits": _broken("hash-pin-salting-helper", '"{} added salt".format(value)', '"{value} added salt"')},
    {"name": "hash-pin-renamed:parameter-shadowed", "expect": "R20.4", "edits": _broken("hash-pin-renamed-parameter-local-import", '    data = value.encode', '    value = "value"\n    data = value.encode')},
    {"name": "hash-pin:empty-digest-prefix", "expect": "R20.4", "edits": [(D, '.encode("utf-8", "replace")).hexdigest()[:12]', '.encode("utf-8", "replace")).hexdigest()[12:12]')]},
    {"name": "hash-pin:only-first-digits-hashed", "expect": "R20.4", "edits": [(D, 'hashlib.sha1(f"{pin} added salt".encode', 'hashlib.sha1(f"{pin[:3]} added salt".encode')]},
    {"name": "hash-pin-join:length-instead-of-pin", "expect": "R20.4", "edits": _broken("hash-pin-join-bytes", '" ".join([pin, "added", "salt"])', '" ".join([str(len(pin)), "added", "salt"])')},
    # the compared hash is not the hash of the configured PIN
    {"name": "pin-trust-compares-hash-of-cookie-name", "expect": "R20.4", "edits": [(D, "        if pin_hash != hash_pin(self.pin):\n", "        if pin_hash != hash_pin(self.pin_cookie_name):\n")]},
    # the issued cookie is not the one check_pin_trust accepts
    {"name": "issued-cookie:hash-of-submitted-pin", "expect": "R20.3", "edits": [(D, COOKIE_VALUE, '                f"{int(time.time())}|{hash_pin(request.args.get(\'pin\', \'\'))}",\n')]},
    {"name": "issued-cookie-percent:far-future-timestamp", "expect": "R20.3", "edits": _broken("issued-cookie-percent-tuple", "(int(time.time()), hash_pin(pin))", "(9999999999, hash_pin(pin))")},
    {"name": "issued-cookie-join:raw-pin-written", "expect": "R20.3", "edits": _broken("issued-cookie-join-keyword", "hash_pin(self.pin)]", "str(self.pin)]")},
    {"name": "issued-cookie-format:parts-swapped", "expect": "R20.3", "edits": _broken("issued-cookie-format-two-slots", "int(time.time()), hash_pin(pin)", "hash_pin(pin), int(time.time())")},
]
